"""C09 — sequence numbers, counts and expunge notices describe the same mailbox.

Correspondence of coq/Model/SeqSet.v + coq/Model/Expunge.v with raven:
  suite "seqset"    direct calls of utils.ParseSequenceSetWithDB / ParseUIDSequenceSetWithDB
                    (driver op c09_sets) and message.isSequenceSet / matchesSequenceSet
  suite "numbering" IMAP sessions: histories of APPEND / STORE / EXPUNGE / UID EXPUNGE /
                    CLOSE / copy-in, then every set through FETCH, SEARCH, UID SEARCH UID,
                    UID FETCH, STORE, UID STORE, COPY, UID COPY; NOOP in a second session;
                    the Junk auto-move.
Every case is evaluated inside Coq (Spec/C09Cases.v): model vs implementation,
executable spec vs implementation, finding class of the input."""
import glob
import json
import os
import re
import common as C

CLASSES = [None] * 19
CLASSES[17] = "noop_notices"
MSG = "From: a@example.com\r\nTo: b@example.com\r\nSubject: t\r\n\r\nbody\r\n"

# ---------------------------------------------------------------- ASTs
# item: ("one", a) | ("range", a, b); a = int | "*"


def gen_num(rng, top):
    r = rng.random()
    if r < 0.22:
        return "*"
    if r < 0.80:
        return rng.randint(1, max(1, top + 2))
    if r < 0.95:
        return rng.randint(1, 40)
    return rng.choice([4294967295, 1000000, 999999, 2147483648])


def gen_ast(rng, top, single=False):
    k = 1 if (single or rng.random() < 0.55) else rng.randint(2, 4)
    out = []
    for _ in range(k):
        if rng.random() < 0.45:
            out.append(("one", gen_num(rng, top)))
        else:
            out.append(("range", gen_num(rng, top), gen_num(rng, top)))
    return out


def pnum(a):
    return "*" if a == "*" else str(a)


def print_ast(ast):
    return ",".join(pnum(it[1]) if it[0] == "one" else pnum(it[1]) + ":" + pnum(it[2]) for it in ast)


def coq_num(a):
    return "Star" if a == "*" else "(Num %d)" % a


def coq_ast(ast):
    if ast is None:
        return "None"
    return "(Some [%s])" % "; ".join(("One %s" % coq_num(it[1])) if it[0] == "one" else ("Range %s %s" % (coq_num(it[1]), coq_num(it[2]))) for it in ast)


def gen_malformed(rng):
    atoms = ["1", "2", "3", "10", "*", ":", ",", ":", ",", " ", "+", "-", "0", "x", "1:", ":2", "**", "99999999999999999999", "9223372036854775808", "\t", "é", "1_0", "0x1"]
    return "".join(rng.choice(atoms) for _ in range(rng.randint(1, 5)))


def zl(l):
    return "[" + "; ".join("%d" % x for x in l) + "]"


def zpairs(l):
    return "[" + "; ".join("(%d, %d)" % (a, b) for a, b in l) + "]"


def cstr(s):
    return C.coq_str(s.encode("latin-1") if isinstance(s, str) else s)


# ---------------------------------------------------------------- sessions
def send(conn, tag, cmd):
    return {"op": "send", "conn": conn, "data": "%s %s\r\n" % (tag, cmd), "until": "tag:" + tag, "_tag": tag, "_cmd": cmd}


def append_ops(conn, tag, flags="", mailbox="INBOX"):
    fl = (" (%s)" % flags) if flags else ""
    return [{"op": "send", "conn": conn, "data": "%s APPEND %s%s {%d}\r\n" % (tag, mailbox, fl, len(MSG)), "until": "cont:" + tag},
            {"op": "send", "conn": conn, "data": MSG + "\r\n", "until": "tag:" + tag, "_tag": tag, "_cmd": "APPEND"}]


def parse(recv, tag):
    """parse one command's response text"""
    r = {"status": None, "fetch": [], "expunge": [], "search": None, "exists": None, "messages": None, "order": []}
    for line in recv.split("\r\n"):
        m = re.match(r"^\* (\d+) FETCH \((.*)\)$", line)
        if m:
            body = m.group(2)
            mu = re.search(r"UID (\d+)", body)
            mf = re.search(r"FLAGS \(([^)]*)\)", body)
            r["fetch"].append((int(m.group(1)), int(mu.group(1)) if mu else None, mf.group(1) if mf else None))
            r["order"].append("F")
            continue
        m = re.match(r"^\* (\d+) EXPUNGE$", line)
        if m:
            r["expunge"].append(int(m.group(1)))
            r["order"].append("X")
            r.setdefault("notes", []).append(("X", int(m.group(1))))
            continue
        m = re.match(r"^\* SEARCH(.*)$", line)
        if m:
            r["search"] = [int(x) for x in m.group(1).split()]
            continue
        m = re.match(r"^\* (\d+) EXISTS$", line)
        if m:
            r["exists"] = int(m.group(1))
            r.setdefault("notes", []).append(("E", int(m.group(1))))
            continue
        m = re.match(r"^\* STATUS .*\(MESSAGES (\d+)\)", line)
        if m:
            r["messages"] = int(m.group(1))
            continue
        m = re.match(r"^%s (OK|NO|BAD)\b" % re.escape(tag), line)
        if m:
            r["status"] = m.group(1)
    return r


class Scenario:
    """Builds the op list of one driver process; steps are (kind, meta, [indices of ops whose replies are needed])"""

    def __init__(self, name):
        self.name = name
        self.ops = [{"op": "open", "conn": "c"}, send("c", "a0", "LOGIN u@example.com pw")]
        self.steps = []
        self.k = 0

    def tag(self):
        self.k += 1
        return "t%d" % self.k

    def cmd(self, cmd, conn="c"):
        self.ops.append(send(conn, self.tag(), cmd))
        return len(self.ops) - 1

    def append(self, flags="", mailbox="INBOX"):
        self.ops += append_ops("c", self.tag(), flags, mailbox)
        return len(self.ops) - 1

    def probe(self):
        return self.cmd("UID FETCH 1:* (FLAGS)")

    def step(self, kind, meta, idxs):
        self.steps.append((kind, meta, idxs))


def add_set_probes(sc, rng, n_guess, kinds, asts):
    """one probe P, then the listed set probes (non-destructive for membership)"""
    p = sc.probe()
    for kind, ast, raw in asts:
        s = print_ast(ast) if ast is not None else raw
        if kind == "fetch":
            sc.step("fetch", {"s": s, "ast": ast}, [p, sc.cmd("FETCH %s (UID)" % s)])
        elif kind == "search":
            sc.step("search", {"s": s, "ast": ast}, [p, sc.cmd("SEARCH %s" % s)])
        elif kind == "uidsearch":
            sc.step("uidsearch", {"s": s, "ast": ast}, [p, sc.cmd("UID SEARCH UID %s" % s)])
        elif kind == "searchuid":
            sc.step("searchuid", {"s": s, "ast": ast}, [p, sc.cmd("SEARCH UID %s" % s)])
        elif kind == "uidfetch":
            sc.step("uidfetch", {"s": s, "ast": ast}, [p, sc.cmd("UID FETCH %s (UID)" % s)])
        elif kind == "store":
            sc.step("store", {"s": s, "ast": ast}, [p, sc.cmd("STORE %s +FLAGS (\\Seen)" % s)])
        elif kind == "uidstore":
            sc.step("uidstore", {"s": s, "ast": ast}, [p, sc.cmd("UID STORE %s +FLAGS (\\Seen)" % s)])
        elif kind == "copy":
            word = rng.choice(["COPY", "copy", "Copy"])
            a = sc.cmd("STATUS Sent (MESSAGES)")
            b = sc.cmd("%s %s Sent" % (word, s))
            c = sc.cmd("STATUS Sent (MESSAGES)")
            sc.step("copy", {"s": s, "ast": ast, "word": word, "tag": sc.ops[b]["_tag"]}, [p, a, b, c])
        elif kind == "uidcopy":
            a = sc.cmd("STATUS Sent (MESSAGES)")
            b = sc.cmd("UID COPY %s Sent" % s)
            c = sc.cmd("STATUS Sent (MESSAGES)")
            sc.step("uidcopy", {"s": s, "ast": ast}, [p, a, b, c])


SET_KINDS = ["fetch", "search", "searchuid", "uidsearch", "uidfetch", "store", "uidstore", "copy", "uidcopy"]


def build_history_scenario(rng, name, nprobes):
    sc = Scenario(name)
    k = rng.choice([0, 1, 2, 3, 4, 5, 6, 8])
    flagsets = ["", "", "\\Seen", "\\Deleted", "\\Seen \\Deleted", "\\Flagged", "\\deleted"]
    for _ in range(k):
        sc.append(rng.choice(flagsets))
    sc.cmd("SELECT INBOX")
    n = k
    for _ in range(rng.randint(2, 6)):
        r = rng.random()
        if r < 0.25 and n > 0:
            sc.cmd("STORE %d +FLAGS (%s)" % (rng.randint(1, n), rng.choice(["\\Deleted", "\\Deleted", "\\Seen", "\\DELETED"])))
        elif r < 0.45:
            p = sc.probe()
            e = sc.cmd("EXPUNGE")
            q = sc.probe()
            sc.step("expunge", {}, [p, e, q])
            n = max(0, n - 1)
        elif r < 0.62:
            ast = gen_ast(rng, n + 2)
            p = sc.probe()
            e = sc.cmd("UID EXPUNGE %s" % print_ast(ast))
            q = sc.probe()
            sc.step("uidexpunge", {"s": print_ast(ast), "ast": ast}, [p, e, q])
        elif r < 0.80:
            sc.append(rng.choice(flagsets))
            n += 1
        elif r < 0.90 and n > 0:
            sc.cmd("UID COPY %d:* INBOX" % rng.randint(1, n + 3))   # copy-in: non-contiguous uids later
            n += 1
        else:
            p = sc.probe()
            sc.cmd("CLOSE")
            sc.cmd("SELECT INBOX")
            q = sc.probe()
            sc.step("close", {}, [p, q])
    # listings
    p = sc.probe()
    a = sc.cmd("SELECT INBOX")
    b = sc.cmd("STATUS INBOX (MESSAGES)")
    c = sc.cmd("SEARCH ALL")
    d = sc.cmd("FETCH 1:* (UID)")
    sc.step("views", {}, [p, a, b, c, d])
    asts = []
    for _ in range(nprobes):
        kind = rng.choice(SET_KINDS)
        if rng.random() < 0.85:
            asts.append((kind, gen_ast(rng, n + 1), None))
        else:
            raw = gen_malformed(rng).replace(" ", "").replace("\t", "")
            if raw and kind not in ("copy", "uidcopy"):
                asts.append((kind, None, raw))
    add_set_probes(sc, rng, n, SET_KINDS, asts)
    return sc


def build_noop_scenario(rng, name, k, dels):
    """c2 watches INBOX; c1 flags+expunges the messages [dels]; c2 NOOP"""
    sc = Scenario(name)
    for _ in range(k):
        sc.append("")
    sc.cmd("SELECT INBOX")
    sc.ops.append({"op": "open", "conn": "d"})
    sc.ops.append(send("d", "b0", "LOGIN u@example.com pw"))
    sc.ops.append(send("d", "b1", "SELECT INBOX"))
    sc.ops.append(send("d", "b2", "UID FETCH 1:* (FLAGS)"))
    old = len(sc.ops) - 1
    for i in dels:
        sc.cmd("STORE %d +FLAGS (\\Deleted)" % i)
    sc.cmd("EXPUNGE")
    sc.ops.append(send("d", "b3", "NOOP"))
    noop = len(sc.ops) - 1
    sc.ops.append(send("d", "b4", "UID FETCH 1:* (FLAGS)"))
    new = len(sc.ops) - 1
    sc.step("noop", {"k": k, "dels": dels}, [old, noop, new])
    return sc


def build_junk_scenario(rng, name, k, ast, uid=False, spam=False):
    """STORE / UID STORE <set> +FLAGS (Junk) in INBOX, or (NonJunk) in Spam: every addressed message is
    auto-moved and announced with an untagged EXPUNGE; the client applies the notices in order"""
    sc = Scenario(name)
    box = "Spam" if spam else "INBOX"
    for _ in range(k):
        sc.append("", box)
    sc.cmd("SELECT %s" % box)
    p = sc.probe()
    e = sc.cmd("%sSTORE %s +FLAGS (%s)" % ("UID " if uid else "", print_ast(ast), "NonJunk" if spam else "Junk"))
    q = sc.probe()
    a = sc.cmd("FETCH 1:* (UID)")
    b = sc.cmd("UID SEARCH ALL")
    sc.step("uidjunk" if uid else "junk", {"s": print_ast(ast), "ast": ast, "box": box}, [p, e, q, a, b])
    return sc


# non-ascending and overlapping comma lists (seeded change C09-5: notice = seq - moved)
JUNK_SETS = [[("one", 3), ("one", 1)], [("one", 4), ("one", 2), ("one", 3)], [("one", "*"), ("one", 1)],
             [("one", 2), ("one", 2)], [("range", 3, 2), ("one", 1)], [("one", 1), ("range", 3, 2)],
             [("range", 2, 4), ("one", 1), ("one", 5)], [("one", 5), ("range", 4, 1)]]


def build_probe_scenario(rng, name, k, probes, flags=None):
    sc = Scenario(name)
    for i in range(k):
        sc.append(flags[i] if flags else "")
    sc.cmd("SELECT INBOX")
    if flags:
        p = sc.probe()
        e = sc.cmd("EXPUNGE")
        q = sc.probe()
        sc.step("expunge", {}, [p, e, q])
    add_set_probes(sc, rng, k, SET_KINDS, probes)
    return sc


SESSION_CLASSES = [None, None, None, "expunge_unannounced"]


def build_session_scenario(rng, name, script=None, risky=False, k=None):
    """Observer c and actor d on the same INBOX.  The observer's commands that can produce
    EXISTS/EXPUNGE are recorded as steps (probe, command, probe); the actor (another
    session) and the observer's own APPENDs change the mailbox in between."""
    sc = Scenario(name)
    k = rng.choice([0, 1, 2, 3, 4]) if k is None else k
    for _ in range(k):
        sc.append("")
    sc.ops.append({"op": "open", "conn": "d"})
    sc.ops.append(send("d", "b0", "LOGIN u@example.com pw"))
    sc.ops.append(send("d", "b1", "SELECT INBOX"))
    sel = sc.cmd("SELECT INBOX")
    q = sc.probe()
    steps = [("select", None, q, sel, q)]
    nb = [2]

    def actor(cmd):
        nb[0] += 1
        sc.ops.append(send("d", "b%d" % nb[0], cmd))

    def actor_append(flags=""):
        nb[0] += 1
        sc.ops += append_ops("d", "b%d" % nb[0], flags)

    def obs(kind, cmd, arg=None):
        p = sc.probe()
        e = sc.cmd(cmd)
        q = sc.probe()
        steps.append((kind, arg, p, e, q))

    if script is None:
        script = []
        for _ in range(rng.randint(5, 11)):
            r = rng.random()
            if r < 0.22:
                script.append(("xadd", "\\Deleted" if (risky and rng.random() < 0.3) else ""))
            elif r < 0.34:
                script.append(("xdel", rng.choice(["1", "*", "2"])))
            elif r < 0.42:
                script.append(("append", ""))
            elif r < 0.58:
                script.append(("noop",))
            elif r < 0.74:
                script.append(("flag", rng.choice(["1", "2", "*"]) if risky else "1"))
                if rng.random() < 0.6:      # an addition the observer has not been told about yet
                    script.append(rng.choice([("xadd", ""), ("append", "")]))
                script.append(("expunge",) if rng.random() < 0.6 else ("uidexpunge", rng.choice(["1:*", "1", print_ast(gen_ast(rng, 6))])))
            elif r < 0.84:
                script.append(("uidexpunge", print_ast(gen_ast(rng, 6))))
            elif risky and r < 0.92:
                script.append(("check",))
            elif risky:
                script.append(("junk", rng.choice(["1", "1:2", "*"])))
            else:
                script.append(("noop",))
        script.append(("noop",))
    for it in script:
        if it[0] == "xadd":
            actor_append(it[1])
        elif it[0] == "xdel":
            actor("STORE %s +FLAGS (\\Deleted)" % it[1])
            actor("EXPUNGE")
        elif it[0] == "append":
            sc.append("")
        elif it[0] == "noop":
            obs("noop", "NOOP")
        elif it[0] == "check":
            obs("check", "CHECK")
        elif it[0] == "flag":
            if not risky:
                obs("noop", "NOOP")      # everything is announced before the observer addresses a message
            sc.cmd("STORE %s +FLAGS (\\Deleted)" % it[1])
        elif it[0] == "expunge":
            obs("expunge", "EXPUNGE")
        elif it[0] == "uidexpunge":
            obs("uidexpunge", "UID EXPUNGE %s" % it[1], it[1])
        elif it[0] == "junk":
            obs("junk", "STORE %s +FLAGS (Junk)" % it[1], it[1])
    sc.step("session", {"steps": steps, "script": script, "risky": risky}, sorted(set(i for s in steps for i in s[2:])))
    return sc


def coq_session(meta, P):
    out = []
    for (kind, arg, p, e, q) in meta["steps"]:
        cmd = {"select": "CSelect", "noop": "CNoop", "check": "CCheck", "expunge": "CExpunge"}.get(kind)
        if kind == "uidexpunge":
            cmd = "(CUidExpunge %s)" % cstr(arg)
        elif kind == "junk":
            cmd = "(CJunk %s)" % cstr(arg)
        notes = "[" + "; ".join(("NExists %d" if a == "E" else "NExpunge %d") % n for (a, n) in P[e].get("notes", [])) + "]"
        out.append("{| o_cmd := %s; o_pre := %s; o_notes := %s; o_post := %s |}" % (
            cmd, coq_pre(state_of(P[p])), notes, zl([u for (_, u, _) in state_of(P[q])])))
    return "(case_session [%s])" % ";\n  ".join(out)


def corpus_scenarios(rng):
    out = []
    for f in sorted(glob.glob(os.path.join(C.VERIF, "corpus", "C09", "*.json"))):
        d = json.load(open(f))
        w = d["witness"]
        name = "corpus:" + os.path.basename(f)
        if w["kind"] == "session":
            out.append(build_session_scenario(rng, name, script=[tuple(x) for x in w["script"]], risky=True, k=w["k"]))
        elif w["kind"] == "noop":
            out.append(build_noop_scenario(rng, name, w["k"], w["dels"]))
        elif w["kind"] == "junk":
            out.append(build_junk_scenario(rng, name, w["k"], [tuple(x) for x in w["ast"]], uid=w.get("uid", False), spam=w.get("spam", False)))
        elif w["kind"] == "expunge_flags":
            out.append(build_probe_scenario(rng, name, len(w["flags"]), [], flags=w["flags"]))
        else:
            out.append(build_probe_scenario(rng, name, w["k"], [(w["kind"], [tuple(x) for x in w["ast"]], None)]))
    return out


# ---------------------------------------------------------------- evaluation
def state_of(r):
    """(label, uid, flags) list of a UID FETCH 1:* (FLAGS) reply"""
    return [(a, b, c or "") for (a, b, c) in r["fetch"]]


def coq_pre(st):
    return "[" + "; ".join("(%d, %s)" % (u, cstr(f)) for (_, u, f) in st) + "]"


def case_of_step(kind, meta, R):
    """-> Coq term of type Z, or None when the transcript is unusable"""
    ast = coq_ast(meta.get("ast"))
    if kind == "views":
        p, a, b, c, d = R
        if a["exists"] is None or b["messages"] is None or c["search"] is None:
            return None
        return "(case_views %s %d %d %s %s)" % (zpairs([(x, y) for (x, y, _) in state_of(p)]), a["exists"], b["messages"], zl(c["search"]),
                                                 zpairs([(x, y) for (x, y, _) in d["fetch"]]))
    st = state_of(R[0])
    uids = [u for (_, u, _) in st]
    n = len(uids)
    s = cstr(meta["s"]) if "s" in meta else None
    if kind == "fetch":
        r = R[1]
        got = "None" if r["status"] != "OK" else "(Some %s)" % zpairs([(x, y) for (x, y, _) in r["fetch"]])
        return "(case_fetch %s %s %s %s)" % (s, zl(uids), got, ast)
    if kind == "search":
        r = R[1]
        if r["status"] != "OK" or r["search"] is None:
            return "(case_search %s %d [-1] %s)" % (s, n, ast)
        return "(case_search %s %d %s %s)" % (s, n, zl(r["search"]), ast)
    if kind == "searchuid":
        r = R[1]
        if r["status"] != "OK" or r["search"] is None:
            return "(case_searchuid %s %s [-1] %s)" % (s, zl(uids), ast)
        return "(case_searchuid %s %s %s %s)" % (s, zl(uids), zl(r["search"]), ast)
    if kind == "uidsearch":
        r = R[1]
        if r["status"] != "OK" or r["search"] is None:
            return "(case_uidsearch %s %s [-1] %s)" % (s, zl(uids), ast)
        return "(case_uidsearch %s %s %s %s)" % (s, zl(uids), zl(r["search"]), ast)
    if kind == "uidfetch":
        r = R[1]
        if r["status"] != "OK":
            return "(case_uidfetch %s %s [(-1,-1)] %s)" % (s, zl(uids), ast)
        return "(case_uidfetch %s %s %s %s)" % (s, zl(uids), zpairs([(x, y) for (x, y, _) in r["fetch"]]), ast)
    if kind == "store":
        r = R[1]
        got = "None" if r["status"] != "OK" else "(Some %s)" % zl([x for (x, _, _) in r["fetch"]])
        return "(case_store %s %d %s %s)" % (s, n, got, ast)
    if kind == "uidstore":
        r = R[1]
        if r["status"] != "OK":
            return "(case_uidstore %s %s [-1] %s)" % (s, zl(uids), ast)
        return "(case_uidstore %s %s %s %s)" % (s, zl(uids), zl([y for (_, y, _) in r["fetch"]]), ast)
    if kind == "copy":
        a, b, c = R[1], R[2], R[3]
        got = "None" if b["status"] != "OK" else "(Some %d)" % ((c["messages"] or 0) - (a["messages"] or 0))
        parts = "[%s; %s; %s; %s]" % (cstr(meta["tag"]), cstr(meta["word"]), s, cstr("Sent"))
        return "(case_copy %s %d %s %s)" % (parts, n, got, ast)
    if kind == "uidcopy":
        a, b, c = R[1], R[2], R[3]
        got = -1 if b["status"] != "OK" else (c["messages"] or 0) - (a["messages"] or 0)
        return "(case_uidcopy %s %s %d %s)" % (s, zl(uids), got, ast)
    if kind == "expunge":
        e, q = R[1], R[2]
        return "(case_expunge %s %s %s)" % (coq_pre(st), zl(e["expunge"]), zl([u for (_, u, _) in state_of(q)]))
    if kind == "uidexpunge":
        e, q = R[1], R[2]
        return "(case_uidexpunge %s %s %s %s %s)" % (s, coq_pre(st), zl(e["expunge"]), zl([u for (_, u, _) in state_of(q)]), ast)
    if kind == "close":
        q = R[1]
        return "(case_close %s %s)" % (coq_pre(st), zl([u for (_, u, _) in state_of(q)]))
    if kind == "noop":
        e, q = R[1], R[2]
        return "(case_noop %s %s %s)" % (zl(uids), zl([u for (_, u, _) in state_of(q)]), zl(e["expunge"]))
    if kind in ("junk", "uidjunk"):
        e, q = R[1], R[2]
        post = [u for (_, u, _) in state_of(q)]
        if len(R) > 3:     # the listings after the command must describe the same mailbox as the probe
            if [y for (_, y, _) in R[3]["fetch"]] != post or [x for (x, _, _) in R[3]["fetch"]] != list(range(1, len(post) + 1)) or (R[4]["search"] or []) != post:
                return "(case_views [(1, 1)] 0 0 [] [])"     # inconsistent listings: reported through the views spec
        return "(case_%s %s %s %s %s %s)" % (kind, s, coq_pre(st), zl(e["expunge"]), zl(post), ast)
    return None


def nontrivial(kind, meta):
    ast = meta.get("ast")
    if kind in ("views", "expunge", "close", "noop", "uidexpunge", "junk", "uidjunk", "session"):
        return True
    return ast is not None and (len(ast) > 1 or ast[0][0] == "range" or ast[0][1] == "*")


def run(chk):
    rng = chk.rng
    quick = chk.tier == "quick"
    cases = []      # (coq_term, suite, kind, payload)

    # ---------------- suite seqset: direct calls
    nbox = 24 if quick else 80
    per = 90 if quick else 160
    boxes = []
    for b in range(nbox):
        k = rng.choice([0, 1, 2, 3, 5, 8, 13])
        uids = sorted(rng.sample(range(1, 40), k))
        cs = []
        for _ in range(per):
            kind = rng.choice(["seq", "uid"])
            if rng.random() < 0.7:
                ast = gen_ast(rng, (k if kind == "seq" else (uids[-1] if uids else 3)) + 1)
                cs.append((kind, print_ast(ast), ast))
            else:
                cs.append((kind, gen_malformed(rng), None))
        boxes.append((uids, cs))
    match_cases = []
    for _ in range(400 if quick else 3000):
        tok = print_ast(gen_ast(rng, 9, single=(rng.random() < 0.4))) if rng.random() < 0.7 else gen_malformed(rng)
        match_cases.append((tok.upper(), rng.randint(0, 12), rng.randint(0, 12)))
    ops = [{"op": "c09_sets", "boxes": [{"uids": u, "cases": [[k, C.latin(s.encode("latin-1"))] for (k, s, _) in cs]} for (u, cs) in boxes]},
           {"op": "batch", "fn": "isSequenceSet", "cases": [{"a": [C.latin(t.encode("latin-1"))]} for (t, _, _) in match_cases]},
           {"op": "batch", "fn": "matchesSequenceSet", "cases": [{"a": [C.latin(t.encode("latin-1"))], "n": [i, g]} for (t, i, g) in match_cases]}]
    res = C.run_ops(ops, timeout=600)
    if res.get("crashed") or "rs" not in res["obs"][0]:
        chk.broken_obligation("driver failed on the C09 direct-call suite: %s" % str(res)[:600])
        return
    for (uids, cs), rs in zip(boxes, res["obs"][0]["rs"]):
        for (kind, s, ast), r in zip(cs, rs):
            if isinstance(r, dict):
                chk.violation("%s set parser panicked on %r: %s" % (kind, s, r.get("panic")), {"suite": "seqset", "kind": kind, "set": s, "uids": uids})
                continue
            if kind == "seq":
                term = "(case_seq %s %d %s %s)" % (cstr(s), len(uids), zl(r), coq_ast(ast))
            else:
                term = "(case_uid %s %s %s %s)" % (cstr(s), zl(uids), zl(r), coq_ast(ast))
            cases.append((term, "seqset", kind, {"set": s, "uids": uids, "impl": r, "ast": ast}))
    for (tok, i, g), a, b in zip(match_cases, res["obs"][1]["rs"], res["obs"][2]["rs"]):
        if isinstance(a, dict) or isinstance(b, dict):
            chk.violation("SEARCH set matcher panicked on %r" % tok, {"suite": "seqset", "kind": "match", "tok": tok, "i": i})
            continue
        if any(ord(ch) > 127 for ch in tok):
            continue   # ToUpper domain edge (non-ASCII), outside the modelled domain
        cases.append(("(case_match %s %d %d %s %s)" % (cstr(tok), i, g, C.coq_bool(a), C.coq_bool(b)), "seqset", "match", {"tok": tok, "i": i, "largest": g, "impl": [a, b]}))

    # ---------------- suite numbering: sessions
    scs = corpus_scenarios(rng)
    ncorpus = len(scs)
    nh = 36 if quick else 240
    for j in range(nh):
        scs.append(build_history_scenario(rng, "hist%d" % j, 14 if quick else 22))
    for j in range(4 if quick else 16):
        k = rng.randint(2, 6)
        scs.append(build_noop_scenario(rng, "noop%d" % j, k, sorted(rng.sample(range(1, k + 1), rng.randint(1, 2)), reverse=True)))
    for j in range(4 if quick else 16):
        k = rng.randint(2, 6)
        scs.append(build_junk_scenario(rng, "junk%d" % j, k, gen_ast(rng, k), uid=rng.random() < 0.5, spam=rng.random() < 0.5))
    for j, ast in enumerate(JUNK_SETS):
        for uid in (False, True):
            for spam in (False, True):
                scs.append(build_junk_scenario(rng, "junklist%d%s%s" % (j, "u" if uid else "s", "S" if spam else "I"), 5, ast, uid=uid, spam=spam))
    for j in range(0 if quick else 40):
        k = rng.randint(3, 7)
        ast = [("one", x) for x in rng.sample(range(1, k + 1), rng.randint(2, min(4, k)))] + ([("one", "*")] if rng.random() < 0.3 else [])
        rng.shuffle(ast)
        scs.append(build_junk_scenario(rng, "junkperm%d" % j, k, ast, uid=rng.random() < 0.5, spam=rng.random() < 0.5))
    for j in range(14 if quick else 90):
        scs.append(build_session_scenario(rng, "sess%d" % j, risky=False))
    for j in range(5 if quick else 30):
        scs.append(build_session_scenario(rng, "sessR%d" % j, risky=True))
    results = C.run_many([[{kk: v for kk, v in o.items() if not kk.startswith("_")} for o in sc.ops] for sc in scs], workers=12)
    traces = 0
    for sc, res in zip(scs, results):
        if res.get("crashed"):
            chk.violation("the server process died or the driver failed in scenario %s: %s" % (sc.name, res.get("stderr", "")[:300]),
                          {"suite": "numbering", "scenario": sc.name, "ops": [o for o in sc.ops if o["op"] == "send"][:80]})
            continue
        obs = res["obs"]
        P = {}
        for i, (o, ob) in enumerate(zip(sc.ops, obs)):
            if o["op"] == "send" and "_tag" in o:
                P[i] = parse(C.unlatin(ob.get("recv", "")).decode("latin-1"), o["_tag"])
                P[i]["how"] = ob.get("how")
        traces += 1
        for kind, meta, idxs in sc.steps:
            R = [P[i] for i in idxs]
            if any(r["status"] is None for r in R):
                chk.violation("no tagged reply (timeout/EOF) in scenario %s during %s %r" % (sc.name, kind, meta),
                              {"suite": "numbering", "scenario": sc.name, "kind": kind, "meta": meta})
                continue
            term = coq_session(meta, P) if kind == "session" else case_of_step(kind, meta, R)
            if term is None:
                chk.broken_obligation("could not read the transcript of step %s in %s" % (kind, sc.name), {"meta": meta})
                continue
            cases.append((term, "numbering", kind, {"scenario": sc.name, "meta": meta,
                                                     "transcript": [sc.ops[i].get("_cmd") for i in idxs],
                                                     "state": state_of(R[0]) if kind != "views" else None,
                                                     "commands": [o.get("_cmd") for o in sc.ops if o["op"] == "send" and o.get("_cmd")][:120]}))

    # ---------------- evaluation inside Coq
    codes = []
    CH = 1500
    for c0 in range(0, len(cases), CH):
        chunk = cases[c0:c0 + CH]
        body = C.COQ_CASE_HEADER + "From Raven Require Import Base.GoStrZ Model.SeqSet Model.Expunge Model.Session Spec.SeqSet Spec.SeqSetFindings Spec.SessionView Spec.C09Cases.\nLocal Open Scope Z_scope.\n"
        body += "Definition results : list Z := Eval vm_compute in [\n%s].\nPrint results.\n" % ";\n".join(t for (t, _, _, _) in chunk)
        rc, log = C.coq_eval_cases("C09", body, timeout=300)
        txt = C.parse_coq_list_out(log, "results") if rc == 0 else None
        if txt is None:
            chk.broken_obligation("in-Coq evaluation of the C09 cases failed:\n" + log[-2500:])
            return
        vals = [int(x) for x in re.findall(r"-?\d+", txt.replace("%Z", ""))]
        if len(vals) != len(chunk):
            chk.broken_obligation("in-Coq evaluation returned %d codes for %d cases" % (len(vals), len(chunk)))
            return
        codes += vals

    nd = 0
    seen_kinds = {}
    unclassified_spec_fail = set()
    reported = {}
    mismatches = []
    for (term, suite, kind, payload), code in zip(cases, codes):
        if kind == "session":
            # bit0 model, bit1 count level, bit2 list level, bits3-4 bookkeeping class, bit5 generic NOOP expunge went wrong
            model_ok, print_ok = bool(code & 1), True
            count_ok, list_ok = bool(code & 2), bool(code & 4)
            spec_ok = count_ok and list_ok
            cls = SESSION_CLASSES[(code >> 3) & 3] if not count_ok else ("noop_notices" if (code & 32) else None)
            if spec_ok:
                cls = SESSION_CLASSES[(code >> 3) & 3] or ("noop_notices" if (code & 32) else None)
        else:
            model_ok, spec_ok, print_ok, cls = bool(code & 1), bool(code & 2), bool(code & 4), CLASSES[code >> 3]
        seen_kinds[kind] = seen_kinds.get(kind, 0) + 1
        pl = dict(payload, suite=suite, kind=kind, coq_case=term)
        if not print_ok:
            chk.broken_obligation("the harness printed a set differently from Spec.SeqSet.print", pl)
            continue
        if not spec_ok:
            nd += 1
            what = "%s/%s: the implementation's answer violates the C09 specification" % (suite, kind)
            if kind in ("fetch", "search", "searchuid", "uidsearch", "copy", "store", "uidstore", "uidfetch", "uidexpunge", "junk", "uidjunk"):
                what += " for set %r on a mailbox %s" % (payload.get("meta", payload).get("s", payload.get("set")), [u for (_, u, _) in (payload.get("state") or [])] or payload.get("uids"))
            elif kind == "noop":
                what += ": NOOP notices after another session expunged %r of %d" % (payload["meta"]["dels"], payload["meta"]["k"])
            elif kind in ("expunge", "close"):
                what += ": %s on %r" % (kind.upper(), payload.get("state"))
            elif kind == "session":
                what += (": the observing client's %s after applying the untagged EXISTS/EXPUNGE responses differs from the server's at a NOOP boundary; script %r"
                         % ("message count" if not (code & 2) else "message list", payload["meta"]["script"]))
            elif kind in ("seq", "uid"):
                what += ": %s parser returned %r for set %r on a mailbox with UIDs %r" % (
                    "ParseSequenceSetWithDB" if kind == "seq" else "ParseUIDSequenceSetWithDB", payload["impl"], payload["set"], payload["uids"])
            if cls is None or cls not in chk.findings:
                reported[kind] = reported.get(kind, 0) + 1
                if reported[kind] > 4:
                    unclassified_spec_fail.add(kind)
                    continue
            chk.violation(what, pl, cls=cls)
            if cls is None or cls not in chk.findings:
                unclassified_spec_fail.add(kind)
            continue
        if not model_ok:
            nd += 1
            mismatches.append((suite, kind, cls, pl))
    for suite, kind, cls, pl in mismatches[:20]:
        if cls is not None and cls in chk.findings:
            chk.notes.append("model/implementation mismatch inside finding class %s (informational): %s" % (cls, pl.get("coq_case", "")[:160]))
            continue
        if kind in unclassified_spec_fail:
            continue   # a spec-violating input of the same kind is already reported in this run
        chk.broken_obligation("correspondence %s/%s no longer checks: the implementation differs from the model on an input where the specification still holds; "
                              "no specification-violating input of this kind among the %d cases of this run" % (suite, kind, seen_kinds.get(kind, 0)), pl)

    chk.cov["evaluations"] = len(cases)
    chk.cov["by_kind"] = seen_kinds
    chk.cov["distinct_nontrivial"] = len(set(t for (t, s, k, p) in cases if (s == "seqset" and p.get("ast") and nontrivial(k, p)) or (s == "numbering" and nontrivial(k, p.get("meta", {})))))
    chk.cov["rule"] = ("distinct Coq case terms; non-trivial = set with a range, '*' or a comma list (direct and session probes), or an EXPUNGE/UID EXPUNGE/CLOSE/NOOP/Junk/listing step of a session; "
                       "structured stream: well-formed ASTs over and beyond the mailbox range incl. 2^32-1; malformed stream: token soups (30% direct, 15% session probes)")
    chk.cov["traces_validated_against_impl"] = traces
    chk.cov["scenarios"] = len(scs)
    chk.cov["corpus_scenarios"] = ncorpus
    chk.cov["disagreements_checked"] = nd
    for (term, suite, kind, payload) in cases[:2] + [c for c in cases if c[2] in ("expunge", "fetch", "noop", "views")][:4]:
        chk.sample({"suite": suite, "kind": kind, "coq_case": term[:300]})


def replay(path):
    d = json.load(open(path))
    print(json.dumps({k: d.get(k) for k in ("what", "class", "suite", "kind", "coq_case", "meta", "state", "set", "uids", "impl")}, indent=1, default=str))
    if d.get("commands"):
        ops = [{"op": "open", "conn": "c"}]
        print("re-running the scenario's command list on connection c (APPENDs are replayed with the fixed test message):")
        k = 0
        for cmd in d["commands"]:
            k += 1
            if cmd == "APPEND":
                ops += [{kk: v for kk, v in o.items() if not kk.startswith("_")} for o in append_ops("c", "r%d" % k)]
            else:
                ops.append({kk: v for kk, v in send("c", "r%d" % k, cmd).items() if not kk.startswith("_")})
        res = C.run_ops(ops)
        for o, ob in zip(ops, res.get("obs", [])):
            if o["op"] == "send":
                print(">>", o["data"].strip()[:100])
                print(ob.get("recv", ""))
    return 0
