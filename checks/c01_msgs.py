"""C01 — generator of submitted messages whose library-level outcome (the
record `parsed` of Model/Deliver.v) is known by construction.  Every template
here was validated against the implementation (reply class, header rows, part
rows); the check re-validates them on every run through the model comparison.

A generated message is a dict:
  raw     : bytes-as-str (CRLF lines; the CLIENT dot-stuffs lines that start with a dot)
  p_ok, spam : bool;  hdrs : int (header rows);  shape : "single"|("multi",n)|"nob"|"broken"
  big     : number of part rows stored out of line (a file name, or more than 1024 octets)
  tokens  : substrings that a faithful FETCH BODY[] must contain
  kind    : template name (coverage)
"""
import base64


def _hdr_block(hs):
    return "".join("%s: %s\r\n" % h for h in hs)


def _pad(rng, n):
    words = ["lorem", "ipsum", "dolor", "sit", "amet", "raven", "mail", "x" * 17]
    out = []
    ln = 0
    while ln < n:
        w = rng.choice(words)
        out.append(w)
        ln += len(w) + 1
    txt = " ".join(out)
    # wrap at 70 columns, never starting a line with a dot
    lines = [txt[i:i + 70] for i in range(0, len(txt), 70)]
    return "\r\n".join(lines)


def _leaf(rng, tag, j, big):
    """-> (headers list, body text, tokens, stored out of line?) of one leaf part"""
    tok = "LEAF%s%d" % (tag, j)
    r = rng.random()
    body = "hello " + tok
    if big:
        body += "\r\n" + _pad(rng, rng.choice([1100, 1500, 3000]))
    if r < 0.45:
        return [("Content-Type", rng.choice(["text/plain", "text/plain; charset=utf-8", "text/html"]))], body + "\r\n", [tok], big
    if r < 0.6:
        return [], body + "\r\n", [tok], big                 # no Content-Type at all
    if r < 0.75:
        b = base64.b64encode(("payload " + tok + (" " + _pad(rng, 1200) if big else "")).encode()).decode()
        lines = [b[i:i + 76] for i in range(0, len(b), 76)]
        return [("Content-Type", "application/octet-stream"), ("Content-Transfer-Encoding", "base64"),
                ("Content-Disposition", 'attachment; filename="f%s%d.bin"' % (tag, j))], "\r\n".join(lines) + "\r\n", [lines[0]], True
    if r < 0.9:
        return [("Content-Type", "text/plain; charset=iso-8859-1"), ("Content-Transfer-Encoding", "quoted-printable")], \
            "caf=E9 " + tok + "=\r\n continued\r\n", [tok], False
    return [("Content-Type", "image/png"), ("Content-ID", "<c%s%d@x>" % (tag, j)), ("Content-Transfer-Encoding", "7bit")], body + "\r\n", [tok], big


def _multipart(rng, tag, depth, counter, big):
    """-> (body text of a multipart entity with boundary b, boundary, rows below this container, tokens, out-of-line rows)"""
    counter[0] += 1
    b = "b%s%dq" % (tag, counter[0])
    n_kids = rng.randint(1, 3)
    rows = 0
    nbig = 0
    toks = []
    out = ""
    if rng.random() < 0.3:
        out += "This is a preamble.\r\n"
    for _ in range(n_kids):
        out += "--%s\r\n" % b
        if depth < 2 and rng.random() < 0.3:
            sub, sb, srows, stoks, sbig = _multipart(rng, tag, depth + 1, counter, big and rng.random() < 0.3)
            nbig += sbig
            out += "Content-Type: multipart/%s; boundary=\"%s\"\r\n\r\n" % (rng.choice(["alternative", "related", "mixed"]), sb) + sub
            rows += 1 + srows
            toks += stoks
        else:
            counter[0] += 1
            hs, body, tk, ool = _leaf(rng, tag, counter[0], big and rng.random() < 0.5)
            out += _hdr_block(hs) + "\r\n" + body
            rows += 1
            nbig += 1 if ool else 0
            toks += tk
    out += "--%s--\r\n" % b
    return out, b, rows, toks, nbig


LONG_KINDS = ["long_body", "long_body", "long_dotend", "long_header", "long_b64", "long_multi"]


def _long_line(rng, prefix, n):
    """a physical line of exactly n octets (without CRLF) starting with prefix, with ".." at
    offsets = 0 and = 1 (mod 4096) of the line wherever they fit"""
    fill = rng.choice("abcdefg")
    line = list(prefix + fill * (n - len(prefix)))
    k = 4096
    while k + 2 < n:
        off = k + rng.choice([0, 1])
        if off >= len(prefix):
            line[off] = "."
            line[off + 1] = "."
        k += 4096
    return "".join(line)


LONG_SIZES = [4095, 4096, 4097, 8191, 8192, 8193, 12288, 12289, 16384 + 5]


KINDS = ["single", "single", "single_big", "single_noct", "single_badct", "multi", "multi", "multi_big", "multi_quoted_b",
         "multi_upper_param", "multi_empty", "nob", "nob_empty_param", "broken_nomatch", "broken_unclosed",
         "nofrom", "norcpt", "badheader", "spam_status", "spam_action", "folded",
         "long_body", "long_dotend", "long_header", "long_b64", "long_multi"]


def gen_message(rng, tag, kind=None):
    kind = kind or rng.choice(KINDS)
    subj = "SUBJ%sz" % tag
    hs = [("From", "Alice <a@example.com>"), ("To", "u@example.com"), ("Subject", subj)]
    if rng.random() < 0.5:
        hs.append(("Date", "Mon, 02 Jan 2006 15:04:05 -0700"))
    if rng.random() < 0.4:
        hs.append(("Message-ID", "<m%s@example.com>" % tag))
    if rng.random() < 0.3:
        hs.insert(0, ("Received", "from mx by lmtp; Mon, 02 Jan 2006 15:04:05 -0700"))
    m = {"kind": kind, "p_ok": True, "spam": False, "tokens": [subj], "big": 0}
    big = False
    if kind in ("single", "single_big", "single_noct", "single_badct", "nofrom", "norcpt", "badheader",
                "spam_status", "spam_action", "folded"):
        tok = "LEAF%s0" % tag
        body = "hello " + tok + "\r\n"
        if kind == "single_big":
            body += _pad(rng, rng.choice([1030, 2000, 5000])) + "\r\n"
        if kind == "single":
            hs.append(("Content-Type", rng.choice(["text/plain", "text/plain; charset=utf-8", "text/html; charset=us-ascii"])))
            if rng.random() < 0.3:
                hs.append(("Content-Transfer-Encoding", rng.choice(["7bit", "8bit"])))
        if kind == "single_badct":
            hs.append(("Content-Type", rng.choice(["multipart/mixed; boundary", "text/plain; =x", "garbage"])))
        if kind == "nofrom":
            hs = [h for h in hs if h[0] != "From"]
            m["p_ok"] = False
        if kind == "norcpt":
            hs = [h for h in hs if h[0] != "To"]
            m["p_ok"] = False
        if kind == "spam_status":
            hs.append(("X-Spam-Status", rng.choice(["Yes, score=9.1", "yes", " YES (probably)"])))
            m["spam"] = True
        if kind == "spam_action":
            hs.append(("X-Rspamd-Action", rng.choice(["reject", "add header", "Rewrite Subject"])))
            m["spam"] = True
        if kind == "folded":
            hs.append(("X-Long", "first part\r\n\tsecond part\r\n third part"))
        raw = _hdr_block(hs)
        if kind == "badheader":
            raw += "this line is not a header\r\n"
            m["p_ok"] = False
        raw += "\r\n" + body
        m.update(raw=raw, hdrs=len(hs), shape="single", big=1 if kind == "single_big" else 0)
        m["tokens"].append(tok)
        return m
    if kind.startswith("long_"):
        # physical lines longer than a 4096-octet reader buffer; the whole line is a token
        n = rng.choice(LONG_SIZES)
        tok = "LEAF%s0" % tag
        if kind == "long_body":
            ll = _long_line(rng, "L" + tag, n)
            body = "hello " + tok + "\r\n" + ll + "\r\n" + "after the long line\r\n"
            m.update(raw=_hdr_block(hs) + "\r\n" + body, hdrs=len(hs), shape="single", big=1)
            m["tokens"] += [tok, ll, "after the long line"]
        elif kind == "long_dotend":
            # a line of 4096*k octets followed by "." as its last octet, then text that reads like an
            # LMTP dialogue (it is message text: the client dot-stuffs the lone "." inside it)
            k = rng.choice([1, 2, 3])
            ll = _long_line(rng, "D" + tag, 4096 * k) + "."
            rest = ("MAIL FROM:<a@example.com>\r\nRCPT TO:<v@example.com>\r\nDATA\r\nFrom: x@example.com\r\nTo: v@example.com\r\n"
                    "Subject: forged%s\r\n\r\nthis is text of the first message\r\n.\r\nQUIT-LIKE %s\r\n" % (tag, tok))
            body = "hello " + tok + "\r\n" + ll + "\r\n" + rest
            m.update(raw=_hdr_block(hs) + "\r\n" + body, hdrs=len(hs), shape="single", big=1)
            m["tokens"] += [tok, ll, "Subject: forged%s" % tag, "QUIT-LIKE " + tok]
        elif kind == "long_header":
            ll = _long_line(rng, "X-Long: v" + tag, n)
            hs.append(("X-Long", ll[len("X-Long: "):]))
            m.update(raw=_hdr_block(hs) + "\r\n" + "hello " + tok + "\r\n", hdrs=len(hs), shape="single", big=0)
            m["tokens"] += [tok, ll]
        elif kind == "long_b64":
            raw_bytes = ("payload " + tok + " ").encode() + bytes(rng.randrange(256) for _ in range(3 * (n // 4)))
            b = base64.b64encode(raw_bytes).decode()[:n - (n % 4)]
            hs.append(("Content-Type", "application/octet-stream"))
            hs.append(("Content-Transfer-Encoding", "base64"))
            m.update(raw=_hdr_block(hs) + "\r\n" + b + "\r\n", hdrs=len(hs), shape="single", big=1)
            m["tokens"] += [b]
        else:   # long_multi
            ll = _long_line(rng, "M" + tag, n)
            hs.append(("MIME-Version", "1.0"))
            hs.append(("Content-Type", "multipart/mixed; boundary=\"lb%s\"" % tag))
            body = ("--lb%s\r\nContent-Type: text/plain\r\n\r\nhello %s\r\n%s\r\nend of part\r\n--lb%s\r\nContent-Type: text/plain\r\n\r\nsecond\r\n--lb%s--\r\n"
                    % (tag, tok, ll, tag, tag))
            m.update(raw=_hdr_block(hs) + "\r\n" + body, hdrs=len(hs), shape=("multi", 2), big=1)
            m["tokens"] += [tok, ll, "end of part"]
        return m
    hs.append(("MIME-Version", "1.0"))
    sub = rng.choice(["mixed", "alternative", "related", "report"])
    counter = [0]
    if kind in ("multi", "multi_big", "multi_quoted_b", "multi_upper_param"):
        body, b, rows, toks, nbig = _multipart(rng, tag, 0, counter, kind == "multi_big")
        m["big"] = nbig
        if kind == "multi_quoted_b":
            # a boundary that needs quoting
            nb = "=_x %s'y" % tag
            body = body.replace("--" + b + "\r\n", "--" + nb + "\r\n").replace("--" + b + "--\r\n", "--" + nb + "--\r\n")
            b = nb
        ct = "multipart/%s; boundary=\"%s\"" % (sub, b)
        if kind == "multi_upper_param":
            ct = "Multipart/%s; BOUNDARY=\"%s\"; charset=x" % (sub.upper(), b)
        hs.append(("Content-Type", ct))
        m.update(raw=_hdr_block(hs) + "\r\n" + body, hdrs=len(hs), shape=("multi", rows))
        m["tokens"] += toks
        return m
    if kind == "multi_empty":
        # boundary given, the body holds only the closing delimiter: the root container row alone
        hs.append(("Content-Type", "multipart/%s; boundary=bb%s" % (sub, tag)))
        m.update(raw=_hdr_block(hs) + "\r\n--bb%s--\r\n" % tag, hdrs=len(hs), shape=("multi", 0))
        return m
    if kind in ("nob", "nob_empty_param"):
        ct = "multipart/%s" % sub if kind == "nob" else "multipart/%s; boundary=\"\"" % sub
        hs.append(("Content-Type", ct))
        body = "--zz\r\nContent-Type: text/plain\r\n\r\nhello LEAF%s0\r\n--zz--\r\n" % tag
        m.update(raw=_hdr_block(hs) + "\r\n" + body, hdrs=len(hs), shape="nob")
        m["tokens"].append("LEAF%s0" % tag)
        return m
    if kind == "broken_nomatch":
        hs.append(("Content-Type", "multipart/%s; boundary=other%s" % (sub, tag)))
        body = "--zz\r\nContent-Type: text/plain\r\n\r\nhello\r\n--zz--\r\n"
        m.update(raw=_hdr_block(hs) + "\r\n" + body, hdrs=len(hs), shape="broken")
        return m
    if kind == "broken_unclosed":
        hs.append(("Content-Type", "multipart/%s; boundary=uu%s" % (sub, tag)))
        body = "--uu%s\r\nContent-Type: text/plain\r\n\r\nhello, the closing delimiter is missing\r\n" % tag
        m.update(raw=_hdr_block(hs) + "\r\n" + body, hdrs=len(hs), shape="broken")
        return m
    raise ValueError(kind)
