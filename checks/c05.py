"""C05 — a session reaches only its own stores and the mailbox it selected:
translator facts (Gen/Facts.v, access_ok) + observed programs in a world whose
stores share mailbox ids, judged by the Coq oracle Spec/ProtoCheck.v."""
import json
import common as C
import proto_common as P

pregen = P.pregen   # the translator run shared with C06

MINE = {"VForeignStore": "a store outside {shared, own personal store, assigned/selected role store} was changed or its content revealed",
        "VWrongMailboxStore": "a selected-state command changed or revealed a store other than the one the selected mailbox lives in"}


def delivery_probe(chk):
    """a delivery to one recipient changes only that recipient's store (+ shared tables)"""
    base = P.setup_ops()
    cases = [(P.A, "A"), (P.B, "B"), (P.R1, "R1"), (P.R2, "R2"), ("carol@example.com", "NEW"),
             # addresses that are NOT a listed user or role but resemble one under SQL LIKE / case folding / prefixing:
             # each is a recipient of its own and must never reach the look-alike's store
             ("s_les@example.com", "NEW"), ("sale_@example.com", "NEW"), ("%@example.com", "NEW"), ("_____@example.com", "NEW"),
             ("SALES@example.com", "NEW"), ("Board@example.com", "NEW"), ("al_ce@example.com", "NEW"), ("b%@example.com", "NEW"),
             ("sales@example.co_", "NEW"), ("sales@EXAMPLE.com", "NEW"), ("sales+x@example.com", "NEW"), ("xsales@example.com", "NEW")]
    scen = []
    for rcpt, _ in cases:
        ops = list(base) + [{"op": "lmtp_open", "conn": "l2"}, {"op": "send", "conn": "l2", "data": "LHLO x\r\n", "until": "lmtp:1"}]
        ops += P.lmtp_deliver("l2", rcpt, P.msg("MKPROBE", rcpt)) + [{"op": "dump"}]
        scen.append(ops)
    res = C.run_many(scen, workers=8)
    nb = len(base)
    n = 0
    for (rcpt, who), r in zip(cases, res):
        if r.get("crashed"):
            continue
        before, after = r["obs"][nb - 1], r["obs"][-1]
        users, roles, _ = P.world_ids(after)
        changed = [name for name in sorted(set(after["stores"]) | set(before["stores"]))
                   if P.store_digest(after["stores"].get(name)) != P.store_digest(before["stores"].get(name))]
        if who in ("A", "B", "NEW"):
            want = "user_db_%d" % users.get(rcpt, -1)
        else:
            want = "role_db_%d" % roles.get(rcpt, -1)
        extra = [c for c in changed if c not in ("shared", want)]
        n += 1
        reply = ""
        for o in reversed(r["obs"][nb:-1]):
            if "recv" in o:
                reply = o["recv"]
                break
        if not reply.startswith("2"):
            # refused: nothing but the shared tables may change
            if [c for c in changed if c != "shared"]:
                chk.violation("a delivery addressed to %s was refused (%s) but changed stores %s" % (rcpt, reply.strip()[:80], changed),
                              {"suite": "delivery", "rcpt": rcpt, "changed": changed, "reply": reply})
            continue
        if extra or want not in changed:
            chk.violation("a delivery addressed to %s changed stores %s (expected only %s and the shared tables)" % (rcpt, changed, want),
                          {"suite": "delivery", "rcpt": rcpt, "changed": changed, "expected": want})
    return n


def run(chk, searching=False):
    rng = chk.rng
    n = 30 if chk.tier == "quick" else 400
    programs = []
    for i in range(n):
        prog = P.gen_program(rng, rng.randint(5, 12), 0.55, 0.95)
        if rng.random() < 0.3:
            prog.insert(rng.randint(1, len(prog)), ("XUNASSIGN", ""))
        programs.append(("tls", prog))
    sel_cmds = [("FETCH", "1:* (FLAGS BODY.PEEK[])"), ("SEARCH", "ALL"), ("SEARCH", "SUBJECT MKALICE"), ("SEARCH", "HEADER Subject MKSALES"), ("SEARCH", "BODY MKBOB"), ("SEARCH", "TEXT MKBOARD"), ("UID", "SEARCH SUBJECT MKALICE"),
                ("STORE", "1 +FLAGS (\\Deleted)"), ("UID", "STORE 2 +FLAGS (\\Flagged)"), ("COPY", "1 Sent"), ("UID", "COPY 1:* Trash"),
                ("NOOP", ""), ("CHECK", ""), ("IDLE", ""), ("UID", "FETCH 1:* (UID BODY.PEEK[HEADER])"), ("UID", "SEARCH ALL"),
                ("EXPUNGE", ""), ("STORE", "1:* +FLAGS (\\Deleted)"), ("UID", "EXPUNGE 1:*"), ("STORE", "1 +FLAGS (\\Deleted)"), ("CLOSE", "")]
    # the whole selected-state alphabet inside an assigned role mailbox, a foreign one, and after a failed SELECT
    programs.append(("tls", [("LOGIN", None), ("SELECT", "Roles/%s/INBOX" % P.R1)] + sel_cmds))
    programs.append(("tls", [("LOGIN", None), ("SELECT", "Roles/%s/INBOX" % P.R2)] + sel_cmds[:8]))
    # role mailbox, then a SUCCESSFUL personal SELECT/EXAMINE: everything must act on the personal store again
    programs.append(("tls", [("LOGIN", None), ("SELECT", "Roles/%s/INBOX" % P.R1), ("SELECT", "INBOX")] + sel_cmds))
    programs.append(("tls", [("LOGIN", None), ("SELECT", "Roles/%s/Sent" % P.R1), ("EXAMINE", "Trash"), ("SELECT", "INBOX")] + sel_cmds[:10]))
    programs.append(("tls", [("LOGIN", None), ("SELECT", "Roles/%s/INBOX" % P.R1), ("CLOSE", ""), ("SELECT", "INBOX")] + sel_cmds[:10]))
    programs.append(("tls", [("LOGIN", None), ("SELECT", "Roles/%s/INBOX" % P.R1), ("XUNASSIGN", ""), ("SELECT", "Roles/%s/INBOX" % P.R1), ("SELECT", "INBOX")] + sel_cmds[:10]))
    programs.append(("tls", [("LOGIN", None), ("SELECT", "INBOX"), ("SELECT", "Roles/%s/INBOX" % P.R1), ("UNSELECT", ""), ("SELECT", "Sent"), ("SELECT", "INBOX")] + sel_cmds[:8]))
    programs.append(("tls", [("LOGIN", None), ("SELECT", "Roles/%s/INBOX" % P.R1), ("SELECT", "Nope")] + sel_cmds[:8]))
    programs.append(("tls", [("LOGIN", None), ("SELECT", "INBOX"), ("SELECT", "Roles/%s/Nope" % P.R1)] + sel_cmds[:8]))
    programs.append(("tls", [("LOGIN", None), ("SELECT", "Roles/%s/INBOX" % P.R1), ("XUNASSIGN", ""), ("FETCH", "1 (FLAGS)"), ("SELECT", "Roles/%s/INBOX" % P.R1)] + sel_cmds[:6]))
    programs.append(("tls", [("LOGIN", None), ("LIST", '"" "*"'), ("LSUB", '"" "*"'), ("STATUS", "Roles/%s/INBOX (MESSAGES)" % P.R2), ("APPEND", "Roles/%s/INBOX" % P.R2),
                             ("CREATE", "Roles/%s/X" % P.R2), ("DELETE", "Roles/%s/INBOX" % P.R2), ("RENAME", "Roles/%s/INBOX Mine" % P.R2), ("SUBSCRIBE", "Roles/%s/INBOX" % P.R2)]))
    # CLOSE / EXPUNGE / UNSELECT with \Deleted messages waiting in BOTH stores under the same mailbox id: only the selected one may change
    dele = ("STORE", "1 +FLAGS (\\Deleted)")
    for last in (("CLOSE", ""), ("EXPUNGE", ""), ("UNSELECT", ""), ("UID", "EXPUNGE 1:*"), ("SELECT", "Sent"), ("LOGOUT", "")):
        programs.append(("tls", [("LOGIN", None), ("SELECT", "INBOX"), dele, ("SELECT", "Roles/%s/INBOX" % P.R1), dele, last, ("STATUS", "INBOX (MESSAGES)")]))
        programs.append(("tls", [("LOGIN", None), ("SELECT", "Roles/%s/INBOX" % P.R1), dele, ("SELECT", "INBOX"), dele, last, ("STATUS", "Roles/%s/INBOX (MESSAGES)" % P.R1)]))
    sess = P.run_sessions(chk, programs)
    good = [s for s in sess if not s["crashed"]]
    if len(good) < len(sess) // 2:
        chk.broken_obligation("more than half of the isolation scenarios crashed the driver: %s" % (sess[0].get("stderr") if sess else ""))
        return
    verdicts, log = P.evaluate("C05", [(True, s["lines"]) for s in good])
    if verdicts is None:
        chk.broken_obligation("the Coq oracle Spec/ProtoCheck could not be evaluated on the observed sessions:\n" + str(log)[-1500:])
        return
    distinct = set()
    role_lines = 0
    for s in good:
        for o in s["lines"]:
            distinct.add((o["word"], o["ok"], tuple(o["changed"]), tuple(o["revealed"])))
            if any("RoleStore" in x for x in o["changed"] + o["revealed"]):
                role_lines += 1
    nd = 0
    for s, vs in zip(good, verdicts):
        for (i, names) in vs:
            mine = [v for v in names if v in MINE]
            if not mine:
                continue
            nd += 1
            o = s["lines"][i]
            chk.violation("%s: line %d '%s %s' changed %s revealed %s" % ("; ".join(MINE[v] for v in mine), i, o["word"], o["arg"], o["changed"], o["revealed"]),
                          {"suite": "programs", "kind": s["kind"], "program": s["prog"], "line": i, "verdicts": mine, "observation": o})
    nprobe = 0 if searching else delivery_probe(chk)
    chk.cov["evaluations"] = sum(len(s["lines"]) for s in good) + nprobe
    chk.cov["programs"] = len(good)
    chk.cov["distinct_nontrivial"] = len(distinct)
    chk.cov["lines_touching_a_role_store"] = role_lines
    chk.cov["delivery_probes"] = nprobe
    chk.cov["rule"] = ("programs of user alice (assigned to role 1, not to role 2) over the whole command alphabet with personal names and Roles/<address>/<name> paths "
                       "(own, foreign, missing, malformed), administrator un-assignment in mid-session, in a world where alice, bob and both role stores hold marker messages "
                       "under COINCIDING mailbox ids; after every line the full dump delta of all stores and the markers revealed in the response; judged by "
                       "Spec/ProtoCheck.replay_conn. distinct non-trivial = distinct (word, OK?, changed stores, revealed stores)")
    chk.cov["traces_validated_against_impl"] = len(good)
    chk.cov["disagreements_checked"] = nd
    chk.sample({"program": good[-6]["prog"][:8], "lines": [{k: o[k] for k in ("word", "arg", "ok", "changed", "revealed")} for o in good[-6]["lines"][:8]]})

    if chk.tier == "thorough" and not searching:
        import proto_selftest
        proto_selftest.run(chk)


def search(chk):
    run(chk, searching=True)


explain = P.explain


def replay(path):
    d = json.load(open(path))
    if d.get("suite") == "programs":
        sess = P.run_sessions(None, [(d["kind"], [tuple(x) for x in d["program"]])])
        v, _ = P.evaluate("C05", [(True, sess[0]["lines"])])
        print(json.dumps({"verdicts": v, "lines": sess[0]["lines"]}, indent=1)[:6000])
    else:
        print(json.dumps(d, indent=1))
    return 0
