"""C05 — a session reaches only its own stores and the mailbox it selected:
translator facts (Gen/Facts.v, access_ok) + observed programs in a world whose
stores share mailbox ids, judged by the Coq oracle Spec/ProtoCheck.v."""
import json
import re
import common as C
import proto_common as P

pregen = P.pregen   # the translator run shared with C06

MINE = {"VForeignStore": "a store outside {shared, own personal store, assigned/selected role store} was changed or its content revealed",
        "VWrongMailboxStore": "a selected-state command changed or revealed a store other than the one the selected mailbox lives in"}


def delivery_probe(chk):
    """a delivery to one recipient changes only that recipient's store (+ shared tables)"""
    base = P.setup_ops()
    cases = [(P.A, "A"), (P.B, "B"), (P.R1, "R1"), (P.R2, "R2"), ("carol@example.com", "NEW"),
             # addresses that are NOT a listed user or role but resemble one under SQL LIKE / case folding / prefixing:
             # each is a recipient of its own and must never reach the look-alike's store
             ("s_les@example.com", "NEW"), ("sale_@example.com", "NEW"), ("%@example.com", "NEW"), ("_____@example.com", "NEW"),
             ("SALES@example.com", "NEW"), ("Board@example.com", "NEW"), ("al_ce@example.com", "NEW"), ("b%@example.com", "NEW"),
             ("sales@example.co_", "NEW"), ("sales@EXAMPLE.com", "NEW"), ("sales+x@example.com", "NEW"), ("xsales@example.com", "NEW")]
    scen = []
    for rcpt, _ in cases:
        ops = list(base) + [{"op": "lmtp_open", "conn": "l2"}, {"op": "send", "conn": "l2", "data": "LHLO x\r\n", "until": "lmtp:1"}]
        ops += P.lmtp_deliver("l2", rcpt, P.msg("MKPROBE", rcpt)) + [{"op": "dump"}]
        scen.append(ops)
    res = C.run_many(scen, workers=8)
    nb = len(base)
    n = 0
    for (rcpt, who), r in zip(cases, res):
        if r.get("crashed"):
            continue
        before, after = r["obs"][nb - 1], r["obs"][-1]
        users, roles, _ = P.world_ids(after)
        changed = [name for name in sorted(set(after["stores"]) | set(before["stores"]))
                   if P.store_digest(after["stores"].get(name)) != P.store_digest(before["stores"].get(name))]
        if who in ("A", "B", "NEW"):
            want = "user_db_%d" % users.get(rcpt, -1)
        else:
            want = "role_db_%d" % roles.get(rcpt, -1)
        extra = [c for c in changed if c not in ("shared", want)]
        n += 1
        reply = ""
        for o in reversed(r["obs"][nb:-1]):
            if "recv" in o:
                reply = o["recv"]
                break
        if not reply.startswith("2"):
            # refused: nothing but the shared tables may change
            if [c for c in changed if c != "shared"]:
                chk.violation("a delivery addressed to %s was refused (%s) but changed stores %s" % (rcpt, reply.strip()[:80], changed),
                              {"suite": "delivery", "rcpt": rcpt, "changed": changed, "reply": reply})
            continue
        if extra or want not in changed:
            chk.violation("a delivery addressed to %s changed stores %s (expected only %s and the shared tables)" % (rcpt, changed, want),
                          {"suite": "delivery", "rcpt": rcpt, "changed": changed, "expected": want})
    return n


def blob_isolation_probe(chk):
    """deliveries of large bodies (stored out of line in the SHARED blob table, de-duplicated by content) to four
    users in an order that makes a de-duplication hit follow another user's fresh blob: afterwards every user
    fetches the own mailbox and must be served, with the own content only"""
    def big(marker, to):
        filler = "".join("%s line %03d of a body that is stored out of line 0123456789 abcdefghijklmnopqrstuvwxyz\r\n" % (marker, i) for i in range(24))
        return "From: sender@example.com\r\nTo: %s\r\nSubject: big %s\r\nMessage-ID: <%s.%s@x>\r\n\r\n%s" % (to, marker, marker, to.split("@")[0], filler)
    C_, D_ = "carol@example.com", "dave@example.com"
    plan = [(P.A, "MKSHAREDBIG"), (P.B, "MKBOBBIG"), (C_, "MKSHAREDBIG"), (D_, "MKDAVEBIG"), (P.A, "MKBOBBIG2"), (P.B, "MKSHAREDBIG")]
    own = {P.A: ["MKSHAREDBIG", "MKBOBBIG2"], P.B: ["MKBOBBIG", "MKSHAREDBIG"], C_: ["MKSHAREDBIG"], D_: ["MKDAVEBIG"]}
    ops = list(P.setup_ops()) + [{"op": "lmtp_open", "conn": "l3"}, {"op": "send", "conn": "l3", "data": "LHLO x\r\n", "until": "lmtp:1"}]
    for rcpt, mk in plan:
        # the body must be byte-identical for equal markers (same blob): only the header names the recipient
        ops += P.lmtp_deliver("l3", rcpt, big(mk, rcpt).replace("%s line" % mk, "%s line" % mk))
    first = len(ops)
    for k, u in enumerate([P.A, P.B, C_, D_]):
        c = "f%d" % k
        ops += [{"op": "open", "conn": c, "kind": "tls"},
                {"op": "send", "conn": c, "data": "a LOGIN %s pw\r\n" % u, "until": "tag:a", "timeout_ms": 20000},
                {"op": "send", "conn": c, "data": "b SELECT INBOX\r\n", "until": "tag:b", "timeout_ms": 20000},
                {"op": "send", "conn": c, "data": "c FETCH 1:* (BODY.PEEK[])\r\n", "until": "tag:c", "timeout_ms": 20000}]
    r = C.run_ops(ops, timeout=600)
    if r.get("crashed"):
        chk.notes.append("blob isolation probe: driver crashed: %s" % r.get("stderr", "")[:200])
        return 0
    allm = ["MKSHAREDBIG", "MKBOBBIG2", "MKBOBBIG", "MKDAVEBIG"]
    n = 0
    for k, u in enumerate([P.A, P.B, C_, D_]):
        recv = r["obs"][first + 4 * k + 3].get("recv", "")
        n += 1
        okline = re.search(r"^c OK", recv, re.M) is not None
        seen = set()
        for mk in allm:
            # MKBOBBIG is a prefix of MKBOBBIG2: count a marker only where it is followed by " line"
            if re.search(re.escape(mk) + r" line", recv):
                seen.add(mk)
        foreign = sorted(seen - set(own[u]))
        missing = sorted(set(own[u]) - seen)
        if not okline or foreign or missing:
            chk.violation("after deliveries of large bodies to four users, %s fetching the own INBOX %s: content of other users' deliveries shown %s, own content missing %s"
                          % (u, "was answered OK" if okline else "was NOT answered OK (%s)" % recv.strip().splitlines()[-1][:100] if recv.strip() else "got no answer", foreign, missing),
                          {"suite": "blob_isolation", "user": u, "plan": plan, "foreign": foreign, "missing": missing, "answer_tail": recv[-300:]})
    return n


def run(chk, searching=False):
    rng = chk.rng
    n = 30 if chk.tier == "quick" else 400
    programs = []
    for i in range(n):
        prog = P.gen_program(rng, rng.randint(5, 12), 0.55, 0.95)
        if rng.random() < 0.3:
            prog.insert(rng.randint(1, len(prog)), ("XUNASSIGN", ""))
        programs.append(("tls", prog))
    sel_cmds = [("FETCH", "1:* (FLAGS BODY.PEEK[])"), ("SEARCH", "ALL"), ("SEARCH", "SUBJECT MKALICE"), ("SEARCH", "HEADER Subject MKSALES"), ("SEARCH", "BODY MKBOB"), ("SEARCH", "TEXT MKBOARD"), ("UID", "SEARCH SUBJECT MKALICE"),
                ("STORE", "1 +FLAGS (\\Deleted)"), ("UID", "STORE 2 +FLAGS (\\Flagged)"), ("COPY", "1 Sent"), ("UID", "COPY 1:* Trash"),
                ("NOOP", ""), ("CHECK", ""), ("IDLE", ""), ("UID", "FETCH 1:* (UID BODY.PEEK[HEADER])"), ("UID", "SEARCH ALL"),
                ("EXPUNGE", ""), ("STORE", "1:* +FLAGS (\\Deleted)"), ("UID", "EXPUNGE 1:*"), ("STORE", "1 +FLAGS (\\Deleted)"), ("CLOSE", "")]
    # the whole selected-state alphabet inside an assigned role mailbox, a foreign one, and after a failed SELECT
    programs.append(("tls", [("LOGIN", None), ("SELECT", "Roles/%s/INBOX" % P.R1)] + sel_cmds))
    programs.append(("tls", [("LOGIN", None), ("SELECT", "Roles/%s/INBOX" % P.R2)] + sel_cmds[:8]))
    # role mailbox, then a SUCCESSFUL personal SELECT/EXAMINE: everything must act on the personal store again
    programs.append(("tls", [("LOGIN", None), ("SELECT", "Roles/%s/INBOX" % P.R1), ("SELECT", "INBOX")] + sel_cmds))
    programs.append(("tls", [("LOGIN", None), ("SELECT", "Roles/%s/Sent" % P.R1), ("EXAMINE", "Trash"), ("SELECT", "INBOX")] + sel_cmds[:10]))
    programs.append(("tls", [("LOGIN", None), ("SELECT", "Roles/%s/INBOX" % P.R1), ("CLOSE", ""), ("SELECT", "INBOX")] + sel_cmds[:10]))
    programs.append(("tls", [("LOGIN", None), ("SELECT", "Roles/%s/INBOX" % P.R1), ("XUNASSIGN", ""), ("SELECT", "Roles/%s/INBOX" % P.R1), ("SELECT", "INBOX")] + sel_cmds[:10]))
    programs.append(("tls", [("LOGIN", None), ("SELECT", "INBOX"), ("SELECT", "Roles/%s/INBOX" % P.R1), ("UNSELECT", ""), ("SELECT", "Sent"), ("SELECT", "INBOX")] + sel_cmds[:8]))
    programs.append(("tls", [("LOGIN", None), ("SELECT", "Roles/%s/INBOX" % P.R1), ("SELECT", "Nope")] + sel_cmds[:8]))
    programs.append(("tls", [("LOGIN", None), ("SELECT", "INBOX"), ("SELECT", "Roles/%s/Nope" % P.R1)] + sel_cmds[:8]))
    programs.append(("tls", [("LOGIN", None), ("SELECT", "Roles/%s/INBOX" % P.R1), ("XUNASSIGN", ""), ("FETCH", "1 (FLAGS)"), ("SELECT", "Roles/%s/INBOX" % P.R1)] + sel_cmds[:6]))
    programs.append(("tls", [("LOGIN", None), ("LIST", '"" "*"'), ("LSUB", '"" "*"'), ("STATUS", "Roles/%s/INBOX (MESSAGES)" % P.R2), ("APPEND", "Roles/%s/INBOX" % P.R2),
                             ("CREATE", "Roles/%s/X" % P.R2), ("DELETE", "Roles/%s/INBOX" % P.R2), ("RENAME", "Roles/%s/INBOX Mine" % P.R2), ("SUBSCRIBE", "Roles/%s/INBOX" % P.R2)]))
    # CLOSE / EXPUNGE / UNSELECT with \Deleted messages waiting in BOTH stores under the same mailbox id: only the selected one may change
    dele = ("STORE", "1 +FLAGS (\\Deleted)")
    for last in (("CLOSE", ""), ("EXPUNGE", ""), ("UNSELECT", ""), ("UID", "EXPUNGE 1:*"), ("SELECT", "Sent"), ("LOGOUT", "")):
        programs.append(("tls", [("LOGIN", None), ("SELECT", "INBOX"), dele, ("SELECT", "Roles/%s/INBOX" % P.R1), dele, last, ("STATUS", "INBOX (MESSAGES)")]))
        programs.append(("tls", [("LOGIN", None), ("SELECT", "Roles/%s/INBOX" % P.R1), dele, ("SELECT", "INBOX"), dele, last, ("STATUS", "Roles/%s/INBOX (MESSAGES)" % P.R1)]))
    sess = P.run_sessions(chk, programs)
    good = [s for s in sess if not s["crashed"]]
    if len(good) < len(sess) // 2:
        chk.broken_obligation("more than half of the isolation scenarios crashed the driver: %s" % (sess[0].get("stderr") if sess else ""))
        return
    verdicts, log = P.evaluate("C05", [(True, s["lines"]) for s in good])
    if verdicts is None:
        chk.broken_obligation("the Coq oracle Spec/ProtoCheck could not be evaluated on the observed sessions:\n" + str(log)[-1500:])
        return
    distinct = set()
    role_lines = 0
    for s in good:
        for o in s["lines"]:
            distinct.add((o["word"], o["ok"], tuple(o["changed"]), tuple(o["revealed"])))
            if any("RoleStore" in x for x in o["changed"] + o["revealed"]):
                role_lines += 1
    nd = 0
    for s, vs in zip(good, verdicts):
        for (i, names) in vs:
            mine = [v for v in names if v in MINE]
            if not mine:
                continue
            nd += 1
            o = s["lines"][i]
            chk.violation("%s: line %d '%s %s' changed %s revealed %s" % ("; ".join(MINE[v] for v in mine), i, o["word"], o["arg"], o["changed"], o["revealed"]),
                          {"suite": "programs", "kind": s["kind"], "program": s["prog"], "line": i, "verdicts": mine, "observation": o})
    nprobe = 0 if searching else (delivery_probe(chk) + blob_isolation_probe(chk))
    chk.cov["evaluations"] = sum(len(s["lines"]) for s in good) + nprobe
    chk.cov["programs"] = len(good)
    chk.cov["distinct_nontrivial"] = len(distinct)
    chk.cov["lines_touching_a_role_store"] = role_lines
    chk.cov["delivery_probes"] = nprobe
    chk.cov["rule"] = ("programs of user alice (assigned to role 1, not to role 2) over the whole command alphabet with personal names and Roles/<address>/<name> paths "
                       "(own, foreign, missing, malformed), administrator un-assignment in mid-session, in a world where alice, bob and both role stores hold marker messages "
                       "under COINCIDING mailbox ids; after every line the full dump delta of all stores and the markers revealed in the response; judged by "
                       "Spec/ProtoCheck.replay_conn. distinct non-trivial = distinct (word, OK?, changed stores, revealed stores)")
    chk.cov["traces_validated_against_impl"] = len(good)
    chk.cov["disagreements_checked"] = nd
    chk.sample({"program": good[-6]["prog"][:8], "lines": [{k: o[k] for k in ("word", "arg", "ok", "changed", "revealed")} for o in good[-6]["lines"][:8]]})

    if chk.tier == "thorough" and not searching:
        import proto_selftest
        proto_selftest.run(chk)


def search(chk):
    run(chk, searching=True)


explain = P.explain


def replay(path):
    d = json.load(open(path))
    if d.get("suite") == "programs":
        sess = P.run_sessions(None, [(d["kind"], [tuple(x) for x in d["program"]])])
        v, _ = P.evaluate("C05", [(True, sess[0]["lines"])])
        print(json.dumps({"verdicts": v, "lines": sess[0]["lines"]}, indent=1)[:6000])
    else:
        print(json.dumps(d, indent=1))
    return 0
