"""C08 — concurrent sessions never lose, duplicate or mix up messages.

Correspondence of Model/Conc.v (threads of atomic micro-steps) with the code:

suite "gated"   deterministic schedules.  An SQLite authorizer installed (by the
                driver, on the pooled connections of the store handle the server
                itself uses) stops a session right before the statements
                C INSERT mailboxes / R SELECT uid_next / U UPDATE uid_next /
                I INSERT message_mailbox (R is reached only by code that reads
                uid_next in a statement of its own, i.e. the unrepaired
                IncrementUIDNextPerUser).  A schedule is a list of grants; one
                grant lets one session run to its next gate.  Replies, the gate
                trace (= statement order), uid_next and the (uid, owner) list of
                the target folder are compared with run_grants of the model,
                evaluated inside Coq.  Includes every interleaving of two
                deliveries to an existing folder (20) and to a missing folder (70)
                and the regression witnesses of the repaired races.
suite "first"   k simultaneous first deliveries / LOGINs for a brand-new user (one
                and two DBManagers, empty mailboxes table, new domain) behind a
                barrier at the first statement of the check-then-insert window.
suite "hold"    peer in the middle of a first open: a session of one DBManager is
                stopped before a chosen STATEMENT of its first open of a user or
                role-mailbox store (schema statements, count, BEGIN, recount, the
                five INSERTs, COMMIT, the delivery's statements); a session of the
                other manager does its complete first open + delivery / SELECT /
                LOGIN; the holder is released.  Compared with Model/ConcInit.v
                (SQLite lock rules) inside Coq, incl. WHEN the peer is kept out.
suite "sampled" real, unforced concurrency: k LMTP / IMAP writers in one process,
                deliveries through a second DBManager on the same directory;
                every reply collected; final audit of the stores against the
                replies (spec (a)-(d) observation-only) and IMAP FETCH of the
                content.  Timing dependent: an audit failure is reported only
                when it shows again in a replay of the same scenario."""
import glob
import itertools
import json
import os
import re

import common as C

PID = "C08"
USER = "u@example.com"
CLASSES = {}        # no finding class is left (uidnext_race, create_race: repaired)
POINT = {"C": 1, "R": 2, "U": 3, "I": 4, "done": 5, "noop": 5}


def msg(subject, to=USER):
    return ("From: a@example.com\r\nTo: %s\r\nSubject: %s\r\nX-C08: %s\r\n\r\nbody of %s\r\n" % (to, subject, subject, subject))


# --------------------------------------------------------------------------
# gated suite

def gated_ops(cases):
    """cases: list of dict(existing, threads=[("D",sep)|("A",flags)], grants). One driver process."""
    ops = [{"op": "open", "conn": "c0"},
           {"op": "send", "conn": "c0", "data": "i0 LOGIN %s pw\r\n" % USER, "until": "tag:i0"}]
    for k, cs in enumerate(cases):
        if cs["existing"]:
            ops.append({"op": "send", "conn": "c0", "data": "c%d CREATE M%d\r\n" % (k, k), "until": "tag:c%d" % k})
    ops.append({"op": "gate_install", "user": USER})
    if any(t[0] == "D" and t[1] for cs in cases for t in cs["threads"]):
        ops.append({"op": "gate_install", "user": USER, "separate_mgr": True})
    index = []
    for k, cs in enumerate(cases):
        f = "M%d" % k
        ths = []
        conns = []
        for i, t in enumerate(cs["threads"]):
            subj = "c08-%d-%d" % (k, i)
            if t[0] == "D":
                cn = "l%d_%d" % (k, i)
                ops.append({"op": "lmtp_open", "conn": cn, "default_folder": f, "separate_mgr": bool(t[1])})
                for line in ("LHLO x", "MAIL FROM:<a@example.com>", "RCPT TO:<%s>" % USER, "DATA"):
                    ops.append({"op": "send", "conn": cn, "data": line + "\r\n", "until": "lmtp:1"})
                ths.append({"conn": cn, "steps": [{"data": msg(subj) + ".\r\n", "until": "lmtp:1", "timeout_ms": 15000}]})
            else:
                cn = "a%d_%d" % (k, i)
                ops.append({"op": "open", "conn": cn})
                ops.append({"op": "send", "conn": cn, "data": "i LOGIN %s pw\r\n" % USER, "until": "tag:i"})
                m = msg(subj)
                fl = (" (%s)" % " ".join(t[1])) if t[1] else ""
                ths.append({"conn": cn, "steps": [
                    {"data": "t APPEND %s%s {%d}\r\n" % (f, fl, len(m)), "until": "cont:t", "timeout_ms": 15000},
                    {"data": m + "\r\n", "until": "tag:t", "only_if_cont": True, "timeout_ms": 15000}]})
            conns.append(cn)
        ops.append({"op": "gated", "threads": ths, "schedule": cs["grants"], "timeout_ms": 12000})
        g = len(ops) - 1
        ops.append({"op": "sql", "store": "user_db_1",
                    "q": "SELECT b.uid_next, mm.uid, m.subject FROM mailboxes b LEFT JOIN message_mailbox mm ON mm.mailbox_id = b.id "
                         "LEFT JOIN messages m ON m.id = mm.message_id WHERE b.name = '%s' ORDER BY mm.uid, mm.id" % f})
        index.append((g, g + 1))
        for cn in conns:
            ops.append({"op": "close", "conn": cn})
    ops.append({"op": "dump"})
    return ops, index


def digest_gated(cases, res):
    """-> list of per-case dict(obs..., trouble) and batch-level dump."""
    if res.get("crashed"):
        return None, "driver crashed: %s" % res.get("stderr", "")[-300:]
    ops, index = gated_ops(cases)
    obs = res["obs"]
    if len(obs) != len(ops):
        return None, "driver returned %d observations for %d ops" % (len(obs), len(ops))
    for o in obs:
        if "panic" in o:
            return None, "driver op panicked: %s" % json.dumps(o)[:300]
    out = []
    for k, (cs, (g, q)) in enumerate(zip(cases, index)):
        go, so = obs[g], obs[q]
        d = {"trouble": None}
        if go.get("error") or "threads" not in go:
            d["trouble"] = "gated run did not complete: %s" % (go.get("error") or json.dumps(go)[:200])
            out.append(d)
            continue
        rep, texts = [], []
        for t, rs in zip(cs["threads"], go["threads"]):
            if not rs:
                rep.append(2)
                texts.append("")
                continue
            if any(r["how"] in ("timeout", "write-error") or r["how"].startswith("error") for r in rs):
                d["trouble"] = "a session step timed out: %s" % json.dumps(rs)[:300]
            if t[0] == "D":
                line = rs[-1]["recv"]
                rep.append(1 if line[:1] == "2" else 0)
                texts.append(line.strip())
            else:
                line = ""
                for r in rs:
                    for l in r["recv"].split("\r\n"):
                        if l.startswith("t "):
                            line = l
                rep.append(1 if line.startswith("t OK") else 0)
                texts.append(line)
        d["rep"], d["texts"] = rep, texts
        d["trace"] = [POINT.get(p, 0) for (_, p) in go["trace"]]
        d["trace_raw"] = go["trace"]
        rows = so.get("rows") or []
        if so.get("error"):
            d["trouble"] = "sql: %s" % so["error"]
        nxt = rows[0][0] if rows else 0
        links = []
        for r in rows:
            if r[1] is None:
                continue
            m = re.match(r"c08-%d-(\d+)$" % k, r[2] or "")
            links.append((r[1], int(m.group(1)) if m else -1))
        d["next"], d["links"] = nxt, links
        out.append(d)
    dump = obs[-1].get("stores", {})
    return (out, dump), None


def coq_prog(t, f):
    if t[0] == "D":
        return "PDeliver %s 0" % C.coq_str(f)
    return "PAppend %s %s" % (C.coq_str(f), C.coq_list([C.coq_str(x) for x in t[1]]))


def eval_gated(cases_obs, name):
    """cases_obs: list of (k, case, obsdict). Returns list of (agree, class, rep, next)."""
    body = C.COQ_CASE_HEADER + "From Raven Require Import Model.Store Model.Ops Model.Conc.\nLocal Open Scope Z_scope.\n"
    items = []
    for (k, cs, d) in cases_obs:
        f = "M%d" % k
        items.append("(%s, %s, %s, [%s]%%nat, ([%s], [%s], (%d, [%s])))" % (
            C.coq_bool(cs["existing"]), C.coq_str(f), C.coq_list(["(%s)" % coq_prog(t, f) for t in cs["threads"]]),
            ";".join(str(g) for g in cs["grants"]), ";".join(str(x) for x in d["rep"]), ";".join(str(x) for x in d["trace"]),
            d["next"], ";".join("(%d, %d)" % (u, o) for (u, o) in d["links"])))
    body += "Definition cases : list gated_case := [\n%s].\n" % ";\n".join(items)
    body += "Definition res := Eval vm_compute in map eval_gated cases.\nPrint res.\n"
    rc, log = C.coq_eval_cases(name, body)
    if rc != 0:
        return None, log
    txt = C.parse_coq_list_out(log, "res")
    if txt is None:
        return None, log
    txt = txt.replace("%Z", "")
    out = []
    for m in re.finditer(r"\(\s*(-?\d+)\s*,\s*(-?\d+)\s*,\s*\[([^\]]*)\]\s*,\s*(-?\d+)\s*\)", txt):
        rep = [int(x) for x in m.group(3).split(";") if x.strip()]
        out.append((int(m.group(1)), int(m.group(2)), rep, int(m.group(4))))
    if len(out) != len(cases_obs):
        return None, log
    return out, log


def spec_gated(cs, d):
    """Observation-only spec (a)-(e) on one gated case. -> list of (kind, detail, thread)"""
    v = []
    uids = [u for (u, _) in d["links"]]
    if len(set(uids)) != len(uids):
        v.append(("a", "two messages of one mailbox share a UID: %r" % (d["links"],), None))
    if uids and d["next"] <= max(uids):
        v.append(("d", "UIDNEXT %d is not above the highest UID %d" % (d["next"], max(uids)), None))
    for i, (t, r) in enumerate(zip(cs["threads"], d["rep"])):
        cnt = sum(1 for (_, o) in d["links"] if o == i)
        if r == 1 and cnt != 1:
            v.append(("b", "thread %d was acknowledged (%s) and its message is stored %d times" % (i, d["texts"][i][:60], cnt), i))
        if r == 0 and cnt != 0:
            v.append(("c", "thread %d was refused (%s) and its message is stored %d times" % (i, d["texts"][i][:80], cnt), i))
        if r == 0:
            solo_ok = t[0] == "D" or cs["existing"]
            if solo_ok:
                v.append(("e", "thread %d (%s) would succeed on its own and was refused: %s" % (i, "delivery" if t[0] == "D" else "APPEND", d["texts"][i][:160]), i))
    return v


def failure_class(text):
    if "UNIQUE constraint failed: message_mailbox" in text or "Failed to add message to mailbox" in text:
        return "uidnext_race"
    if "mailbox already exists" in text or "failed to create mailbox" in text:
        return "create_race"
    return None


def run_gated_batches(chk, batches, stats, origin):
    ress = C.run_many([gated_ops(b)[0] for b in batches], workers=8, timeout=600)
    n_cases = 0
    for bi, (b, res) in enumerate(zip(batches, ress)):
        dg, trouble = digest_gated(b, res)
        if trouble or any(d["trouble"] for d in dg[0]):
            res = C.run_ops(gated_ops(b)[0], timeout=600)       # one solo retry
            dg, trouble = digest_gated(b, res)
        if trouble:
            chk.notes.append("gated batch could not be run (%s): %s" % (origin, trouble))
            stats["trouble"] += 1
            continue
        ds, dump = dg
        good = [(k, cs, d) for k, (cs, d) in enumerate(zip(b, ds)) if not d["trouble"]]
        for k, (cs, d) in enumerate(zip(b, ds)):
            if d["trouble"]:
                stats["trouble"] += 1
                chk.notes.append("gated case skipped (%s): %s" % (origin, d["trouble"][:200]))
        if not good:
            continue
        evs, log = eval_gated(good, "%s_%s_%d" % (PID, origin, bi))
        if evs is None:
            chk.broken_obligation("in-Coq evaluation of the C08 gated cases failed:\n" + log[-2000:])
            return n_cases
        for (k, cs, d), (agree, cc, mrep, mnext) in zip(good, evs):
            n_cases += 1
            stats["grants"] += len(cs["grants"])
            payload = {"suite": "gated", "origin": origin, "case": cs, "observed": {"replies": d["texts"], "trace": d["trace_raw"], "uid_next": d["next"], "links_uid_owner": d["links"]},
                       "model": {"replies": mrep, "uid_next": mnext, "class": CLASSES.get(cc)}}
            viol = spec_gated(cs, d)
            unknown = False
            for (kind, detail, i) in viol:
                cls = None
                if kind == "e":
                    fc = failure_class(d["texts"][i])
                    if cc in CLASSES and fc == CLASSES[cc]:
                        cls = fc
                if cls is None:
                    unknown = True
                    stats["violations"] += 1
                    if stats["violations"] > 6:          # enough replay files; the rest is counted
                        continue
                else:
                    stats["known"][cls] = stats["known"].get(cls, 0) + 1
                chk.violation("schedule %s of %s: %s" % ("".join(str(g) for g in cs["grants"]), "+".join(t[0] for t in cs["threads"]), detail), payload, cls=cls)
            if agree != 1:
                stats["diff"] += 1
                if not unknown:
                    stats["pending_broken"].append(("correspondence gated no longer checks: model (Model/Conc.v run_grants) and implementation differ on schedule %s of %s (replies / statement order / uid_next / stored uids); no violation of the property itself in this case" % (
                        "".join(str(g) for g in cs["grants"]), "+".join(t[0] for t in cs["threads"])), payload))
            else:
                stats["agree"] += 1
                if cc == 0:
                    stats["clean"] += 1
            if len(chk.cov["samples"]) < 3 and (cc or n_cases == 1):
                chk.sample({"threads": cs["threads"], "folder_existed": cs["existing"], "grants": cs["grants"], "impl_replies": d["texts"],
                            "impl_gate_trace": d["trace_raw"], "impl_uid_next": d["next"], "impl_uid_owner": d["links"], "model_agrees": agree == 1, "class": CLASSES.get(cc)})
        # whole-store audit of the batch: UNIQUE(mailbox, uid) everywhere
        for name, st in dump.items():
            if name == "shared":
                continue
            seen = set()
            for l in st.get("links") or []:
                if (l[2], l[3]) in seen:
                    chk.violation("store %s holds two links with UID %d in mailbox row %d" % (name, l[3], l[2]), {"suite": "gated", "origin": origin, "batch": b})
                seen.add((l[2], l[3]))
    return n_cases


def interleavings(a, b):
    n = a + b
    for pos in itertools.combinations(range(n), a):
        s = [1] * n
        for p in pos:
            s[p] = 0
        yield s


def gen_gated_case(rng, two_mgr):
    nt = rng.choice([2, 2, 2, 3])
    existing = rng.random() < 0.65
    ths = []
    for _ in range(nt):
        if rng.random() < 0.6:
            ths.append(["D", bool(two_mgr and rng.random() < 0.5)])
        else:
            ths.append(["A", rng.choice([[], [], ["\\Seen"], ["\\Flagged"]])])
    per = 4
    grants = [i for i in range(nt) for _ in range(per)]
    rng.shuffle(grants)
    return {"existing": existing, "threads": ths, "grants": grants}


# --------------------------------------------------------------------------
# sampled suite

def sampled_ops(sc):
    """sc: dict(n_lmtp, n_imap, per, two_mgr, newuser). Returns ops, plan."""
    ops = [{"op": "open", "conn": "c0"},
           {"op": "send", "conn": "c0", "data": "i0 LOGIN %s pw\r\n" % USER, "until": "tag:i0"},
           {"op": "send", "conn": "c0", "data": "s0 CREATE Seed\r\n", "until": "tag:s0"}]
    # seed messages for the COPY / STORE / EXPUNGE sessions
    for j in range(4):
        m = msg("seed-%d" % j)
        ops.append({"op": "send", "conn": "c0", "data": "a%d APPEND Seed {%d}\r\n" % (j, len(m)), "until": "cont:a%d" % j})
        ops.append({"op": "send", "conn": "c0", "data": m + "\r\n", "until": "tag:a%d" % j, "only_if_cont": True})
    threads, plan = [], []
    for i in range(sc["n_lmtp"]):
        cn = "l%d" % i
        sep = bool(sc["two_mgr"] and i % 2 == 1)
        rcpt = USER
        if sc["newuser"] and i % 3 == 2 and not sep:
            rcpt = "new%d@example.com" % (i % 2)
        ops.append({"op": "lmtp_open", "conn": cn, "separate_mgr": sep})
        ops.append({"op": "send", "conn": cn, "data": "LHLO x\r\n", "until": "lmtp:1"})
        steps, subs = [], []
        for j in range(sc["per"]):
            subj = "s-l%d-%d" % (i, j)
            for line in ("MAIL FROM:<a@example.com>", "RCPT TO:<%s>" % rcpt, "DATA"):
                steps.append({"data": line + "\r\n", "until": "lmtp:1", "timeout_ms": 30000})
            steps.append({"data": msg(subj, rcpt) + ".\r\n", "until": "lmtp:1", "timeout_ms": 30000})
            subs.append(subj)
        threads.append({"conn": cn, "steps": steps})
        plan.append({"kind": "lmtp", "rcpt": rcpt, "subjects": subs, "sep": sep})
    for i in range(sc["n_imap"]):
        cn = "m%d" % i
        ops.append({"op": "open", "conn": cn})
        ops.append({"op": "send", "conn": cn, "data": "i LOGIN %s pw\r\n" % USER, "until": "tag:i"})
        steps, subs, extra = [], [], []
        role = i % 3
        if role == 0:
            for j in range(sc["per"]):
                subj = "s-m%d-%d" % (i, j)
                m = msg(subj)
                steps.append({"data": "t%d APPEND INBOX {%d}\r\n" % (j, len(m)), "until": "cont:t%d" % j, "timeout_ms": 30000})
                steps.append({"data": m + "\r\n", "until": "tag:t%d" % j, "only_if_cont": True, "timeout_ms": 30000})
                subs.append(subj)
        elif role == 1:
            ops.append({"op": "send", "conn": cn, "data": "s SELECT Seed\r\n", "until": "tag:s"})
            for j in range(sc["per"]):
                steps.append({"data": "t%d UID COPY 1:2 Trash\r\n" % j, "until": "tag:t%d" % j, "timeout_ms": 30000})
                steps.append({"data": "x%d CREATE B%d_%d\r\n" % (j, i, j), "until": "tag:x%d" % j, "timeout_ms": 30000})
                extra.append("B%d_%d" % (i, j))
        else:
            ops.append({"op": "send", "conn": cn, "data": "s SELECT Seed\r\n", "until": "tag:s"})
            steps.append({"data": "t0 UID STORE 3:4 +FLAGS (\\Deleted)\r\n", "until": "tag:t0", "timeout_ms": 30000})
            steps.append({"data": "t1 EXPUNGE\r\n", "until": "tag:t1", "timeout_ms": 30000})
            steps.append({"data": "t2 NOOP\r\n", "until": "tag:t2", "timeout_ms": 30000})
        threads.append({"conn": cn, "steps": steps})
        plan.append({"kind": "imap", "role": role, "subjects": subs, "creates": extra})
    ops.append({"op": "conc", "threads": threads})
    cpos = len(ops) - 1
    ops.append({"op": "dump"})
    ops.append({"op": "open", "conn": "z"})
    ops.append({"op": "send", "conn": "z", "data": "i LOGIN %s pw\r\n" % USER, "until": "tag:i"})
    ops.append({"op": "send", "conn": "z", "data": "s SELECT INBOX\r\n", "until": "tag:s"})
    ops.append({"op": "send", "conn": "z", "data": "f UID FETCH 1:* (UID BODY.PEEK[])\r\n", "until": "tag:f", "timeout_ms": 30000})
    ops.append({"op": "send", "conn": "z", "data": "g STATUS INBOX (MESSAGES UIDNEXT)\r\n", "until": "tag:g"})
    return ops, plan, cpos


def store_subjects(res, cpos):
    """subject -> list of (store, mailbox name, uid) from extra sql ops appended after the dump"""
    return {}


def audit_sampled(sc, res):
    """-> (trouble, violations[list of (kind, detail)], failures[list of text], stats)"""
    if res.get("crashed"):
        return "driver crashed: %s" % res.get("stderr", "")[-300:], [], [], {}
    ops, plan, cpos = sampled_ops(sc)
    obs = res["obs"]
    if len(obs) != len(ops) + sc.get("_extra", 0):
        return "driver returned %d observations for %d ops" % (len(obs), len(ops)), [], [], {}
    co = obs[cpos]
    if "threads" not in co:
        return "conc op failed: %s" % json.dumps(co)[:300], [], [], {}
    acked, refused, failures = {}, {}, []
    for p, rs in zip(plan, co["threads"]):
        bad = [r for r in rs if r["how"] not in ("ok", "")]
        if bad:
            return "a session step did not complete: %s" % json.dumps(bad)[:300], [], [], {}
        if p["kind"] == "lmtp":
            finals = [rs[4 * j + 3]["recv"].strip() for j in range(len(p["subjects"]))]
            for subj, line in zip(p["subjects"], finals):
                if line[:1] == "2":
                    acked[subj] = (p["rcpt"], line)
                else:
                    refused[subj] = (p["rcpt"], line)
                    failures.append(line)
        elif p["role"] == 0:
            for j, subj in enumerate(p["subjects"]):
                line = ""
                for r in rs[2 * j: 2 * j + 2]:
                    for l in r["recv"].split("\r\n"):
                        if l.startswith("t%d " % j):
                            line = l
                if line.startswith("t%d OK" % j):
                    acked[subj] = (USER, line)
                else:
                    refused[subj] = (USER, line)
                    failures.append(line)
    dump = obs[cpos + 1].get("stores", {})
    users = {("%s@%s" % (u[1], u[2])): u[0] for u in dump.get("shared", {}).get("users", [])}
    viol = []
    where = {}
    for name, st in dump.items():
        if name == "shared":
            continue
        if st.get("error"):
            viol.append(("store", "store %s cannot be read: %s" % (name, st["error"])))
            continue
        seen = set()
        mb = {m[0]: m for m in st.get("mailboxes") or []}
        mx = {}
        for l in st.get("links") or []:
            if (l[2], l[3]) in seen:
                viol.append(("a", "store %s: two links with UID %d in mailbox %s" % (name, l[3], mb.get(l[2], [0, 0, "?"])[2])))
            seen.add((l[2], l[3]))
            mx[l[2]] = max(mx.get(l[2], 0), l[3])
        for mid, top in mx.items():
            m = mb.get(mid)
            if m and m[4] <= top:
                viol.append(("d", "store %s: mailbox %s advertises UIDNEXT %d, UID %d exists" % (name, m[2], m[4], top)))
    return None, viol, failures, {"acked": acked, "refused": refused, "users": users, "dump": dump}


def subjects_query(store):
    return {"op": "sql", "store": store,
            "q": "SELECT m.subject, b.name, mm.uid FROM message_mailbox mm JOIN messages m ON m.id = mm.message_id JOIN mailboxes b ON b.id = mm.mailbox_id ORDER BY mm.id"}


def parse_fetch(recv):
    """-> list of (uid, literal bytes as str)"""
    out = []
    i = 0
    while True:
        m = re.compile(r"\* \d+ FETCH \(").search(recv, i)
        if not m:
            break
        j = recv.find("\r\n", m.end())
        head = recv[m.start():j]
        lm = re.search(r"\{(\d+)\}$", head)
        if not lm:
            i = j + 2
            continue
        n = int(lm.group(1))
        lit = recv[j + 2: j + 2 + n]
        rest_end = recv.find("\r\n", j + 2 + n)
        tail = recv[j + 2 + n: rest_end if rest_end >= 0 else len(recv)]
        um = re.search(r"UID (\d+)", head) or re.search(r"UID (\d+)", tail)
        out.append((int(um.group(1)) if um else None, lit))
        i = j + 2 + n
    return out


def run_sampled(chk, sc, stats, replaying=False):
    ops, plan, cpos = sampled_ops(sc)
    # subject maps of the stores that can exist
    extra = [subjects_query("user_db_%d" % i) for i in (1, 2, 3)]
    res = C.run_ops(ops + extra, timeout=900, env_extra={"GOMAXPROCS": "16"})
    sc2 = dict(sc, _extra=len(extra))
    trouble, viol, failures, info = audit_sampled(sc2, res)
    if trouble:
        return trouble, [], []
    obs = res["obs"]
    place = {}
    for o, sid in zip(obs[-len(extra):], (1, 2, 3)):
        for r in o.get("rows") or []:
            place.setdefault(r[0], []).append(("user_db_%d" % sid, r[1], r[2]))
    for subj, (rcpt, line) in info["acked"].items():
        locs = place.get(subj, [])
        uid = info["users"].get(rcpt)
        want = [l for l in locs if l[0] == "user_db_%s" % uid and l[1] == "INBOX"]
        if len(locs) != 1 or len(want) != 1:
            viol.append(("b", "message %s was acknowledged for %s (%s) and is stored at %r" % (subj, rcpt, line[:50], locs)))
    for subj, (rcpt, line) in info["refused"].items():
        if place.get(subj):
            viol.append(("c", "message %s was refused (%s) and is stored at %r" % (subj, line[:80], place[subj])))
    # content through IMAP
    fo = obs[cpos + 5]["recv"]
    items = parse_fetch(fo)
    inbox = {l[2]: s for s, ls in place.items() for l in ls if l[0] == "user_db_%s" % info["users"].get(USER) and l[1] == "INBOX"}
    got = {}
    for uid, lit in items:
        m = re.search(r"X-C08: (\S+)", lit)
        b = re.search(r"body of (\S+)", lit)
        if not m or not b or m.group(1) != b.group(1):
            viol.append(("content", "UID %s of INBOX is served with mixed or damaged content: %r" % (uid, lit[:120])))
            continue
        if uid is not None:
            got[uid] = m.group(1)
    if got and got != inbox:
        diff = {u: (got.get(u), inbox.get(u)) for u in set(got) | set(inbox) if got.get(u) != inbox.get(u)}
        viol.append(("content", "UID FETCH of INBOX serves other messages than the store links (uid: (fetched, linked)): %r" % (dict(list(diff.items())[:5]),)))
    stats["sampled_msgs"] += len(info["acked"]) + len(info["refused"])
    stats["sampled_acked"] += len(info["acked"])
    stats["sampled_fetch_checked"] += len(got)
    return None, viol, failures


def gen_sampled(rng, quick):
    return {"n_lmtp": rng.choice([4, 6]) if quick else rng.choice([4, 6, 8]), "n_imap": 3, "per": rng.choice([3, 4]) if quick else rng.choice([4, 6]),
            "two_mgr": rng.random() < 0.6, "newuser": rng.random() < 0.5}


# --------------------------------------------------------------------------
# first-contact suite: k sessions meet a store (or a domain) that nobody has
# opened yet; a barrier at the first statement of the check-then-insert window
# makes them overlap inside it

NEWU = "n@example.com"
DEFAULTS = ["INBOX", "Sent", "Drafts", "Trash", "Spam"]


def first_ops(sc):
    """sc: dict(name, sessions=[("D", sep)|("L", sep)], point, prepare). -> ops, barrier pos"""
    ops = []
    rcpt = NEWU
    if sc["prepare"] == "domain":
        rcpt = "n@fresh.example"
        ops.append({"op": "gate_install_shared"})
        if any(s[1] for s in sc["sessions"]):
            ops.append({"op": "gate_install_shared", "separate_mgr": True})
    else:
        # the domain exists (another user of it logs in first)
        ops += [{"op": "open", "conn": "c0"},
                {"op": "send", "conn": "c0", "data": "i0 LOGIN o@example.com pw\r\n", "until": "tag:i0"}]
    if sc["prepare"] == "schema_empty":
        # the store file exists with its schema and an EMPTY mailboxes table; no handle is cached
        ops += [{"op": "open", "conn": "c1"},
                {"op": "send", "conn": "c1", "data": "i1 LOGIN %s pw\r\n" % NEWU, "until": "tag:i1"},
                {"op": "close", "conn": "c1"}, {"op": "close", "conn": "c0"},
                {"op": "sql_exec", "store": "user_db_2", "q": "DELETE FROM mailboxes"},
                {"op": "restart"}]
    if sc["prepare"] != "domain":
        ops.append({"op": "hook_all"})
    ths = []
    for i, (kind, sep) in enumerate(sc["sessions"]):
        if kind == "D":
            cn = "l%d" % i
            ops.append({"op": "lmtp_open", "conn": cn, "separate_mgr": bool(sep)})
            for line in ("LHLO x", "MAIL FROM:<a@example.com>", "RCPT TO:<%s>" % rcpt, "DATA"):
                ops.append({"op": "send", "conn": cn, "data": line + "\r\n", "until": "lmtp:1"})
            ths.append({"conn": cn, "steps": [{"data": msg("f-%d" % i, rcpt) + ".\r\n", "until": "lmtp:1", "timeout_ms": 25000}]})
        else:
            cn = "m%d" % i
            ops.append({"op": "open", "conn": cn})
            ths.append({"conn": cn, "steps": [{"data": "t LOGIN %s pw\r\n" % rcpt, "until": "tag:t", "timeout_ms": 25000}]})
    ops.append({"op": "barrier", "point": sc["point"], "need": len(ths), "wait_ms": 1200, "threads": ths})
    pos = len(ops) - 1
    ops.append({"op": "dump"})
    for sid in (1, 2, 3):
        ops.append(subjects_query("user_db_%d" % sid))
    return ops, pos, rcpt


def judge_first(chk, sc, res, stats):
    """-> (trouble, violations, observed tuple for the model comparison)"""
    if res.get("crashed"):
        return "driver crashed: %s" % res.get("stderr", "")[-300:], [], None
    ops, pos, rcpt = first_ops(sc)
    obs = res["obs"]
    if len(obs) != len(ops):
        return "driver returned %d observations for %d ops" % (len(obs), len(ops)), [], None
    for o in obs[:pos]:
        if o.get("error") or "panic" in o:
            return "preparation failed: %s" % json.dumps(o)[:200], [], None
    bo = obs[pos]
    if "threads" not in bo:
        return "barrier op failed: %s" % json.dumps(bo)[:200], [], None
    viol, rep = [], []
    for i, ((kind, sep), rs) in enumerate(zip(sc["sessions"], bo["threads"])):
        bad = [r for r in rs if r["how"] not in ("ok", "")]
        if bad:
            return "a session step did not complete: %s" % json.dumps(bad)[:300], [], None
        if kind == "D":
            line = rs[-1]["recv"].strip()
            ok = line[:1] == "2"
        else:
            line = next((l for l in rs[-1]["recv"].split("\r\n") if l.startswith("t ")), "")
            ok = line.startswith("t OK")
        rep.append(1 if ok else 0)
        if not ok:
            viol.append("%s %d (%s) meets a %s that nobody has opened yet, together with %d other session(s) (%d of them reached the %s statement together), and is refused although it succeeds on its own: %s" % (
                "first delivery" if kind == "D" else "LOGIN", i, "second DBManager" if sep else "server's DBManager",
                "new domain" if sc["prepare"] == "domain" else ("store with an empty mailboxes table" if sc["prepare"] == "schema_empty" else "brand-new user's store"),
                len(sc["sessions"]) - 1, bo.get("arrived", 0), sc["point"], line[:220]))
    dump = obs[pos + 1].get("stores", {})
    users = {("%s@%s" % (u[1], u[2])): u[0] for u in dump.get("shared", {}).get("users", [])}
    doms = [d[1] for d in dump.get("shared", {}).get("domains", [])]
    if len(set(doms)) != len(doms):
        viol.append("the domains table holds a domain twice: %r" % (doms,))
    uid = users.get(rcpt)
    st = dump.get("user_db_%s" % uid, {}) if uid else {}
    names = sorted(m[2] for m in st.get("mailboxes") or [])
    nd = sum(1 for (k, _) in sc["sessions"] if k == "D")
    inbox = [m for m in st.get("mailboxes") or [] if m[2] == "INBOX"]
    links = sorted(l[3] for l in st.get("links") or [] if inbox and l[2] == inbox[0][0])
    if all(rep):
        if names != sorted(DEFAULTS):
            viol.append("after %d simultaneous first contacts the store of %s holds the mailboxes %r (expected the five defaults once each)" % (len(rep), rcpt, names))
        if links != list(range(1, nd + 1)) or (inbox and inbox[0][4] != nd + 1):
            viol.append("after %d acknowledged first deliveries INBOX holds UIDs %r with UIDNEXT %s" % (nd, links, inbox[0][4] if inbox else None))
    place = {}
    for o, sid in zip(obs[-3:], (1, 2, 3)):
        for r in o.get("rows") or []:
            place.setdefault(r[0], []).append(("user_db_%d" % sid, r[1], r[2]))
    for i, ((kind, sep), r) in enumerate(zip(sc["sessions"], rep)):
        if kind == "D":
            locs = place.get("f-%d" % i, [])
            if r == 1 and len(locs) != 1:
                viol.append("first delivery %d was acknowledged and is stored at %r" % (i, locs))
            if r == 0 and locs:
                viol.append("first delivery %d was refused and is stored at %r" % (i, locs))
    stats["first_arrived"].append(bo.get("arrived", 0))
    observed = (rep, len(names), inbox[0][4] if inbox else 0, len(links), 1 if links == list(range(1, len(links) + 1)) else 0)
    return None, viol, observed


def eval_first_cases(cases):
    """cases: list of (sc, observed). Model: everybody counts first, then each runs to its reply."""
    body = C.COQ_CASE_HEADER + "From Raven Require Import Model.Store Model.Ops Model.Conc.\nLocal Open Scope Z_scope.\n"
    items = []
    for sc, _ in cases:
        k = len(sc["sessions"])
        ps = ["(PFirstDeliver INBOX 0 %d)" % (i + 1) if kind == "D" else "(PLogin %d)" % (i + 1) for i, (kind, _) in enumerate(sc["sessions"])]
        sch = list(range(k)) + [i for i in range(k) for _ in range(8)]
        items.append("(%s, [%s]%%nat)" % (C.coq_list(ps), ";".join(str(x) for x in sch)))
    body += "Definition cases : list (list prog * list tid) := [\n%s].\n" % ";\n".join(items)
    body += "Definition res := Eval vm_compute in map eval_first cases.\nPrint res.\n"
    rc, log = C.coq_eval_cases(PID + "_first", body)
    if rc != 0:
        return None, log
    txt = C.parse_coq_list_out(log, "res")
    if txt is None:
        return None, log
    out = []
    for m in re.finditer(r"\(\s*\[([^\]]*)\]\s*,\s*(-?\d+)\s*,\s*(-?\d+)\s*,\s*(-?\d+)\s*,\s*(-?\d+)\s*\)", txt.replace("%Z", "")):
        out.append(([int(x) for x in m.group(1).split(";") if x.strip()], int(m.group(2)), int(m.group(3)), int(m.group(4)), int(m.group(5))))
    return (out if len(out) == len(cases) else None), log


def first_scenarios(rng, quick):
    base = [
        {"name": "two_managers", "sessions": [["D", False], ["D", True]], "point": "N", "prepare": "new"},
        {"name": "one_manager", "sessions": [["D", False], ["D", False], ["L", False]], "point": "N", "prepare": "new"},
        {"name": "mixed", "sessions": [["D", True], ["L", False], ["D", True], ["D", False]], "point": "N", "prepare": "new"},
        {"name": "schema_empty_two_managers", "sessions": [["D", False], ["D", True]], "point": "N", "prepare": "schema_empty"},
        {"name": "schema_empty_one_manager", "sessions": [["D", False], ["L", False], ["D", False]], "point": "N", "prepare": "schema_empty"},
        {"name": "new_domain_one_manager", "sessions": [["D", False], ["D", False]], "point": "D", "prepare": "domain"},
        {"name": "new_domain_two_managers", "sessions": [["D", False], ["D", True]], "point": "D", "prepare": "domain"},
    ]
    extra = []
    for _ in range(0 if quick else 12):
        k = rng.choice([2, 3, 4])
        extra.append({"name": "random", "sessions": [[rng.choice(["D", "D", "L"]), rng.random() < 0.5] for _ in range(k)], "point": "N",
                      "prepare": rng.choice(["new", "new", "schema_empty"])})
    for sc in extra:
        if not any(s[0] == "D" for s in sc["sessions"]):
            sc["sessions"][0][0] = "D"
        if sc["prepare"] == "schema_empty":
            pass
    return base + extra


def run_first(chk, stats):
    scs = first_scenarios(chk.rng, chk.tier == "quick")
    ress = C.run_many([first_ops(sc)[0] for sc in scs], workers=6, timeout=300)
    cases = []
    for sc, res in zip(scs, ress):
        trouble, viol, observed = judge_first(chk, sc, res, stats)
        if trouble:
            res = C.run_ops(first_ops(sc)[0], timeout=300)
            trouble, viol, observed = judge_first(chk, sc, res, stats)
        if trouble:
            stats["trouble"] += 1
            chk.notes.append("first-contact scenario %s skipped: %s" % (sc["name"], trouble[:200]))
            continue
        stats["first"] += 1
        for v in viol[:2]:
            stats["violations"] += 1
            chk.violation("first contact (%s): %s" % (sc["name"], v), {"suite": "first", "scenario": sc})
        if sc["prepare"] != "domain":
            cases.append((sc, observed))
    if cases:
        evs, log = eval_first_cases(cases)
        if evs is None:
            chk.broken_obligation("in-Coq evaluation of the C08 first-contact cases failed:\n" + log[-1500:])
            return
        for (sc, observed), ev in zip(cases, evs):
            if tuple(ev) == tuple(observed):
                stats["first_agree"] += 1
            else:
                stats["pending_broken"].append(("correspondence first-contact no longer checks: scenario %s: implementation (replies, mailboxes, INBOX uid_next, messages, uids gap-free) = %r, model eval_first = %r" % (sc["name"], observed, ev),
                                                {"suite": "first", "scenario": sc, "observed": observed, "model": ev}))

# --------------------------------------------------------------------------
# hold suite: "peer in the middle of its first open" - one session (the holder)
# is stopped before a chosen statement of its first open of a store (schema
# statement, count, BEGIN, recount, each default's allocator statement and INSERT, COMMIT, the delivery's
# own statements); a session of the OTHER DBManager then does its complete first
# open + operation; the holder is released.  Statement level, deterministic.

ROLE = "team@example.com"
INIT_SEQ = ["N", "B", "N"] + ["V", "C"] * 5 + ["X"]     # V = UIDVALIDITY allocator, C = INSERT mailboxes
HOLD_POINTS = ["T", "N", "B", "V", "C", "X", "Y", "U", "I"]


def hold_ops(sc):
    """sc: dict(kind role|user, peer D|S|L, holder_sep, where ("tx", q) | ("ddl", j) | ("dry", 0))"""
    rcpt = ROLE if sc["kind"] == "role" else NEWU
    ops = [{"op": "open", "conn": "c0"},
           {"op": "send", "conn": "c0", "data": "i0 LOGIN o@example.com pw\r\n", "until": "tag:i0"}]
    if sc["kind"] == "role":
        ops.append({"op": "role_create_cold", "email": ROLE})
        ops.append({"op": "role_assign", "user": "o@example.com", "role": 1})
    ops.append({"op": "hook_all"})

    def lmtp(name, sep, subj):
        ops.append({"op": "lmtp_open", "conn": name, "separate_mgr": bool(sep)})
        for line in ("LHLO x", "MAIL FROM:<a@example.com>", "RCPT TO:<%s>" % rcpt, "DATA"):
            ops.append({"op": "send", "conn": name, "data": line + "\r\n", "until": "lmtp:1"})
        return {"conn": name, "steps": [{"data": msg(subj, rcpt) + ".\r\n", "until": "lmtp:1", "timeout_ms": 25000}]}
    holder = lmtp("h", sc["holder_sep"], "h-msg")
    if sc["peer"] == "D":
        peer = lmtp("p", not sc["holder_sep"], "p-msg")
    elif sc["peer"] == "S":        # IMAP: a user assigned to the role selects its INBOX (server's manager)
        peer = {"conn": "c0", "steps": [{"data": "t SELECT Roles/%s/INBOX\r\n" % ROLE, "until": "tag:t", "timeout_ms": 25000}]}
    else:                          # IMAP LOGIN of the brand-new user (server's manager)
        ops.append({"op": "open", "conn": "p"})
        peer = {"conn": "p", "steps": [{"data": "t LOGIN %s pw\r\n" % NEWU, "until": "tag:t", "timeout_ms": 25000}]}
    h = {"op": "hold_run", "points": HOLD_POINTS, "peer_wait_ms": 700, "holder": holder, "peer": peer}
    kind, n = sc["where"]
    if kind == "tx":
        h.update({"from_point": "N", "offset": n})
    elif kind == "ddl":
        h["hold_at"] = n
    ops.append(h)
    pos = len(ops) - 1
    ops.append({"op": "dump"})
    return ops, pos, rcpt


def judge_hold(sc, res):
    """-> trouble, violations, observed dict"""
    if res.get("crashed"):
        return "driver crashed: %s" % res.get("stderr", "")[-300:], [], None
    ops, pos, rcpt = hold_ops(sc)
    obs = res["obs"]
    if len(obs) != len(ops):
        return "driver returned %d observations for %d ops" % (len(obs), len(ops)), [], None
    for o in obs[:pos]:
        if o.get("error") or "panic" in o:
            return "preparation failed: %s" % json.dumps(o)[:200], [], None
    ho = obs[pos]
    if ho.get("error") or ho.get("holder") is None or ho.get("peer") is None:
        return "hold_run did not complete: %s" % json.dumps(ho)[:300], [], None
    if sc["where"][0] != "dry" and not ho.get("held"):
        return "the holder was never held (statement %r not reached)" % (sc["where"],), [], None

    def ok_of(rs, imap):
        bad = [r for r in rs if r["how"] not in ("ok", "")]
        if bad:
            return None, json.dumps(bad)[:200]
        if imap:
            line = next((l for l in rs[-1]["recv"].split("\r\n") if l.startswith("t ")), "")
            return line.startswith("t OK"), line
        line = rs[-1]["recv"].strip()
        return line[:1] == "2", line
    hok, hline = ok_of(ho["holder"], False)
    pok, pline = ok_of(ho["peer"], sc["peer"] != "D")
    if hok is None or pok is None:
        return "a session step did not complete: %s %s" % (hline, pline), [], None
    trace = ho["trace"]
    at = trace[-1] if ho.get("held") and trace else None
    where = "before statement #%d of its first open (%s; statements so far: %s)" % (len(trace), at, "".join(trace[-12:]))
    viol = []
    what = "role-mailbox store" if sc["kind"] == "role" else "user store"
    pk = {"D": "first delivery", "S": "IMAP SELECT of the role mailbox", "L": "IMAP LOGIN"}[sc["peer"]]
    if not pok:
        viol.append("first open of a %s by two DBManagers: the holder (delivery, %s) is stopped %s; the peer (%s through the other manager) would succeed on its own and is refused: %s" % (
            what, "second manager" if sc["holder_sep"] else "server's manager", where, pk, pline[:260]))
    if not hok:
        viol.append("first open of a %s by two DBManagers: the holder (delivery) was stopped %s while the peer (%s) did its first open; released, it is refused although it succeeds on its own: %s" % (what, where, pk, hline[:260]))
    dump = obs[pos + 1].get("stores", {})
    stname = None
    if sc["kind"] == "role":
        stname = "role_db_1"
    else:
        users = {("%s@%s" % (u[1], u[2])): u[0] for u in dump.get("shared", {}).get("users", [])}
        stname = "user_db_%s" % users.get(rcpt)
    st = dump.get(stname, {})
    names = sorted(m[2] for m in st.get("mailboxes") or [])
    inbox = [m for m in st.get("mailboxes") or [] if m[2] == "INBOX"]
    links = sorted(l[3] for l in st.get("links") or [] if inbox and l[2] == inbox[0][0])
    nd = 1 + (1 if sc["peer"] == "D" else 0)
    if hok and pok:
        if names != sorted(DEFAULTS):
            viol.append("after both first opens the %s holds the mailboxes %r (expected the five defaults once each); holder stopped %s" % (what, names, where))
        if links != list(range(1, nd + 1)) or (inbox and inbox[0][4] != nd + 1):
            viol.append("after %d acknowledged first deliveries INBOX of the %s holds UIDs %r with UIDNEXT %s; holder stopped %s" % (nd, what, links, inbox[0][4] if inbox else None, where))
    observed = {"hok": 1 if hok else 0, "pok": 1 if pok else 0, "defaults": 1 if names == sorted(DEFAULTS) else (0 if not names else 2),
                "stored": len(links), "early": 1 if ho.get("peer_done_before_release") else 0, "trace": trace}
    return None, viol, observed


def model_h(sc, observed):
    """statements of the model's init sequence the holder has executed when held"""
    kind, n = sc["where"]
    if kind == "ddl":
        return 0
    return min(n, len(INIT_SEQ))


def run_hold(chk, stats):
    quick = chk.tier == "quick"
    scs = [{"kind": k, "peer": "D", "holder_sep": False, "where": ["dry", 0]} for k in ("role", "user")]
    for q in range(0, len(INIT_SEQ) + 2):
        scs.append({"kind": "role", "peer": "D", "holder_sep": q % 2 == 1, "where": ["tx", q]})
    for j in (1, 15, 31):
        scs.append({"kind": "role", "peer": "D", "holder_sep": False, "where": ["ddl", j]})
    for q in ((2, 5, 13) if quick else range(0, 15)):
        scs.append({"kind": "role", "peer": "S", "holder_sep": True, "where": ["tx", q]})
    for q in ((1, 2, 3, 4, 13) if quick else range(0, 16)):
        scs.append({"kind": "user", "peer": "D", "holder_sep": q % 2 == 0, "where": ["tx", q]})
    for q in ((2, 6) if quick else range(0, 15)):
        scs.append({"kind": "user", "peer": "L", "holder_sep": True, "where": ["tx", q]})
    for f in sorted(glob.glob(os.path.join(C.VERIF, "corpus", PID, "*.json"))):
        d = json.load(open(f))
        if d.get("suite") == "hold" and d["scenario"] not in scs:
            scs.append(d["scenario"])
    ress = C.run_many([hold_ops(sc)[0] for sc in scs], workers=8, timeout=300)
    cases = []
    for sc, res in zip(scs, ress):
        trouble, viol, observed = judge_hold(sc, res)
        if trouble:
            res = C.run_ops(hold_ops(sc)[0], timeout=300)
            trouble, viol, observed = judge_hold(sc, res)
        if trouble:
            stats["trouble"] += 1
            chk.notes.append("hold scenario %s skipped: %s" % (json.dumps(sc), trouble[:200]))
            continue
        stats["hold"] += 1
        for v in viol[:2]:
            stats["violations"] += 1
            if stats["violations"] <= 8:
                chk.violation(v, {"suite": "hold", "scenario": sc, "statements_before_the_hold": observed["trace"][-14:],
                                  "replay": "bin/check C08 replay <this file>"})
        if sc["where"][0] == "dry":
            tr = observed["trace"]
            seq = tr[tr.index("N"):tr.index("N") + len(INIT_SEQ)] if "N" in tr else []
            stats["init_seq"][sc["kind"]] = "".join(seq)
            if seq != INIT_SEQ:
                stats["pending_broken"].append(("correspondence hold no longer checks: the first open of a %s store runs the statements %s from the first count on, the model (Model/ConcInit.v) has %s" % (sc["kind"], "".join(seq), "".join(INIT_SEQ)),
                                                {"suite": "hold", "scenario": sc, "trace": tr}))
            continue
        cases.append((sc, observed))
    if not cases:
        return
    body = C.COQ_CASE_HEADER + "From Raven Require Import Model.Conc Model.ConcInit.\n"
    body += "Definition cases : list (txmode * nat) := [%s].\n" % "; ".join(
        "(begin_mode %s, %d%%nat)" % ("RoleStore" if sc["kind"] == "role" else "UserStore", model_h(sc, o)) for sc, o in cases)
    body += "Definition res := Eval vm_compute in map eval_hold cases.\nPrint res.\n"
    rc, log = C.coq_eval_cases(PID + "_hold", body)
    txt = C.parse_coq_list_out(log, "res") if rc == 0 else None
    evs = [tuple(int(x) for x in m) for m in re.findall(r"\(\s*(-?\d+)\s*,\s*(-?\d+)\s*,\s*(-?\d+)\s*,\s*(-?\d+)\s*,\s*(-?\d+)\s*\)", (txt or "").replace("%Z", ""))]
    if len(evs) != len(cases):
        chk.broken_obligation("in-Coq evaluation of the C08 hold cases failed:\n" + log[-1500:])
        return
    for (sc, o), (mh, mp, md, ms, me) in zip(cases, evs):
        same = (o["hok"], o["pok"], o["defaults"]) == (mh, mp, md) and (sc["peer"] != "D" or o["stored"] == ms)
        # the peer may be slow (not finished in time although free); it must never be
        # through while the model says the holder's write lock keeps it out
        lock_ok = not (o["early"] == 1 and me == 0)
        if same and lock_ok:
            stats["hold_agree"] += 1
        else:
            stats["pending_broken"].append(("correspondence hold no longer checks: %s store, holder stopped after %d statements of the initialisation sequence, peer %s: implementation (holder ok, peer ok, default sets, stored, peer through before release) = %r, model eval_hold = %r" % (
                sc["kind"], model_h(sc, o), sc["peer"], (o["hok"], o["pok"], o["defaults"], o["stored"], o["early"]), (mh, mp, md, ms, me)), {"suite": "hold", "scenario": sc}))
        if o["early"] == 0 and me == 1:
            stats["hold_slow"] += 1

# --------------------------------------------------------------------------

def corpus_cases():
    out = []
    for f in sorted(glob.glob(os.path.join(C.VERIF, "corpus", PID, "*.json"))):
        d = json.load(open(f))
        if d.get("suite") == "gated":
            out.append((os.path.basename(f), d["case"]))
    return out


def run(chk):
    quick = chk.tier == "quick"
    rng = chk.rng
    stats = {"known": {}, "diff": 0, "agree": 0, "clean": 0, "trouble": 0, "violations": 0, "grants": 0,
             "sampled_msgs": 0, "sampled_acked": 0, "sampled_fetch_checked": 0, "pending_broken": [],
             "first": 0, "first_agree": 0, "first_arrived": [], "hold": 0, "hold_agree": 0, "hold_slow": 0, "init_seq": {}}
    # ---- 1. witnesses of the listed findings (deterministic replay)
    corp = corpus_cases()
    n = run_gated_batches(chk, [[cs for _, cs in corp]], stats, "corpus")
    # ---- 2. gated: every interleaving of two 4-grant deliveries + random mixed cases
    exhaustive = [{"existing": True, "threads": [["D", False], ["D", False]], "grants": s} for s in interleavings(3, 3)]
    exhaustive += [{"existing": False, "threads": [["D", False], ["D", False]], "grants": s} for s in interleavings(4, 4)]
    n_rand = 36 if quick else 360
    rand = [gen_gated_case(rng, two_mgr=(i % 3 == 0)) for i in range(n_rand)]
    allc = exhaustive + rand
    bs = 18
    batches = [allc[i:i + bs] for i in range(0, len(allc), bs)]
    n += run_gated_batches(chk, batches, stats, "gen")
    # ---- 2b. first contact with a store / a domain (barrier inside the check-then-insert window)
    run_first(chk, stats)
    # ---- 2c. peer in the middle of a first open (user and role stores), statement level
    run_hold(chk, stats)
    # ---- 3. sampled real concurrency
    n_s = 4 if quick else 40
    sampled_failures = {}
    for i in range(n_s):
        sc = gen_sampled(rng, quick)
        trouble, viol, failures = run_sampled(chk, sc, stats)
        if trouble:
            chk.notes.append("sampled scenario skipped: %s" % trouble[:200])
            stats["trouble"] += 1
            continue
        for f in failures:
            fc = failure_class(f) or ("other: " + re.sub(r"\d+", "N", f)[:100])
            sampled_failures[fc] = sampled_failures.get(fc, 0) + 1
        unknown_fail = list(failures)
        if viol or unknown_fail:
            # timing dependent: report only what shows again when the scenario is replayed
            again_v, again_f = [], []
            for _ in range(3):
                t2, v2, f2 = run_sampled(chk, sc, stats, replaying=True)
                if t2:
                    continue
                again_v += [x for x in v2 if x[0] in [y[0] for y in viol]]
                again_f += list(f2)
            if viol and again_v:
                chk.violation("sampled concurrency (%d LMTP + %d IMAP sessions): %s [seen again in replay: %s]" % (sc["n_lmtp"], sc["n_imap"], viol[0][1], again_v[0][1][:120]),
                              {"suite": "sampled", "scenario": sc, "violations": viol[:5]})
            elif viol:
                chk.notes.append("sampled concurrency: audit failure NOT reproduced in 3 replays (not reported as violation): %s" % viol[0][1][:200])
            if unknown_fail and again_f:
                chk.violation("sampled concurrency: a delivery/APPEND was refused merely because other sessions were active: %s" % unknown_fail[0][:200],
                              {"suite": "sampled", "scenario": sc, "failures": unknown_fail[:5]})
            elif unknown_fail:
                chk.notes.append("sampled concurrency: unclassified refusal NOT reproduced in 3 replays: %s" % unknown_fail[0][:200])
    # model/implementation differences without a property violation in the same case: the
    # other cases of the run are the searched neighbourhood -- if one of them violates the
    # property the difference is explained (informational), else the correspondence is broken
    for i, (what, payload) in enumerate(stats["pending_broken"]):
        if stats["violations"] > 0:
            chk.notes.append("model/implementation difference next to observed violations: " + what[:200])
        elif i < 4:
            chk.broken_obligation(what, payload)
    chk.cov["unclassified_violations_observed"] = stats["violations"]
    chk.cov["evaluations"] = n
    chk.cov["grants_executed"] = stats["grants"]
    chk.cov["distinct_nontrivial"] = len({(json.dumps(c["threads"]), c["existing"], tuple(c["grants"])) for c in allc if len(set(c["grants"][:6])) > 1})
    chk.cov["rule"] = ("one evaluation = one deterministic schedule (list of grants) of 2-3 concurrent sessions (LMTP delivery / IMAP APPEND, target folder existing or not, "
                       "optionally through a second DBManager) executed on the implementation under SQLite-authorizer gates and on Model/Conc.v run_grants inside Coq (vm_compute); compared: "
                       "reply class per session, gate trace (order of the statements C/U/I; R = a separate SELECT of uid_next, absent from the repaired code), uid_next and the (uid, owning session) list of the folder; "
                       "distinct_nontrivial = distinct cases whose first six grants involve more than one session (a real interleaving)")
    chk.cov["exhaustive_interleavings"] = len(exhaustive)
    chk.cov["traces_validated_against_impl"] = stats["agree"]
    chk.cov["disagreements_checked"] = stats["diff"]
    chk.cov["cases_outside_finding_classes"] = stats["clean"]
    chk.cov["known_class_hits"] = stats["known"]
    chk.cov["harness_trouble"] = stats["trouble"]
    chk.cov["hold_scenarios"] = stats["hold"]
    chk.cov["hold_agree_with_model"] = stats["hold_agree"]
    chk.cov["hold_peer_free_but_not_through_in_time"] = stats["hold_slow"]
    chk.cov["first_open_statement_sequence"] = stats["init_seq"]
    chk.cov["first_contact_scenarios"] = stats["first"]
    chk.cov["first_contact_agree_with_model"] = stats["first_agree"]
    chk.cov["first_contact_sessions_inside_window_together"] = stats["first_arrived"]
    chk.cov["sampled_scenarios"] = n_s
    chk.cov["sampled_messages"] = stats["sampled_msgs"]
    chk.cov["sampled_acknowledged"] = stats["sampled_acked"]
    chk.cov["sampled_refusals_by_kind"] = sampled_failures
    chk.cov["sampled_fetch_content_checked"] = stats["sampled_fetch_checked"]
    if stats["agree"] == 0:
        chk.broken_obligation("no gated case could be validated against the implementation (gates not reached?)", {"suite": "gated"})


def replay(path):
    d = json.load(open(path))
    if d.get("suite") == "gated" and d.get("case"):
        C.coq_make()
        cs = d["case"]
        res = C.run_ops(gated_ops([cs])[0], timeout=300)
        dg, trouble = digest_gated([cs], res)
        if trouble or dg[0][0]["trouble"]:
            print("trouble:", trouble or dg[0][0]["trouble"])
            return 2
        o = dg[0][0]
        evs, log = eval_gated([(0, cs, o)], PID + "_replay")
        print("replies:", o["texts"])
        print("gate trace:", o["trace_raw"])
        print("uid_next:", o["next"], "links (uid, owner):", o["links"])
        print("model (agree, class, replies, uid_next):", evs[0] if evs else log[-1500:])
        v = spec_gated(cs, o)
        for x in v:
            print("spec violation:", x)
        return 1 if (v or (evs and evs[0][0] != 1)) else 0
    if d.get("suite") == "hold" and d.get("scenario"):
        C.pregen_all()
        sc = d["scenario"]
        tr, v, o = judge_hold(sc, C.run_ops(hold_ops(sc)[0], timeout=300))
        print("trouble:", tr)
        print("observed:", o)
        for x in v:
            print("violation:", x)
        return 1 if v else 0
    if d.get("suite") == "first" and d.get("scenario"):
        sc = d["scenario"]
        stats = {"first_arrived": []}
        tr, v, o = judge_first(None, sc, C.run_ops(first_ops(sc)[0], timeout=300), stats)
        print("trouble:", tr)
        print("observed (replies, mailboxes, INBOX uid_next, messages, gap-free):", o, "sessions inside the window together:", stats["first_arrived"])
        for x in v:
            print("violation:", x)
        return 1 if v else 0
    if d.get("suite") == "sampled" and d.get("scenario"):
        class Dummy:
            pass
        stats = {"sampled_msgs": 0, "sampled_acked": 0, "sampled_fetch_checked": 0}
        t, v, f = run_sampled(None, d["scenario"], stats)
        print("trouble:", t)
        print("violations:", v[:10])
        print("refusals:", f[:10])
        return 1 if (v or f) else 0
    print(json.dumps(d, indent=1))
    return 0
