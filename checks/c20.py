"""C20 — sessions end when their client is gone; services shut down cleanly.

Correspondence of Model/Lifecycle.v + Model/LifecycleSrv.v with the handlers
in internal/server (handleClient, HandleIdle, HandleAuthenticate,
HandleAppendWithReader, HandleStartTLS), internal/delivery/lmtp and
internal/sasl. Every scenario drives a handler into a protocol state by a
command prefix, then closes the client, cuts a line in the middle, or stays
silent; the driver records the replies, every deadline the handler armed
(through a deadline-recording, deadline-compressing pipe) and whether the
handler goroutine returned. The same event list is evaluated by the model
inside Coq (i_verdict / l_verdict / s_verdict / srv_codes)."""
import base64
import json
import re
import common as C

WAIT_DONE_MS = 3000          # after a disconnect (IDLE polls every 550 ms)
WAIT_SILENT_MS = 9000        # compressed deadlines: 3 s + 1.5 s, with margin
CLASSES = {1: "idle_ignores_read_errors", 2: "idle_no_deadline"}


def ev_data(b, ok=True):
    if len(b) > 2000 and len(set(b)) == 1:
        # a long run of one byte: built with N.iter (a 64 KiB string literal overflows coqc's stack)
        return "(Data (N.iter %d%%N (cons (ascii_of_nat %d)) []) %s)" % (len(b), b[0], C.coq_bool(ok))
    return "(Data %s %s)" % (C.coq_str(b), C.coq_bool(ok))


class Sc:
    """one scenario: wire steps + the model's event list"""
    def __init__(self, proto, **kw):
        self.proto = proto
        self.kw = kw                  # tls / timeout_s / max_size ...
        self.steps = []               # dict(data, until, timeout_ms, events, compare)
        self.end = "close"            # close | silent
        self.ntag = 0
        self.desc = []

    def tag(self):
        self.ntag += 1
        return "t%d" % self.ntag

    def step(self, data, until, events, compare=True, timeout_ms=4000, op=None):
        self.steps.append(dict(data=data, until=until, events=events, compare=compare, timeout_ms=timeout_ms, op=op))

    # -- IMAP helpers
    def cmd(self, text, ok=True, noreply=False, desc=None):
        t = self.tag()
        line = ("%s %s" % (t, text)).encode("latin-1") + b"\r\n"
        self.desc.append(desc or text.split(" ")[0])
        self.step(line, "quiet:150" if noreply else "cont:" + t, [ev_data(line, ok)])
        return t

    def raw(self, data, until, events, desc):
        self.desc.append(desc)
        self.step(data, until, events)


def imap_prefix(sc, target, rng):
    """drive an IMAP session into the target state"""
    def filler():
        for _ in range(rng.randint(0, 2)):
            k = rng.choice(["NOOP", "CAPABILITY", "XYZZY", "noop", 'LIST "" *', "blank", "tagonly", "NAMESPACE", "CHECK"])
            if k == "blank":
                sc.raw(b"\r\n", "quiet:100", [ev_data(b"\r\n")], "blank")
            elif k == "tagonly":
                sc.raw(b"lonely\r\n", "lines:1", [ev_data(b"lonely\r\n")], "tagonly")
            else:
                sc.cmd(k)
    login = lambda: sc.cmd(rng.choice(["LOGIN u1 pw", "login u1 pw", 'LOGIN "u1" "pw"']))
    select = lambda: sc.cmd(rng.choice(["SELECT INBOX", "EXAMINE INBOX", "select inbox"]))
    filler()
    if target == "fresh":
        pass
    elif target == "authed":
        login(); filler()
    elif target == "selected":
        login(); select(); filler()
    elif target == "unselected":
        login(); select(); sc.cmd(rng.choice(["CLOSE", "UNSELECT"])); sc.cmd("IDLE")
    elif target == "idle":
        login(); filler(); select(); sc.cmd("IDLE")
    elif target == "idle_junk":
        login(); select(); sc.cmd(rng.choice(["IDLE", "idle"]))
        sc.raw(b"xx\r\n", "quiet:60", [ev_data(b"xx\r\n")], "junk-in-idle")
    elif target == "idle_done":
        login(); select(); t = sc.cmd("IDLE")
        d = rng.choice([b"DONE\r\n", b"done\r\n"])
        sc.raw(d, "tag:" + t, [ev_data(d)], "DONE"); filler()
    elif target == "idle_refused":
        k = rng.choice(["unauth", "nosel", "badsel"])
        if k == "nosel":
            login()
        elif k == "badsel":
            login(); select(); sc.cmd("SELECT nosuchbox", ok=False)
        sc.cmd("IDLE")
    elif target == "authwait":
        sc.cmd(rng.choice(["AUTHENTICATE PLAIN", "authenticate plain"]))
    elif target == "auth_done":
        t = sc.cmd("AUTHENTICATE PLAIN")
        k = rng.choice(["good", "star", "bad"])
        if k == "good":
            d = base64.b64encode(b"\0u1\0pw") + b"\r\n"
            sc.raw(d, "tag:" + t, [ev_data(d, True)], "sasl-response")
        elif k == "star":
            sc.raw(b"*\r\n", "tag:" + t, [ev_data(b"*\r\n", False)], "sasl-cancel")
        else:
            sc.raw(b"!!\r\n", "tag:" + t, [ev_data(b"!!\r\n", False)], "sasl-garbage")
        if k == "good":
            select(); sc.cmd("IDLE")
    elif target == "auth_refused":
        k = rng.choice(["AUTHENTICATE", "AUTHENTICATE CRAM-MD5", "twice"])
        if k == "twice":
            login(); sc.cmd("AUTHENTICATE PLAIN"); sc.cmd("LOGIN u1 pw")
        else:
            sc.cmd(k)
    elif target in ("literal", "literal_half", "literal_plus"):
        login()
        n = rng.choice([10, 57, 200])
        if target == "literal_plus":
            sc.cmd("APPEND INBOX {%d+}" % n, noreply=True)
        else:
            sc.cmd(rng.choice(["APPEND INBOX {%d}", "APPEND INBOX (\\Seen) {%d}", "append INBOX {%d}"]) % n)
        if target == "literal_half":
            sc.desc.append("half-literal")
            sc.step(b"Subj", "quiet:80", [])
    elif target in ("literal_done", "literal_nocrlf"):
        login()
        msg = b"Subject: c20\r\n\r\nbody %d\r\n" % rng.randint(0, 999)
        t = sc.cmd("APPEND INBOX {%d}" % len(msg))
        if target == "literal_done":
            sc.raw(msg + b"\r\n", "tag:" + t, [ev_data(msg), ev_data(b"\r\n")], "literal+crlf")
        else:
            sc.raw(msg, "tag:" + t, [ev_data(msg), "Timeout"], "literal-without-crlf")
        filler()
    elif target == "append_refused":
        k = rng.choice(["unauth", "nofolder", "nobrace", "zero", "junk", "huge", "neg", "revbrace", "prefixnum", "fewargs", "blank"])
        if k != "unauth":
            login()
        text, ok = {
            "unauth": ("APPEND INBOX {5}", True), "nofolder": ("APPEND nosuchbox {5}", False),
            "nobrace": ("APPEND INBOX 5", True), "zero": ("APPEND INBOX {0}", True),
            "junk": ("APPEND INBOX {abc}", True), "huge": ("APPEND INBOX {52428801}", True),
            "neg": ("APPEND INBOX {-5}", True), "revbrace": ("APPEND INBOX }5{", True),
            "fewargs": ("APPEND", True),
            "prefixnum": ("APPEND INBOX {99999999999999999999}", True), "blank": ("APPEND INBOX {}", True),
        }[k]
        sc.cmd(text, ok=ok, desc="APPEND-" + k)
    elif target == "append_oddsize":
        login()
        k = rng.choice(["12x", "+7", " 9", "1_0"])
        n = {"12x": 12, "+7": 7, " 9": 9, "1_0": 1}[k]
        t = sc.cmd("APPEND INBOX {%s}" % k, desc="APPEND-size-" + k.strip())
        msg = (b"Subject: q\r\n\r\n" + b"x" * 40)[:n]
        sc.raw(msg + b"\r\n", "tag:" + t, [ev_data(msg), ev_data(b"\r\n")], "literal+crlf")
    elif target == "logout":
        if rng.random() < 0.5:
            login()
        sc.cmd(rng.choice(["LOGOUT", "logout"]))
    elif target == "plain_refusals":
        sc.cmd("LOGIN u1 pw"); sc.cmd("AUTHENTICATE PLAIN"); sc.cmd("STARTTLS now")
    elif target == "tls_flag_starttls":
        sc.cmd("STARTTLS")
    elif target == "handshake_pending":
        sc.cmd("STARTTLS")
    elif target == "handshake_done":
        sc.cmd("STARTTLS")
        sc.desc.append("tls-handshake")
        sc.step(b"", "", [ev_data(b"", True)], op={"op": "starttls", "conn": "c"})
        login(); select()
        if rng.random() < 0.5:
            sc.cmd("IDLE")
    else:
        raise ValueError(target)


IMAP_TARGETS_TLS = ["fresh", "authed", "selected", "unselected", "idle", "idle_junk", "idle_done", "idle_refused",
                    "authwait", "auth_done", "auth_refused", "literal", "literal_half", "literal_plus",
                    "literal_done", "literal_nocrlf", "append_refused", "append_oddsize", "logout", "tls_flag_starttls"]
IMAP_TARGETS_PLAIN = ["plain_refusals", "handshake_pending", "handshake_done", "fresh"]
PARTIALS = [b"z NOOP", b"z IDLE", b"z LOGOUT", b"z", b"z AUTHENTICATE PLAIN", b"z APPEND INBOX {5}", b"z idle  "]


def imap_scenario(rng, target, tls, ending):
    sc = Sc("imap", tls=tls)
    imap_prefix(sc, target, rng)
    finish(sc, rng, ending, PARTIALS)
    sc.target = target
    return sc


def finish(sc, rng, ending, partials):
    sc.gone_at = sum(len(s["events"]) for s in sc.steps)
    if ending == "partial":
        p = rng.choice(partials)
        sc.desc.append("partial:%s" % p.decode("latin-1"))
        ev = [] if sc.proto == "lmtp" else [ev_data(p, True)]
        sc.step(p, "quiet:120", ev, compare=False)
        ending = "close"
        if sc.proto != "lmtp":
            sc.gone_at += 1
    sc.end = ending
    sc.desc.append(ending)
    sc.tail = ["Timeout"] * 3 if ending == "silent" else ["Eof"] * 3


# targets that leave the IMAP handler at a read site where a cut line is one more chunk (command loop, IDLE)
PARTIAL_OK = ["fresh", "authed", "selected", "unselected", "idle", "idle_junk", "idle_done", "idle_refused", "auth_done",
              "auth_refused", "literal_done", "literal_nocrlf", "append_refused", "append_oddsize", "logout",
              "tls_flag_starttls", "plain_refusals", "handshake_done"]


def lmtp_scenario(rng, target, ending):
    max_size = 60 if target == "oversize" else 100000
    sc = Sc("lmtp", timeout_s=2 if ending == "silent" else 30, max_size=max_size)

    def cmd(text, n=1, ok=True):
        line = text.encode("latin-1") + b"\r\n"
        sc.desc.append(text.split(" ")[0])
        sc.step(line, "lmtp:%d" % n, [ev_data(line, ok)])

    def dline(text):
        line = text + b"\r\n"
        sc.step(line, "quiet:15", [ev_data(line)])
    lh = lambda: cmd(rng.choice(["LHLO client.test", "lhlo x"]))
    mail = lambda: cmd(rng.choice(["MAIL FROM:<a@b.test>", "mail from:<a@b.test>", "MAIL FROM:<a@b.test> SIZE=100"]))
    rcpt = lambda i=1: cmd("RCPT TO:<u%d@example.com>" % i)
    if target == "greeted":
        if rng.random() < 0.5:
            cmd(rng.choice(["NOOP", "HELP", "VRFY x", "BOGUS", "MAIL FROM:<a@b>", "LHLO"]))
    elif target == "lhlo":
        lh()
    elif target == "mail":
        lh(); mail()
        if rng.random() < 0.4:
            cmd("MAIL FROM:<c@d.test>")
    elif target == "rcpt":
        lh(); mail(); rcpt()
        if rng.random() < 0.5:
            rcpt(2)
    elif target == "badseq":
        lh(); cmd(rng.choice(["RCPT TO:<u1@example.com>", "DATA"]))
        mail(); cmd("DATA"); cmd(rng.choice(["RCPT FOR:<x>", "MAIL TO:<x>"]))
    elif target == "emptysender":
        lh(); cmd("MAIL FROM:<>"); cmd("RCPT TO:<u1@example.com>")
    elif target == "middata":
        lh(); mail(); rcpt(); cmd("DATA")
        for i in range(rng.randint(0, 3)):
            dline(rng.choice([b"Subject: x", b"", b"..dot", b"body line"]))
    elif target == "delivered":
        lh(); mail(); rcpt()
        two = rng.random() < 0.5
        if two:
            rcpt(2)
        cmd("DATA")
        lines = [l + b"\r\n" for l in (b"From: a@b.test", b"To: u1@example.com", b"Subject: c20 delivered", b"", b"hello", b"..stuffed")]
        sc.step(b"".join(lines), "quiet:30", [ev_data(l) for l in lines])
        sc.desc.append(".")
        sc.step(b".\r\n", "lmtp:%d" % (2 if two else 1), [ev_data(b".\r\n", True)])
        if rng.random() < 0.5:
            cmd("RCPT TO:<u1@example.com>")      # 503: the transaction was reset
    elif target == "oversize":
        lh(); mail(); rcpt(); cmd("DATA")
        dline(b"Subject: x")
        big = b"y" * 70 + b"\r\n"
        sc.desc.append("oversize-line")
        sc.step(big, "quiet:40", [ev_data(big)])
        dline(b"NOOP")                            # still message data: discarded
        sc.desc.append(".")
        sc.step(b".\r\n", "lmtp:1", [ev_data(b".\r\n", True)])   # 552, one per recipient; transaction reset
        cmd("NOOP")
        cmd("DATA")                               # 503: no sender any more
    elif target == "rset":
        lh(); mail(); rcpt(); cmd("RSET"); cmd("DATA")
    elif target == "quit":
        if rng.random() < 0.5:
            lh()
        cmd(rng.choice(["QUIT", "quit", "QUIT now"]))
    else:
        raise ValueError(target)
    finish(sc, rng, ending, [b"QUIT", b"NOOP", b"MAIL FROM:<x@y>"])
    sc.target = target
    return sc


LMTP_TARGETS = ["greeted", "lhlo", "mail", "rcpt", "badseq", "emptysender", "middata", "delivered", "oversize", "rset", "quit"]


def sasl_scenario(rng, target, ending):
    sc = Sc("sasl")

    def line(text, n):
        b = text.encode("latin-1")
        sc.desc.append(text.split("\t")[0][:12])
        sc.step(b + b"\n", ("lines:%d" % n) if n else "quiet:80", [ev_data(b)])
    if target == "fresh":
        pass
    elif target == "handshake":
        line("VERSION\t1\t2", 1); line("CPID\t77", 3)
    elif target == "cont":
        line("VERSION\t1\t2", 1); line("AUTH\t1\tPLAIN\tservice=smtp", 1)
    elif target == "authed":
        line("AUTH\t2\tPLAIN\tservice=smtp\tresp=" + base64.b64encode(b"\0u1\0pw").decode(), 1)
        line(rng.choice(["AUTH\t3\tLOGIN", "AUTH\t3\tCRAM", "AUTH\t3\tPLAIN\tresp="]), 1)
    elif target == "junk":
        line(rng.choice(["onefield", "", "AUTH\t1"]), 0); line("BOGUS\tx", 0)
    elif target == "long_ok":
        b = b"x" * 65535
        sc.desc.append("65535-byte line")
        sc.step(b + b"\n", "quiet:150", [ev_data(b)])
        line("VERSION\t1\t2", 1)
    elif target == "too_long":
        b = b"x" * 65536
        sc.desc.append("65536-byte line")
        sc.step(b + b"\n", "quiet:150", [ev_data(b)])
    else:
        raise ValueError(target)
    finish(sc, rng, ending, [b"AUTH\t9\tPLA", b"VERSION\t1"])
    sc.target = target
    return sc


SASL_TARGETS = ["fresh", "handshake", "cont", "authed", "junk", "long_ok", "too_long"]


def ops_of(sc):
    ops = []
    if sc.proto == "imap":
        ops.append({"op": "c20_open", "conn": "c", "kind": "tls" if sc.kw["tls"] else "plain"})
    elif sc.proto == "lmtp":
        ops.append({"op": "c20_lmtp_open", "conn": "c", "timeout_s": sc.kw["timeout_s"], "max_size": sc.kw["max_size"]})
    else:
        ops.append({"op": "c20_sasl_open", "conn": "c"})
    sc.step_idx = []
    for s in sc.steps:
        if s["op"]:
            ops.append(s["op"])
        else:
            ops.append({"op": "send", "conn": "c", "data": C.latin(s["data"]), "until": s["until"], "timeout_ms": s["timeout_ms"]})
        sc.step_idx.append(len(ops) - 1)
    if sc.end == "close":
        ops.append({"op": "close", "conn": "c"})
        ops.append({"op": "wait_done", "conn": "c", "timeout_ms": WAIT_DONE_MS})
    else:
        ops.append({"op": "sleep", "ms": 1})
        ops.append({"op": "wait_done", "conn": "c", "timeout_ms": WAIT_SILENT_MS})
    sc.done_idx = len(ops) - 1
    ops.append({"op": "c20_deadline_log", "conn": "c"})
    ops.append({"op": "c20_census"})
    return ops


def imap_replies(recv):
    out = []
    for l in recv.split("\r\n"):
        if not l:
            continue
        if l.startswith("+ ") or l == "+":
            out.append("RCont")
        elif l.startswith("* BYE"):
            out.append("RBye")
        elif l.startswith("* BAD"):
            out.append("RStarBad")
        elif l.startswith("* ") or l.startswith("\x00"):
            continue
        else:
            out.append("RTag")
    return out


def lmtp_replies(recv):
    return [l[0] for l in recv.split("\n") if len(l) >= 4 and l[3] == " " and l[0].isdigit()]


def coq_case(sc, res):
    """Coq term: the verdict of one scenario given the implementation's observations"""
    obs = res["obs"]
    events = [e for s in sc.steps for e in s["events"]] + sc.tail
    cmp_steps = []
    for s, i in zip(sc.steps, sc.step_idx):
        if not s["compare"]:
            break
        cmp_steps.append((s, obs[i].get("recv", "")))
    # steps compared must be a prefix (sizes follow the event list)
    sizes = [str(len(s["events"])) for s, _ in cmp_steps]
    log = obs[sc.done_idx + 1].get("log", [])
    logt = C.coq_list(["%d%%N" % max(0, x) for x in log])
    if sc.proto == "imap":
        reps = C.coq_list([C.coq_list(imap_replies(r)) for _, r in cmp_steps])
        return "i_verdict %s %s %d %s [%s]%%nat %s %s" % (
            C.coq_bool(sc.kw["tls"]), C.coq_list(events), sc.gone_at, C.coq_bool(sc.end == "close"),
            ";".join(sizes), reps, logt)
    if sc.proto == "lmtp":
        reps = C.coq_list([C.coq_list(["%s%%N" % d for d in lmtp_replies(r)]) for _, r in cmp_steps])
        return "l_verdict (mk_lc %d%%Z 100 %d%%N) %s [%s]%%nat %s %s" % (
            sc.kw["max_size"], sc.kw["timeout_s"] * 1000, C.coq_list(events), ";".join(sizes), reps, logt)
    counts = C.coq_list([str(r.count("\n")) for _, r in cmp_steps])
    return "s_verdict %s [%s]%%nat %s%%nat %s" % (C.coq_list(events), ";".join(sizes), counts, logt)


def parse_nlist(txt):
    if txt is None:
        return None
    return [int(x) for x in re.findall(r"\d+", txt.replace("%N", ""))]


def build_scenarios(chk):
    rng = chk.rng
    scs = []
    thorough = chk.tier == "thorough"
    # every IMAP target with a disconnect; the silent ending where a compressed deadline makes it observable
    for t in IMAP_TARGETS_TLS:
        scs.append(imap_scenario(rng, t, True, "close"))
    for t in IMAP_TARGETS_PLAIN:
        scs.append(imap_scenario(rng, t, False, "close"))
    for t in ["fresh", "selected", "authwait", "literal", "literal_half", "idle", "idle_done"]:
        scs.append(imap_scenario(rng, t, True, "silent"))
    scs.append(imap_scenario(rng, "handshake_pending", False, "silent"))
    for t in ["authed", "selected", "idle_done", "fresh"]:
        scs.append(imap_scenario(rng, t, True, "partial"))
    extra = 60 if thorough else 6
    for _ in range(extra):
        tls = rng.random() < 0.8
        t = rng.choice(IMAP_TARGETS_TLS if tls else IMAP_TARGETS_PLAIN)
        e = rng.choice(["close", "close", "partial", "silent"])
        if e == "partial" and t not in PARTIAL_OK:
            e = "close"
        scs.append(imap_scenario(rng, t, tls, e))
    # the size announcements of APPEND (Sscanf corner cases): several draws per run
    for _ in range(40 if thorough else 4):
        scs.append(imap_scenario(rng, rng.choice(["append_refused", "append_oddsize"]), True, "close"))
    for t in LMTP_TARGETS:
        scs.append(lmtp_scenario(rng, t, "close"))
    for t in ["greeted", "rcpt", "middata", "delivered"]:
        scs.append(lmtp_scenario(rng, t, "silent"))
    for t in ["lhlo", "middata"]:
        scs.append(lmtp_scenario(rng, t, "partial"))
    for _ in range(30 if thorough else 2):
        scs.append(lmtp_scenario(rng, rng.choice(LMTP_TARGETS), rng.choice(["close", "partial", "silent"])))
    for t in SASL_TARGETS:
        scs.append(sasl_scenario(rng, t, "close"))
    for t in ["fresh", "cont"]:
        scs.append(sasl_scenario(rng, t, "silent"))
    scs.append(sasl_scenario(rng, "handshake", "partial"))
    for _ in range(12 if thorough else 0):
        scs.append(sasl_scenario(rng, rng.choice(SASL_TARGETS), rng.choice(["close", "partial", "silent"])))
    return scs


# ---------------------------------------------------------------------------
# service histories

def srv_history_ops(svc, hist):
    """hist: list of 'C' (connect), 'E' (end the oldest live session), 'S' (shutdown)."""
    ops = [{"op": "c20_srv_start", "srv": "s", "svc": svc, "timeout_s": 30}]
    live, n, idx = [], 0, []
    for e in hist:
        if e == "C":
            n += 1
            name = "k%d" % n
            ops.append({"op": "c20_srv_dial", "srv": "s", "conn": name})
            idx.append(("C", len(ops) - 1, name))
            if svc == "sasl":
                ops.append({"op": "send", "conn": name, "data": "VERSION\t1\t2\n", "until": "lines:1", "timeout_ms": 2000})
            live.append(name)
        elif e == "E":
            if live:
                name = live.pop(0)
                ops.append({"op": "close", "conn": name})
                ops.append({"op": "sleep", "ms": 250})
                ops.append({"op": "c20_srv_shutdown_wait", "srv": "s", "timeout_ms": 600})
                idx.append(("E", len(ops) - 1, name))
            else:
                idx.append(("E", None, None))
        else:
            ops.append({"op": "c20_srv_shutdown", "srv": "s", "timeout_ms": 700})
            idx.append(("S", len(ops) - 1, None))
    ops.append({"op": "c20_census"})
    return ops, idx


SRV_HISTORIES = {
    "lmtp": ["S", "CS", "CCSC", "SC", "CSEC", "SS", "CSSC", "CECSC"],
    "sasl": ["S", "CSE", "SC", "CCSEE", "CESC", "SSC", "CSEC", "CCESE"],
}


def run_one(o, timeout=90):
    import subprocess
    try:
        return C.run_ops(o, timeout=timeout)
    except subprocess.TimeoutExpired:
        return {"crashed": True, "stderr": "the driver did not finish the scenario within %d s" % timeout, "obs": []}


def run_all(ops, workers=10):
    from concurrent.futures import ThreadPoolExecutor
    C.build_driver()
    with ThreadPoolExecutor(max_workers=workers) as ex:
        return list(ex.map(run_one, ops))


def clone_with_ending(sc, ending):
    """the same command prefix (hence the same model state), another way of abandoning the session"""
    alt = Sc(sc.proto, **sc.kw)
    alt.steps = [s for s in sc.steps if s["compare"]]
    alt.desc = list(sc.desc[:-1])
    alt.target = sc.target
    alt.gone_at = sum(len(s["events"]) for s in alt.steps)
    alt.end = ending
    alt.tail = ["Timeout"] * 3 if ending == "silent" else ["Eof"] * 3
    return alt


def run(chk):
    findings = chk.findings
    scs = build_scenarios(chk)
    ops = [ops_of(sc) for sc in scs]

    # ---- fixed witnesses / shutdown scenarios, run in the same batch
    extra = {}
    def add(name, o):
        extra[name] = len(ops)
        ops.append(o)
    corpus = {}
    import glob, os
    for f in sorted(glob.glob(os.path.join(C.VERIF, "corpus", "C20", "*.json"))):
        d = json.load(open(f))
        corpus[d["class"]] = d
        add("corpus:" + d["class"], d["ops"])
    inflight = [
        {"op": "c20_srv_start", "srv": "s", "svc": "lmtp", "timeout_s": 30},
        {"op": "c20_srv_dial", "srv": "s", "conn": "a"},
        {"op": "send", "conn": "a", "data": "LHLO x\r\nMAIL FROM:<a@b.test>\r\nRCPT TO:<u1@example.com>\r\nDATA\r\n", "until": "lmtp:4"},
        {"op": "send", "conn": "a", "data": "From: a@b.test\r\nTo: u1@example.com\r\nSubject: c20-inflight-token\r\n\r\nhalf\r\n", "until": "quiet:50"},
        {"op": "c20_srv_shutdown", "srv": "s", "timeout_ms": 2000},
        {"op": "c20_srv_dial", "srv": "s", "conn": "b"},
        {"op": "send", "conn": "a", "data": "rest\r\n.\r\n", "until": "lmtp:1"},
        {"op": "dump"},
        {"op": "send", "conn": "a", "data": "QUIT\r\n", "until": "lmtp:1"},
        {"op": "c20_srv_start_returned", "srv": "s", "timeout_ms": 2000},
        {"op": "c20_census"},
    ]
    add("inflight", inflight)
    hist_idx = {}
    for svc, hs in SRV_HISTORIES.items():
        for h in hs:
            o, idx = srv_history_ops(svc, h)
            hist_idx[(svc, h)] = (len(ops), idx)
            ops.append(o)

    results = run_all(ops)
    for i, r in enumerate(results):
        if r.get("crashed"):
            chk.violation("the driver process did not survive / finish C20 scenario %d (%s): %s" % (
                i, " / ".join(scs[i].desc) if i < len(scs) else "service scenario", r.get("stderr", "")[:300]), {"suite": "crash", "ops": ops[i]})
            return

    # ---- model side
    body = C.COQ_CASE_HEADER + "From Raven Require Import Model.Lifecycle Model.LifecycleSrv Spec.Lifecycle.\n"
    body += "Definition verdicts : list N := Eval vm_compute in [\n%s].\nPrint verdicts.\n" % ";\n".join(
        coq_case(sc, res) for sc, res in zip(scs, results))
    hkeys = sorted(hist_idx)
    body += "Definition histories : list (list N) := Eval vm_compute in [\n%s].\nPrint histories.\n" % ";\n".join(
        "srv_codes %s %s" % ("SvcLMTP" if svc == "lmtp" else "SvcSASL",
                             C.coq_list([{"C": "Connect", "E": "SessionEnd", "S": "Shutdown"}[e] for e in h]))
        for (svc, h) in hkeys)
    rc, log = C.coq_eval_cases("C20", body)
    if rc != 0:
        chk.broken_obligation("in-Coq evaluation of the C20 cases failed:\n" + log[-2500:])
        return
    verdicts = parse_nlist(C.parse_coq_list_out(log, "verdicts"))
    if verdicts is None or len(verdicts) != len(scs):
        chk.broken_obligation("could not read the verdicts from Coq output:\n" + log[-1500:])
        return

    nd = 0
    states = set()
    for sc, res, v, o in zip(scs, results, verdicts, ops):
        obs = res["obs"]
        impl_done = obs[sc.done_idx].get("done") is True
        r_ok, l_ok, m_done, cls = bool(v & 1), bool(v & 2), bool(v & 4), v >> 3
        states.add((sc.proto, sc.target, sc.end))
        payload = {"suite": "lifecycle", "proto": sc.proto, "target": sc.target, "ending": sc.end, "steps": sc.desc,
                   "ops": o, "model_done": m_done, "impl_done": impl_done, "census": obs[-1]}
        chk.sample({"proto": sc.proto, "state": sc.target, "ending": sc.end, "steps": sc.desc[:8],
                    "impl_handler_returned": impl_done, "model_terminated": m_done})
        what = "%s session (%s), client %s in state '%s'" % (
            sc.proto.upper(), " / ".join(sc.desc[-6:]),
            "disconnected" if sc.end == "close" else "silent", sc.target)
        if not impl_done:
            # the property is violated on the implementation: the session did not end
            nd += 1
            name = CLASSES.get(cls)
            left = ", ".join("%s x%d" % kv for kv in sorted(obs[-1].get("in", {}).items()))
            chk.violation("%s: the handler goroutine had not returned after %d ms (still running: %s)" % (
                what, WAIT_DONE_MS if sc.end == "close" else WAIT_SILENT_MS, left), payload, cls=name)
            continue
        if cls:
            # inside a finding class but the implementation terminated: informational
            chk.notes.append("state '%s' (%s) is in finding class %s but the handler returned here" % (sc.target, sc.end, CLASSES.get(cls)))
            continue
        if not (r_ok and l_ok and m_done):
            nd += 1
            why = [] if r_ok else ["replies"]
            why += [] if l_ok else ["armed read deadlines %s" % obs[sc.done_idx + 1].get("log")]
            why += [] if m_done else ["termination (model: still running)"]
            # the spec (session ended) holds on this input; look for a failing neighbour: same prefix, other endings
            found = False
            if not l_ok and sc.proto == "imap" and sc.end == "close" and sc.gone_at == sum(len(s["events"]) for s in sc.steps):
                # a deadline the model does not know: is some read now unguarded? with the same prefix
                # (same model state, not in a finding class) silence must still end the session
                alt = clone_with_ending(sc, "silent")
                r2 = run_one(ops_of(alt), timeout=60)
                if not r2.get("crashed") and r2["obs"][alt.done_idx].get("done") is not True:
                    found = True
                    chk.violation("%s: with the client silent the handler had not returned after %d ms" % (what, WAIT_SILENT_MS),
                                  dict(payload, ops=ops_of(alt), ending="silent"))
            if not found:
                chk.broken_obligation("correspondence lifecycle no longer checks: implementation and model differ in %s on: %s" % (
                    ", ".join(why), what), payload)
    chk.cov["disagreements_checked"] = nd

    # ---- in-flight transaction around Shutdown
    ob = results[extra["inflight"]]["obs"]
    sd, late, fin, dump, quit_, started = ob[4], ob[5], ob[6], ob[7], ob[8], ob[9]
    p = {"suite": "inflight", "ops": inflight, "obs": [sd, late, fin, quit_, started]}
    if not sd.get("returned") or sd.get("panic"):
        chk.violation("lmtp.Shutdown did not return within 2 s with one transaction in flight (%s)" % sd, p)
    if late.get("refused") is not True:
        chk.violation("a connection was accepted after lmtp.Shutdown returned", p)
    acked = fin.get("recv", "").startswith("250")
    stored = any(st.get("links") and st.get("messages") for st in (dump.get("stores") or {}).values() if isinstance(st, dict))
    if acked and not stored:
        chk.violation("the transaction in flight at Shutdown was acknowledged with 250 but is not in the store", p)
    if not acked:
        chk.notes.append("in-flight transaction was not acknowledged after Shutdown (allowed): %r" % fin.get("recv", "")[:80])
    if started.get("returned") is not True:
        chk.violation("lmtp.Server.Start did not return after Shutdown and the end of the last session", p)

    # ---- service histories against the model
    hist_model = re.findall(r"\[([^\[\]]*)\]", C.parse_coq_list_out(log, "histories") or "")
    nh = 0
    for (svc, h), mtxt in zip(hkeys, hist_model):
        model = [int(x) for x in re.findall(r"\d+", mtxt.replace("%N", ""))]
        i, idx = hist_idx[(svc, h)]
        impl = srv_observed_fixup(idx, results[i]["obs"], model)
        nh += 1
        payload = {"suite": "srv", "svc": svc, "history": h, "ops": ops[i], "impl": impl, "model": model}
        if impl == model:
            if 5 in impl:
                chk.violation("lmtp.Shutdown called twice panics: %s" % next((x.get("panic") for x in results[i]["obs"] if x.get("panic")), ""),
                              payload, cls="lmtp_double_shutdown")
            continue
        # decide whether the property itself fails here
        bad = None
        seen_s = False
        k = 0
        for (kind, j, name) in idx:
            o = results[i]["obs"][j] if j is not None else {}
            if kind == "S":
                seen_s = True
                if o.get("panic") and "S" not in h[:k]:
                    bad = "the first Shutdown panicked: %s" % o.get("panic")
            if kind == "C" and seen_s and o.get("refused") is False:
                bad = "a connection was accepted after Shutdown"
            k += 1
        if bad:
            chk.violation("%s service, history %s: %s" % (svc, h, bad), payload)
        else:
            chk.broken_obligation("correspondence srv no longer checks: %s service, history %s: implementation %s, model %s" % (svc, h, impl, model), payload)

    # ---- corpus witnesses of the listed findings
    for cls, d in corpus.items():
        ob = results[extra["corpus:" + cls]]["obs"]
        fails = witness_fails(d, ob)
        if fails:
            chk.violation(fails, {"suite": "corpus", "class": cls, "ops": d["ops"]}, cls=cls)

    chk.cov["evaluations"] = len(scs) + nh + 1 + len(corpus)
    chk.cov["distinct_nontrivial"] = len(states)
    chk.cov["rule"] = ("one evaluation = one session driven into a protocol state by a command prefix and then abandoned "
                       "(close / line cut in the middle + close / silence), or one service history of connect/end/Shutdown; "
                       "distinct = distinct (protocol, target state, ending); non-trivial = at least the greeting was exchanged and the "
                       "handler's return, its replies and every read deadline it armed were compared with the model evaluated in Coq")
    chk.cov["traces_validated_against_impl"] = len(scs) + nh
    chk.cov["imap_sessions"] = sum(1 for s in scs if s.proto == "imap")
    chk.cov["lmtp_sessions"] = sum(1 for s in scs if s.proto == "lmtp")
    chk.cov["sasl_sessions"] = sum(1 for s in scs if s.proto == "sasl")
    chk.cov["service_histories"] = nh
    chk.cov["endings"] = {e: sum(1 for s in scs if s.end == e) for e in ("close", "silent")}
    chk.notes.append("resource release is observed (handler goroutine returned; goroutine census by stack), not proved; "
                     "deadlines of 10 s and more are compressed by the recording pipe (30 min -> 3 s, 5 min -> 1.5 s, 30 s -> 1 s) and compared as requested durations")


def srv_observed_fixup(idx, obs, model):
    """the blocked Shutdown's return is observed at the SessionEnd step (c20_srv_shutdown_wait)"""
    out = []
    pending = False
    for kind, i, name in idx:
        o = obs[i] if i is not None else {}
        if kind == "C":
            ok = (o.get("refused") is False) and (o.get("how", "ok") == "ok")
            out.append(0 if ok else 1)
        elif kind == "E":
            if i is None:
                out.append(6)
                continue
            out.append(2)
            if pending and o.get("returned") is True:
                out.append(3)
                pending = False
        else:
            if o.get("panic"):
                out.append(5)
            elif o.get("returned"):
                out.append(3)
            else:
                out.append(4)
                pending = True
    return out


def witness_fails(d, ob):
    """does the corpus witness still violate the property? -> description or None"""
    k = d["kind"]
    if k == "not_done":
        o = ob[d["done_index"]]
        if o.get("done") is False:
            c = ob[-1].get("in", {})
            return "%s (still running: %s)" % (d["what"], ", ".join("%s x%d" % kv for kv in sorted(c.items())))
        return None
    if k == "double_shutdown":
        o = ob[d["index"]]
        return ("%s: %s" % (d["what"], o.get("panic"))) if o.get("panic") else None
    if k == "shutdown_blocked":
        o = ob[d["index"]]
        return d["what"] if o.get("returned") is False else None
    return None


def replay(path):
    d = json.load(open(path))
    if "ops" in d:
        r = C.run_ops(d["ops"], timeout=120)
        print(json.dumps(r, indent=1)[:6000])
    else:
        print(json.dumps(d, indent=1))
    return 0
