"""C01 — An LMTP acceptance is a durable, per-recipient promise.

Correspondence suite "deliver": a random prior history of the target mailbox
(LMTP deliveries, APPEND, UID COPY/COPY, UID STORE incl. Junk moves, EXPUNGE,
CLOSE, CREATE, DELETE, RENAME incl. RENAME INBOX — the generator and the
history digest of checks/c03.py), then one to three LMTP transactions with
several recipients (the user with the history, new users, an other-domain
twin, a role address, duplicates, malformed addresses) and a message whose
library-level outcome is known by construction (checks/c01_msgs.py), then a
fresh IMAP session per recipient store: STATUS, SELECT, UID FETCH 1:* BODY.PEEK[].

Compared inside Coq (vm_compute) with Model/Deliver.v run on the same world:
reply code per position, and per store the tables mailboxes(id,name,uid_next),
message_mailbox(id,message_id,mailbox_id,uid), messages(id,#headers,#parts).
An independent, observation-only reading of the property is evaluated in
Python on replies + dumps + fetched literals; its verdicts are classified by
the narrow finding classes of known_findings/C01.txt."""
import glob
import json
import os
import re

import common as C
import c01_msgs as M
import c03

PID = "C01"
U = "u@example.com"
V1 = "v@example.com"
V2 = "u@other.org"
R1 = "sales@example.com"
DIS = "dis@example.com"        # a user that exists and is disabled: only offered when reject_unknown_user is on
BAD = ["bad", "x@y@z"]
ROLES = [R1]
BIG = 52428800
DEFAULT_CFG = {"folder": "INBOX"}


def cfg_of(t):
    """configuration of a transaction with the defaults of config.DefaultConfig filled in"""
    c = dict(DEFAULT_CFG)
    c.update(t.get("cfg") or {})
    if "conn" in t and "cfg" not in t:          # corpus files of the first rounds
        c["folder"] = {"la": "INBOX", "lb": "D"}[t["conn"]]
    return c


def folder_of(t):
    return cfg_of(t)["folder"]
CLASS_NAMES = {2: "dup_rcpt_last_result"}   # retired: 1 = single_554 (raven aeac4b2), 3 = noboundary_unfetchable (raven f7e0490)


# --------------------------------------------------------------------------
# scenario -> driver ops

def dot_stuff(raw):
    """what an LMTP client sends for the message text: a line starting with "." gets one more"""
    return "".join(("." + l) if l.startswith(".") else l for l in raw.splitlines(True))


def build_ops(hist, txns):
    ops, index = c03.driver_ops(hist)
    nh = len(ops)
    ops += [{"op": "role_create", "email": R1}, {"op": "role_assign", "user": U, "role": 1},
            {"op": "c17_user_create", "name": "dis", "domain": "example.com"},
            {"op": "c17_user_disable", "name": "dis", "domain": "example.com"},
            {"op": "dump"}]
    pre = len(ops) - 1
    tpos = []
    for i, t in enumerate(txns):
        c = cfg_of(t)
        o = {"op": "lmtp_open", "conn": "t%d" % i, "default_folder": c["folder"]}
        for k in ("max_size", "max_recipients", "quota_enabled", "quota_limit", "reject_unknown_user", "allowed_domains"):
            if k in c:
                o[k] = c[k]
        ops.append(o)
        ops.append({"op": "send", "conn": "t%d" % i, "data": "LHLO x\r\n", "until": "lmtp:1"})
        pos = {"prevdump": pre if not tpos else tpos[-1]["dump"]}
        ops.append({"op": "c01_usage"})
        pos["usage"] = len(ops) - 1
        if t.get("fault"):
            # another connection holds shared.db's write lock while the message is stored: every
            # write to the blobs table fails after the 5 s busy timeout, reads and the per-user store work
            ops.append({"op": "db_lock"})
        ops.append({"op": "c01_txn", "conn": "t%d" % i, "from": "a@example.com", "rcpts": t["rs"], "data": dot_stuff(t["msg"]["raw"]),
                    "timeout_ms": 90000 if t.get("fault") else 8000})
        pos["txn"] = len(ops) - 1
        if t.get("fault"):
            ops.append({"op": "db_unlock"})
        ops.append({"op": "dump"})
        pos["dump"] = len(ops) - 1
        ops.append({"op": "c01_parts"})
        pos["parts"] = len(ops) - 1
        tpos.append(pos)
    # fresh IMAP sessions: one per user store, the role store through its assignee
    fpos = []
    who = [("user", U, U, ""), ("user", V1, V1, ""), ("user", V2, V2, ""), ("role", R1, U, "Roles/%s/" % R1)]
    for n, (kind, addr, login, prefix) in enumerate(who):
        c = "f%d" % n
        ops.append({"op": "open", "conn": c})
        ops.append({"op": "send", "conn": c, "data": "g LOGIN %s pw\r\n" % login, "until": "tag:g"})
        for fo in ("INBOX", "D", "Spam"):
            tag = "s%d%s" % (n, fo[0])
            ops.append({"op": "send", "conn": c, "data": "%sa STATUS %s%s (MESSAGES UIDNEXT)\r\n" % (tag, prefix, fo), "until": "tag:%sa" % tag})
            ops.append({"op": "send", "conn": c, "data": "%sb SELECT %s%s\r\n" % (tag, prefix, fo), "until": "tag:%sb" % tag})
            ops.append({"op": "send", "conn": c, "data": "%sc UID FETCH 1:* (UID BODY.PEEK[])\r\n" % tag, "until": "tag:%sc" % tag, "timeout_ms": 15000})
            fpos.append((addr, kind, fo, tag, len(ops) - 3))
    return ops, nh, pre, tpos, fpos


# --------------------------------------------------------------------------
# dumps

def key_of_store(name, sh):
    m = re.match(r"user_db_(\d+)$", name)
    if m:
        for r in sh.get("users") or []:
            if r[0] == int(m.group(1)):
                return ("user", r[1], r[2])
    m = re.match(r"role_db_(\d+)$", name)
    if m:
        for r in sh.get("roles") or []:
            if r[0] == int(m.group(1)):
                return ("role", r[1])
    return None


def stores_by_key(dump):
    st = dump.get("stores", {})
    sh = st.get("shared", {})
    out = {}
    for name, s in st.items():
        if name == "shared":
            continue
        k = key_of_store(name, sh)
        if k is not None:
            out[k] = s
    return out


def key_of_rcpt(r):
    """independent reading: an address names a store iff it has exactly one '@'"""
    p = r.split("@")
    if len(p) != 2:
        return None
    return ("role", r) if r in ROLES else ("user", p[0], p[1])


def coq_key(k):
    if k[0] == "user":
        return "(KUser %s %s)" % (C.coq_str(k[1]), C.coq_str(k[2]))
    return "(KRole %s)" % C.coq_str(k[1])


def coq_parsed(m, fault=False):
    sh = m["shape"]
    s = {"single": "Single", "nob": "MultiNoBoundary", "broken": "MultiBroken"}.get(sh) if isinstance(sh, str) else "(MultiB %d)" % sh[1]
    return "(mkParsed %s %s %d %s %d %s)" % (C.coq_bool(m["p_ok"]), C.coq_bool(m["spam"]), m["hdrs"], s, m.get("big", 0), C.coq_bool(fault))


def coq_store_obs(k, s):
    mbs = C.coq_list(["(%d, %s, %d)" % (m[0], C.coq_str(m[2]), m[4]) for m in (s.get("mailboxes") or [])])
    lks = C.coq_list(["(%d, %d, %d, %d)" % (l[0], l[1], l[2], l[3]) for l in (s.get("links") or [])])
    gs = C.coq_list(["(%d, %d, %d, %d, %d)" % (g[0], g[1], g[2], g[3] if len(g) > 3 else 0, g[4] if len(g) > 4 else 0) for g in (s.get("messages") or [])])
    return "(%s, %s, %s, %s)" % (coq_key(k), mbs, lks, gs)


def codes_of(final):
    out = []
    for l in final or []:
        m = re.match(r"(\d\d\d)[ -]", l)
        out.append(int(m.group(1)) if m else 0)
    return out


# --------------------------------------------------------------------------
# one executed scenario

class Scen:
    def __init__(self, hist, txns, res):
        self.hist, self.txns, self.res = hist, txns, res
        self.trouble = None
        self.viol = []          # (txn index, kind, detail, narrow class or None)
        self.positions = 0
        self.accepted = 0
        self.digest()

    @staticmethod
    def with_parts(dump, parts):
        """stores by key; every messages row (id, #headers, #parts) extended by (#parts with a blob, #parts without octets)"""
        st = dump.get("stores", {})
        sh = st.get("shared", {})
        out = stores_by_key(dump)
        for name, rows in (parts.get("parts") or {}).items():
            k = key_of_store(name, sh)
            if k in out:
                extra = {r[0]: (int(r[1] or 0), int(r[2] or 0)) for r in rows or []}
                out[k] = dict(out[k], messages=[list(g[:3]) + list(extra.get(g[0], (0, 0))) for g in (out[k].get("messages") or [])])
        return out

    def digest(self):
        if self.res.get("crashed"):
            self.trouble = "driver crashed: %s" % self.res.get("stderr", "")[-300:]
            return
        ops, nh, pre, tpos, fpos = build_ops(self.hist, self.txns)
        obs = self.res["obs"]
        if len(obs) != len(ops):
            self.trouble = "driver returned %d observations for %d ops" % (len(obs), len(ops))
            return
        for o in obs:
            if o.get("how") in ("timeout", "eof", "write-error") or "panic" in o or "error" in o or str(o.get("how", "")).split(":")[0] in ("mail", "rcpt", "data", "rset"):
                self.trouble = "driver step did not complete: %s" % json.dumps(o)[:300]
                return
        self.h = c03.Scenario(self.hist, {"obs": obs[:nh]})
        if self.h.trouble:
            self.trouble = "history: " + self.h.trouble
            return
        self.dumps = [stores_by_key(obs[pre])] + [self.with_parts(obs[p["dump"]], obs[p["parts"]]) for p in tpos]
        self.codes = [codes_of(obs[p["txn"]].get("final")) for p in tpos]
        self.finals = [obs[p["txn"]].get("final") for p in tpos]
        # the recipients accepted at RCPT time (250): the positions of the transaction
        self.rcpt_codes = [codes_of(obs[p["txn"]].get("rcpt")) for p in tpos]
        self.acc = [[r for r, c in zip(t["rs"], rc) if c == 250] for t, rc in zip(self.txns, self.rcpt_codes)]
        # the quota verdict, measured: usage of the store the recipient would be filed into when the
        # message arrives (role store | store of the enabled user | nothing yet) + size > limit
        self.over = []
        for ti, (t, p) in enumerate(zip(self.txns, tpos)):
            c = cfg_of(t)
            ov = []
            if c.get("quota_enabled"):
                sh = obs[p["prevdump"]]["stores"].get("shared", {})
                usage = {}
                for name, v in (obs[p["usage"]].get("usage") or {}).items():
                    k = key_of_store(name, sh)
                    if k is not None:
                        usage[k] = int(v)
                enabled = set(("user", r[1], r[2]) for r in (sh.get("users") or []) if r[3] in (1, True))
                for r in sorted(set(self.acc[ti])):
                    k = key_of_rcpt(r)
                    u = usage.get(k, 0) if (k is not None and (k[0] == "role" or k in enabled)) else 0
                    if u + len(t["msg"]["raw"]) > c.get("quota_limit", 1073741824):
                        ov.append(r)
            self.over.append(ov)
        # fetched literals and STATUS counts: (key, folder) -> {uid: literal}
        self.fetch, self.status = {}, {}
        for (addr, kind, fo, tag, p) in fpos:
            k = key_of_rcpt(addr)
            st = re.search(r"\* STATUS \S+ \(MESSAGES (\d+) UIDNEXT (\d+)\)", obs[p]["recv"])
            if st:
                self.status[(k, fo)] = (int(st.group(1)), int(st.group(2)))
            sel_ok = re.search(r"^%sb OK" % tag, obs[p + 1]["recv"], re.M) is not None
            if not sel_ok:
                continue
            txt = obs[p + 2]["recv"]
            d = {}
            for mm in re.finditer(r"\* \d+ FETCH \(UID (\d+) BODY\[\] \{(\d+)\}\r\n", txt):
                n = int(mm.group(2))
                d[int(mm.group(1))] = txt[mm.end():mm.end() + n]
            self.fetch[(k, fo)] = d
        self.oracle()

    # ---- observation-only reading of the property
    def oracle(self):
        final = self.dumps[-1]
        for ti, t in enumerate(self.txns):
            pre, post = self.dumps[ti], self.dumps[ti + 1]
            codes, rs, msg = self.codes[ti], self.acc[ti], t["msg"]
            target = "Spam" if msg["spam"] else folder_of(t)
            self.positions += len(rs)
            keys = set(pre) | set(post)
            new, gone = {}, {}
            for k in keys:
                a = set(tuple(l[:4]) for l in (pre.get(k, {}).get("links") or []))
                b = set(tuple(l[:4]) for l in (post.get(k, {}).get("links") or []))
                new[k], gone[k] = sorted(b - a), sorted(a - b)
                if gone[k]:
                    self.viol.append((ti, "links_removed", "the transaction removed links %r from store %r" % (gone[k], k), None))
            if len(codes) != len(rs):
                self.viol.append((ti, "reply_count", "%d recipients, %d replies %r" % (len(rs), len(codes), codes), None))
                if any(new.values()):
                    self.viol.append((ti, "stored_without_acceptance", "links were added although no recipient was accepted: %r" % new, None))
                continue
            acc = {}
            for i, r in enumerate(rs):
                if 200 <= codes[i] < 300:
                    k = key_of_rcpt(r)
                    if k is None:
                        self.viol.append((ti, "accepted_undeliverable", "position %d <%s> answered %d but names no store" % (i, r, codes[i]), None))
                    else:
                        acc.setdefault(k, []).append(i)
                        self.accepted += 1
            for k in keys:
                want = len(acc.get(k, []))
                if len(new[k]) != want:
                    dup = any(rs.count(r) > 1 for r in rs if key_of_rcpt(r) == k)
                    self.viol.append((ti, "count", "store %r: %d positions answered 2xx (%r), %d new messages" % (k, want, acc.get(k, []), len(new[k])),
                                      "dup_rcpt_last_result" if dup else None))
                mbn = {mb[0]: mb[2] for mb in (post.get(k, {}).get("mailboxes") or [])}
                mbn_final = {mb[0]: mb[2] for mb in (final.get(k, {}).get("mailboxes") or [])}
                rows = {g[0]: g for g in (post.get(k, {}).get("messages") or [])}
                for l in new[k]:
                    if mbn.get(l[2]) != target:
                        self.viol.append((ti, "wrong_folder", "store %r: new message lies in %r, the target folder is %r" % (k, mbn.get(l[2]), target), None))
                    g = rows.get(l[1])
                    body = self.fetch.get((k, mbn_final.get(l[2])), {}).get(l[3])
                    if body is None:
                        self.viol.append((ti, "not_listed", "store %r: UID FETCH 1:* in %r does not list the accepted message (UID %d)" % (k, mbn_final.get(l[2]), l[3]), None))
                        continue
                    miss = [tk for tk in msg["tokens"] if tk not in body]
                    if g is not None and len(g) > 4 and g[4] > 0:
                        self.viol.append((ti, "part_without_octets", "store %r UID %d in %s: %d part row(s) with neither a blob nor inline content although the part had a size" % (
                            k, l[3], mbn_final.get(l[2]), g[4]), None))
                    if g is None or g[2] == 0 or body == "" or miss:
                        cls = None
                        self.viol.append((ti, "unfetchable", "store %r UID %d in %s: %s (part rows %s, literal of %d bytes)" % (
                            k, l[3], mbn_final.get(l[2]), "BODY[] is empty" if body == "" else "BODY[] lacks %r" % [tk if len(tk) <= 48 else "%s...(%d octets)" % (tk[:24], len(tk)) for tk in miss[:3]], g[2] if g else None, len(body)), cls))
        # STATUS tells what the dump holds
        for (k, fo), (n, nx) in self.status.items():
            s = final.get(k)
            if not s:
                continue
            for mb in s.get("mailboxes") or []:
                if mb[2] == fo:
                    cnt = sum(1 for l in (s.get("links") or []) if l[2] == mb[0])
                    if cnt != n:
                        self.viol.append((len(self.txns) - 1, "status", "STATUS %s of %r says MESSAGES %d, the store holds %d" % (fo, k, n, cnt), None))

    # ---- Coq term
    def coq_term(self):
        hist = "(run %s %s)" % (C.coq_list(self.h.model_ops), self.h.init)
        w = "(mkW %s [(%s, mkU %s []); (%s, mkU (init 0) []); (%s, mkU (init 0) [])])" % (
            C.coq_list([C.coq_str(r) for r in ROLES]), coq_key(key_of_rcpt(U)), hist, coq_key(("role", R1)), coq_key(key_of_rcpt(DIS)))
        ts = []
        for ti, t in enumerate(self.txns):
            c = cfg_of(t)
            ts.append("(mkCfg %s %s %s, %s, %s, %s, %s)" % (C.coq_str(c["folder"]), C.coq_z(c.get("max_size", BIG)), C.coq_bool(c.get("quota_enabled", False)),
                                                          C.coq_list([C.coq_str(r) for r in self.over[ti]]),
                                                          C.coq_list([C.coq_str(r) for r in self.acc[ti]]), coq_parsed(t["msg"], bool(t.get("fault"))), C.coq_z(len(t["msg"]["raw"]))))
        ts = C.coq_list(ts)
        os_ = []
        for ti in range(len(self.txns) + 1):
            codes = [] if ti == 0 else self.codes[ti - 1]
            d = self.dumps[ti]
            os_.append("(%s, %s)" % (C.coq_list(["%d" % c for c in codes]), C.coq_list([coq_store_obs(k, d[k]) for k in sorted(d)])))
        return "(%s,\n %s,\n %s)" % (w, ts, C.coq_list(os_))


COQ_EVAL = """From Raven Require Import Model.Store Model.Ops Model.Deliver Spec.DeliverSpec Model.DeliverView.
Local Open Scope Z_scope.
(* element 0: does the model's world agree with the dump BEFORE the first transaction *)
Definition eval_sc (sc : world * list txn * list txn_obs) : list (Z * Z * list Z) :=
  let '(w, ts, os) := sc in
  match os with
  | (_, sobs) :: rest => (first_nonzero (map (store_agrees w) sobs), 0, []) :: eval_txns w ts rest
  | [] => []
  end.
"""


def evaluate(scens, name):
    body = C.COQ_CASE_HEADER + COQ_EVAL
    for i, sc in enumerate(scens):
        body += "Definition sc_%d : world * list txn * list txn_obs :=\n %s.\n" % (i, sc.coq_term())
        body += "Definition res_%d := Eval vm_compute in eval_sc sc_%d.\nPrint res_%d.\n" % (i, i, i)
    rc, log = C.coq_eval_cases(name, body)
    if rc != 0:
        return None, log
    out = []
    for i in range(len(scens)):
        txt = C.parse_coq_list_out(log, "res_%d" % i)
        if txt is None:
            return None, log
        tup = re.findall(r"\(\s*(-?\d+),\s*(-?\d+),\s*\[([^\]]*)\]\s*\)", txt.replace("%Z", ""))
        out.append([(int(a), int(b), [int(x) for x in c.split(";") if x.strip()]) for a, b, c in tup])
    return out, log


# --------------------------------------------------------------------------
# generators

def gen_rs(rng, with_disabled):
    pool = [U, U, U, V1, V2, R1, R1] + BAD + ([DIS, DIS] if with_disabled else [])
    n = rng.choice([1, 1, 2, 2, 3, 4, 5])
    rs = [rng.choice(pool) for _ in range(n)]
    if rng.random() < 0.35:
        rs.insert(rng.randint(0, len(rs)), rng.choice(rs))       # a duplicate
    return rs


def gen_fault_txn(rng, tag):
    """the fault dimension: writes to shared.db's blobs table fail while the message is stored
    (a second connection holds BEGIN IMMEDIATE; every blob write costs the 5 s busy timeout),
    reads of shared.db and the per-user / role store work.  Recipients whose stores and
    shared rows exist already; a message with one or two out-of-line parts (or none: control)."""
    while True:
        msg = M.gen_message(rng, tag, rng.choice(["single_big", "single_big", "multi_big", "multi", "single"]))
        if msg.get("big", 0) <= 2:
            break
    rs = rng.choice([[U], [U], [R1], [U, R1], [U, U], [U, "bad"]])
    c = {"folder": rng.choice(["INBOX", "D"])}
    kinds = ["blob_write_fails"]
    if rng.random() < 0.3:
        c["quota_enabled"], c["quota_limit"] = True, 20 * BIG
        kinds.append("quota_far")
    return {"cfg": c, "cfg_kinds": kinds, "rs": rs, "msg": msg, "fault": True}


def gen_txn(rng, tag, earlier_sizes):
    """one transaction: message, recipients and a configuration. The configuration
    dimension: default folder; quota_enabled x quota_limit (far above / just above /
    just below the message size / hopeless / filled by the scenario's earlier
    deliveries); max_size at, just below, just above the message size;
    max_recipients at / below the recipient count; reject_unknown_user (unknown
    users, a role address, a disabled user, a malformed address); allowed_domains."""
    msg = M.gen_message(rng, tag)
    size = len(msg["raw"])
    c = {"folder": rng.choice(["INBOX", "INBOX", "D"])}
    kinds = []
    if rng.random() < 0.65:
        if rng.random() < 0.45:
            c["quota_enabled"] = True
            how = rng.choice(["far", "above", "below", "hopeless", "filled"])
            c["quota_limit"] = {"far": 20 * BIG, "above": size + 64, "below": max(1, size - 1), "hopeless": 1,
                                "filled": max(1, sum(earlier_sizes) + size // 2)}[how]
            kinds.append("quota_" + how)
        if rng.random() < 0.25:
            how = rng.choice(["at", "under", "over"])
            c["max_size"] = {"at": size, "under": size - 1, "over": size + 1}[how]
            kinds.append("max_size_" + how)
        if rng.random() < 0.25:
            c["reject_unknown_user"] = True
            kinds.append("reject_unknown_user")
        if rng.random() < 0.25:
            c["allowed_domains"] = rng.choice([["example.com"], ["other.org"], ["example.com", "other.org"], ["nowhere.test"]])
            kinds.append("allowed_domains")
    rs = gen_rs(rng, c.get("reject_unknown_user", False))
    if rng.random() < 0.2:
        how = rng.choice(["at", "under", "one"])
        c["max_recipients"] = {"at": len(rs), "under": max(1, len(rs) - 1), "one": 1}[how]
        kinds.append("max_recipients_" + how)
    return {"cfg": c, "cfg_kinds": kinds or ["default"], "rs": rs, "msg": msg}


DIRECTED = [
    # deliver, copy INBOX -> INBOX (left uid_next behind before raven 02d2f67)
    [{"k": "deliver", "folder": "INBOX"}, {"k": "select", "s": "c1", "name": "INBOX"},
     {"k": "uidcopy", "s": "c1", "set": [["one", 1]], "dest": "INBOX"}],
    # a gap: deliver, copy twice, expunge the first copy
    [{"k": "deliver", "folder": "INBOX"}, {"k": "select", "s": "c1", "name": "INBOX"},
     {"k": "uidcopy", "s": "c1", "set": [["one", 1]], "dest": "INBOX"}, {"k": "uidcopy", "s": "c1", "set": [["one", 1]], "dest": "INBOX"},
     {"k": "uidstore", "s": "c1", "set": [["one", 2]], "mode": "+", "flags": ["\\Deleted"]}, {"k": "expunge", "s": "c1"}],
    # RENAME INBOX with messages, then deliveries into the new INBOX
    [{"k": "deliver", "folder": "INBOX"}, {"k": "append", "s": "c1", "folder": "INBOX", "flags": []},
     {"k": "rename", "s": "c1", "old": "INBOX", "new": "A"}],
    # Junk move into Spam leaves Spam stale; spam messages go there
    [{"k": "append", "s": "c1", "folder": "INBOX", "flags": []}, {"k": "select", "s": "c1", "name": "INBOX"},
     {"k": "uidstore", "s": "c1", "set": [["one", 1]], "mode": "+", "flags": ["Junk"]}],
    # delete and re-create the delivery folder D
    [{"k": "deliver", "folder": "D"}, {"k": "delete", "s": "c1", "name": "D"}, {"k": "create", "s": "c1", "name": "D"}],
    [],
]


def gen_scenario(rng, n, hist_len, copy_ok, fault_every=12):
    r = rng.random()
    if r < 0.3:
        hist = [dict(s) for s in rng.choice(DIRECTED)]
    else:
        hist = c03.gen_history(rng, rng.randint(0, hist_len), rng.random() < 0.3, copy_ok)
    txns = []
    for j in range(rng.choice([1, 2, 2, 3])):
        txns.append(gen_txn(rng, "%dx%d" % (n, j), [len(t["msg"]["raw"]) for t in txns]))
    if n % fault_every == 0:
        # one transaction of this scenario runs under the blob-write fault (costs 5 s per out-of-line
        # part and recipient: few of them, spread over the parallel workers)
        txns.insert(rng.randint(0, len(txns)), gen_fault_txn(rng, "%dxf" % n))
    return hist, txns


def run_scens(items, workers=12):
    res = C.run_many([build_ops(h, t)[0] for (h, t) in items], workers=workers, timeout=300)
    scens = [Scen(h, t, r) for (h, t), r in zip(items, res)]
    for i, sc in enumerate(scens):
        if sc.trouble:
            h, t = items[i]
            scens[i] = Scen(h, t, C.run_ops(build_ops(h, t)[0], timeout=300))
    return scens


# --------------------------------------------------------------------------
# judgement

def neighbourhood(sc):
    """variants of a scenario on which model and implementation disagreed: the
    recipients doubled, the message replaced by the basic shapes"""
    import random
    rng = random.Random(len(json.dumps(sc.txns)))
    out = []
    out.append((sc.hist, [dict(t, rs=t["rs"] + t["rs"]) for t in sc.txns]))
    for kind in ("single", "multi", "nob"):
        out.append((sc.hist, [dict(t, msg=M.gen_message(rng, "n%d" % i, kind)) for i, t in enumerate(sc.txns)]))
    return out


def judge(chk, sc, ev, origin, stats):
    payload = {"suite": "deliver", "origin": origin, "hist": sc.hist, "txns": sc.txns}
    unclassified = 0
    pre_ok = ev[0][0] == 0
    for (ti, kind, detail, cls) in sc.viol:
        e = ev[ti + 1] if ti + 1 < len(ev) else None
        if cls == "dup_rcpt_last_result" and not (e and e[1] == 2):
            cls = None            # the narrow class needs the classifier's agreement
        if cls is not None:
            stats["known"][cls] = stats["known"].get(cls, 0) + 1
        else:
            unclassified += 1
        t = sc.txns[ti]
        chk.violation("transaction %d (%s, cfg %r, accepted recipients %r, replies %r): %s: %s" % (ti, t["msg"]["kind"], t.get("cfg") or cfg_of(t), sc.acc[ti], sc.codes[ti], kind, detail),
                      dict(payload, txn=ti, finals=sc.finals[ti]), cls=cls)
    if not pre_ok:
        stats["hist_mismatch"] += 1
        return
    bad = [(i, e) for i, e in enumerate(ev[1:]) if e[0] != 0]
    if bad:
        stats["diff"] += 1
        if unclassified == 0:
            i, e = bad[0]
            names = {1: "reply codes", 2: "table mailboxes", 3: "table message_mailbox", 4: "table messages (header/part rows)",
                     5: "a store the model does not have", 6: "a store the implementation does not have"}
            found = False
            for nsc in run_scens(neighbourhood(sc)):
                if nsc.trouble:
                    continue
                for (ti, kind, detail, cls) in nsc.viol:
                    if cls is None:
                        found = True
                        t = nsc.txns[ti]
                        chk.violation("near a model/implementation disagreement: transaction %d (%s, recipients %r, replies %r): %s: %s" % (
                            ti, t["msg"]["kind"], nsc.acc[ti], nsc.codes[ti], kind, detail),
                            {"suite": "deliver", "origin": origin + "/neighbourhood", "hist": nsc.hist, "txns": nsc.txns, "txn": ti})
                        break
                if found:
                    break
            if not found:
                chk.broken_obligation("correspondence deliver no longer checks: model (Model/Deliver.v) and implementation differ in %s after transaction %d (%s, recipients %r): observed replies %r, model %r; no violation of the property itself was observed here or in the neighbourhood" % (
                    names.get(e[0], "?"), i, sc.txns[i]["msg"]["kind"], sc.acc[i], sc.codes[i], e[2]), dict(payload, txn=i, code=e[0]))
    else:
        # model == implementation: the Coq classifier and the observation-only oracle must agree
        for ti in range(len(sc.txns)):
            ccls = ev[ti + 1][1]
            ocls = set(v[3] for v in sc.viol if v[0] == ti)
            if ccls == 0 and any(v[0] == ti for v in sc.viol):
                pass        # already reported as violation above (unclassified) or narrow python class
            if ccls != 0 and not any(v[0] == ti for v in sc.viol):
                stats["spec_disagree"] += 1
                chk.notes.append("classifier says %s, the observation-only oracle saw no violation (%s, %r)" % (CLASS_NAMES.get(ccls), sc.txns[ti]["msg"]["kind"], sc.acc[ti]))
            if ccls == 0:
                stats["clean"] += 1
                if not any(v[0] == ti for v in sc.viol):
                    stats["clean_ok"] += 1


def corpus_items():
    out = []
    for f in sorted(glob.glob(os.path.join(C.VERIF, "corpus", PID, "*.json"))):
        d = json.load(open(f))
        out.append((os.path.basename(f), d))
    return out


def run(chk):
    quick = chk.tier == "quick"
    copy_ok = c03.probe_copy()
    stats = {"known": {}, "diff": 0, "clean": 0, "clean_ok": 0, "spec_disagree": 0, "hist_mismatch": 0}
    # ---- 1. corpus
    corp = corpus_items()
    scens = run_scens([(d["hist"], d["txns"]) for _, d in corp])
    bad = [sc for sc in scens if sc.trouble]
    if bad:
        chk.broken_obligation("corpus witness could not be replayed: " + bad[0].trouble, {"suite": "corpus"})
        return
    if scens:
        evs, log = evaluate(scens, PID + "_corpus")
        if evs is None:
            chk.broken_obligation("in-Coq evaluation of the C01 corpus failed:\n" + log[-2000:])
            return
        for (fname, d), sc, ev in zip(corp, scens, evs):
            judge(chk, sc, ev, "corpus/" + fname, stats)
    n_eval = sum(sc.positions for sc in scens)
    n_txn = sum(len(sc.txns) for sc in scens)
    accepted = sum(sc.accepted for sc in scens)
    # ---- 2. generated scenarios
    n_scen, hist_len = (84, 14) if quick else (1500, 30)
    items = [gen_scenario(chk.rng, i, hist_len, copy_ok) for i in range(n_scen)]
    kinds, rk, combos, cfgk = {}, {}, set(), {}
    refused_rcpt = oversize = over_q = faults = fault_inline = 0
    batch = 48
    sample_done = False
    for b in range(0, len(items), batch):
        part = items[b:b + batch]
        scens = run_scens(part)
        good = []
        for (h, t), sc in zip(part, scens):
            if sc.trouble:
                chk.broken_obligation("scenario could not be run: " + sc.trouble, {"suite": "deliver", "hist": h, "txns": t})
            else:
                good.append(sc)
        if not good:
            continue
        evs, log = evaluate(good, "%s_%d" % (PID, b))
        if evs is None:
            chk.broken_obligation("in-Coq evaluation of the C01 cases failed:\n" + log[-2000:])
            return
        for sc, ev in zip(good, evs):
            judge(chk, sc, ev, "generated", stats)
            n_eval += sc.positions
            n_txn += len(sc.txns)
            accepted += sc.accepted
            for ti, t in enumerate(sc.txns):
                kinds[t["msg"]["kind"]] = kinds.get(t["msg"]["kind"], 0) + 1
                for r in t["rs"]:
                    rk[r] = rk.get(r, 0) + 1
                if t.get("fault"):
                    faults += 1
                    g_new = [g for k_ in sc.dumps[ti + 1] for g in (sc.dumps[ti + 1][k_].get("messages") or [])
                             if g[0] not in set(x[0] for x in (sc.dumps[ti].get(k_, {}).get("messages") or []))]
                    fault_inline += sum(1 for g in g_new if len(g) > 3 and g[3] == 0) if t["msg"].get("big", 0) > 0 else 0
                for ck in t.get("cfg_kinds", ["default"]):
                    cfgk[ck] = cfgk.get(ck, 0) + 1
                refused_rcpt += len(t["rs"]) - len(sc.acc[ti])
                over_q += sum(1 for r in sc.acc[ti] if r in sc.over[ti])
                if sc.codes[ti] and len(t["msg"]["raw"]) > cfg_of(t).get("max_size", BIG):
                    oversize += 1
                if any(200 <= c < 300 for c in sc.codes[ti]):
                    combos.add((t["msg"]["kind"], tuple(sorted(set(sc.acc[ti]))), len(sc.acc[ti]) != len(set(sc.acc[ti])), folder_of(t), tuple(t.get("cfg_kinds", [])),
                                tuple(sorted(set(s["k"] for s in sc.hist)))))
            if not sample_done and sc.txns:
                chk.sample({"history": sc.hist[:6], "configuration": cfg_of(sc.txns[0]), "recipients": sc.txns[0]["rs"], "accepted_at_rcpt": sc.acc[0], "message_kind": sc.txns[0]["msg"]["kind"],
                            "replies": sc.codes[0], "model_replies": ev[1][2] if len(ev) > 1 else None, "agreement_code": ev[1][0] if len(ev) > 1 else None})
                sample_done = True
    chk.cov["evaluations"] = n_eval
    chk.cov["transactions"] = n_txn
    chk.cov["scenarios"] = len(items) + len(corp)
    chk.cov["positions_accepted"] = accepted
    chk.cov["distinct_nontrivial"] = len(combos)
    chk.cov["rule"] = ("one evaluation = one recipient position of an LMTP transaction executed on the implementation (after a prior IMAP/LMTP history of the first recipient's store) and on Model/Deliver.v inside Coq (vm_compute): "
                       "reply code per position and, per store, the tables mailboxes(id,name,uid_next), message_mailbox(id,message_id,mailbox_id,uid), messages(id,#header rows,#part rows) compared after the transaction; "
                       "every accepted message is then fetched in a fresh IMAP session (STATUS, SELECT, UID FETCH BODY.PEEK[]) and must contain the subject and every leaf token; "
                       "distinct_nontrivial = distinct (message kind, recipient set, duplicate present, folder, kinds of history operations) among transactions with at least one acceptance")
    chk.cov["traces_validated_against_impl"] = n_eval
    chk.cov["disagreements_checked"] = stats["diff"]
    chk.cov["message_kinds"] = kinds
    chk.cov["recipient_kinds"] = rk
    chk.cov["configuration_kinds"] = cfgk
    chk.cov["recipients_refused_at_rcpt"] = refused_rcpt
    chk.cov["transactions_refused_oversize_552"] = oversize
    chk.cov["positions_over_quota_measured"] = over_q
    chk.cov["transactions_under_blob_write_fault"] = faults
    chk.cov["messages_with_out_of_line_parts_kept_inline_under_fault"] = fault_inline
    if faults and not fault_inline:
        chk.broken_obligation("the blob-write fault was injected %d times but no message with an out-of-line part was stored inline: the fault dimension no longer exercises the fallback branch" % faults, {"suite": "deliver"})
    chk.cov["transactions_outside_classes"] = stats["clean"]
    chk.cov["transactions_outside_classes_spec_holds_on_impl"] = stats["clean_ok"]
    chk.cov["known_class_hits"] = stats["known"]
    chk.cov["classifier_oracle_disagreements"] = stats["spec_disagree"]
    chk.cov["scenarios_skipped_history_model_mismatch"] = stats["hist_mismatch"]
    if stats["hist_mismatch"] * 5 > len(items):
        chk.broken_obligation("more than a fifth of the scenarios could not be judged: the shared history model (Model/Ops.v, property C03) disagrees with the implementation before the first transaction", {"suite": "deliver"})
    if stats["clean"] == 0:
        chk.broken_obligation("no generated transaction was in the scope of the positive theorems (generator or classifier broken)", {"suite": "deliver"})


def replay(path):
    d = json.load(open(path))
    if "txns" not in d:
        print(json.dumps(d, indent=1))
        return 0
    sc = run_scens([(d.get("hist", []), d["txns"])])[0]
    if sc.trouble:
        print("trouble:", sc.trouble)
        return 2
    C.coq_make()
    evs, log = evaluate([sc], PID + "_replay")
    print("history ops:", sc.h.model_ops)
    for ti, t in enumerate(sc.txns):
        print("transaction %d: cfg %r recipients %r (accepted at RCPT: %r, over quota by measurement: %r) message %s (%d bytes) -> replies %r" % (ti, cfg_of(t), t["rs"], sc.acc[ti], sc.over[ti], t["msg"]["kind"], len(t["msg"]["raw"]), sc.finals[ti]))
    print("[(agreement, class, model replies)] (element 0 = world before the first transaction):", evs[0] if evs else log[-1500:])
    for v in sc.viol:
        print("observed violation:", v)
    return 1 if (sc.viol or (evs and any(e[0] != 0 for e in evs[0]))) else 0
