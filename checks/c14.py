"""C14 — the attributes of a message agree with each other.

Suites
  attrs   : messages of the C02 grammar delivered over LMTP, then
            FETCH (RFC822.SIZE BODYSTRUCTURE ENVELOPE BODY.PEEK[] BODY.PEEK[HEADER] BODY.PEEK[TEXT]),
            every leaf path, absent paths, partials.  The responses are parsed
            here; the executable reading of the property (a)-(e) is evaluated
            on the implementation's outputs, and Model/Sections.v is evaluated
            inside Coq on the same part table / text and compared item by item.
  mappath : mapIMAPPartPathToDBPart (direct call) vs Model.Sections.map_path
            on random part tables (incl. tables no delivery produces).
  envelope: extractHeader / QuoteOrNIL / parseAddressList / BuildEnvelope
            (direct calls) vs Model/Envelope.v on random header blocks.
"""
import glob
import json
import os
import re

import common as C

A = "alice@example.com"
CORPUS = os.path.join(C.VERIF, "corpus", "C14")

# ---------------------------------------------------------------------------
# generator (C02 grammar)

WORDS = ["alpha", "beta", "gamma", "delta", "x", "lorem ipsum", "the quick brown fox", "a=b", "<tag>", "100%", "tab\there",
         "semi;colon", "q\"uote", "back\\slash", "(paren)", "{12}", "[br]", "e", ""]


def gen_text(rng, big=False, eol=None):
    """lines of text; eol: None = CRLF only (the framing of the message),
    "lf" = bare LF inside the content (Unix text attachment), "mixed" = CRLF,
    bare LF and lone CR mixed, "cr" = lone CR line ends"""
    n = rng.choice([0, 1, 1, 2, 3, 5]) if not big else rng.randint(30, 60)
    if eol and n < 2:
        n = rng.randint(2, 5)
    lines = []
    for _ in range(n):
        l = " ".join(rng.choice(WORDS) for _ in range(rng.randint(0, 6 if not big else 8)))
        if l.startswith(".") or l.startswith("--"):
            l = "x" + l
        lines.append(l)
    if not eol:
        return "\r\n".join(lines)
    out = ""
    for i, l in enumerate(lines):
        out += l
        if i + 1 < len(lines):
            if eol == "lf":
                out += "\n"
            elif eol == "cr":
                out += rng.choice(["\r", "\r", "\n"])
            else:
                out += rng.choice(["\r\n", "\n", "\n", "\r", "\n\n", "\r\r\n", "\n\r"])
    return out


B64 = "ABCDEFGHIJKLMNOPQRSTUVWXYZabcdefghijklmnopqrstuvwxyz0123456789+/"


HIGH = ["\xc3\xa9", "\xc3\x9f", "\xe2\x82\xac", "\xe4\xb8\xad", "\xf0\x9d\x84\x9e", "caf\xc3\xa9", "na\xc3\xafve", "\xc2\xa0"]      # valid UTF-8: 2, 3, 4 octets
BROKEN = ["\xff", "\xfe\xff", "\xc3", "\xe2\x82", "\x80", "\xbf\xbf", "\xf0\x9d\x84", "\xc0\xaf", "\xed\xa0\x80", "lat\xe9n1"]    # invalid UTF-8
NULS = ["\x00", "a\x00b", "\x00\x00"]


def gen_8bit(rng, storage):
    """8bit / binary leaf content: valid multi-byte UTF-8, invalid UTF-8, with
    or without NUL, in the storage class asked for: "inline" (<= 1024 octets,
    no file name), "size" (> 1024 octets: local blob), "fname" (file name:
    local blob whatever the size)"""
    kind = rng.choice(["utf8", "utf8", "invalid", "mixed", "nul"])
    pool = {"utf8": HIGH + WORDS[:6], "invalid": BROKEN + HIGH[:3] + WORDS[:4], "mixed": HIGH + BROKEN + WORDS[:5],
            "nul": HIGH + BROKEN[:4] + NULS + WORDS[:4]}[kind]
    lines = []
    total = 0
    want = rng.randint(1100, 2200) if storage == "size" else rng.choice([3, 20, 60, 200])
    while total < want:
        l = " ".join(rng.choice(pool) for _ in range(rng.randint(1, 8)))
        if l.startswith(".") or l.startswith("--") or l == "":
            l = "x" + l
        lines.append(l)
        total += len(l) + 2
    content = rng.choice(["\r\n", "\r\n", "\n"]).join(lines)
    if rng.random() < 0.3:
        content += "\r\n"
    if storage == "fname":
        ctype = rng.choice(["application/octet-stream", "image/png", "application/pdf"])
        fname = rng.choice(["a.bin", "report.pdf", "pic one.png"])
        charset = None
    else:
        ctype = rng.choice(["text/plain", "text/plain", "text/html", "application/octet-stream"])
        fname = None
        charset = rng.choice(["utf-8", "utf-8", None, "iso-8859-1"]) if ctype.startswith("text/") else None
    enc = rng.choice(["8bit", "8bit", "binary", None])
    return {"leaf": True, "ctype": ctype, "charset": charset, "enc": enc, "fname": fname, "content": content, "bin": kind, "storage": storage}


def is_bin(content):
    return any(ord(c) > 127 or c == "\x00" for c in content)


def gen_leaf(rng):
    r = rng.random()
    if r < 0.11:
        return gen_8bit(rng, rng.choice(["inline", "inline", "size", "size", "fname", "fname"]))
    ctype = rng.choice(["text/plain", "text/plain", "text/html", "application/octet-stream", "image/png", "application/pdf"])
    istext = ctype.startswith("text/")
    charset = rng.choice([None, "utf-8", "us-ascii"]) if istext else None
    enc = rng.choice([None, None, "7bit", "8bit", "base64", "BASE64"])
    fname = None
    if not istext and rng.random() < 0.5:
        fname = rng.choice(["a.bin", "report.pdf", "pic one.png"])
    if enc and enc.lower() == "base64":
        k = rng.choice(["short", "long1", "wrapped", "wrapped_nl", "long_nl", "wrapped_lf"])
        def b(n):
            return "".join(rng.choice(B64) for _ in range(n))
        if k == "short":
            content = b(rng.choice([4, 40, 76]))
        elif k == "long1":
            content = b(rng.choice([77, 80, 120, 200]))
        elif k == "wrapped":
            content = "\r\n".join([b(76)] * rng.randint(1, 3) + [b(rng.randint(1, 76))])
        elif k == "wrapped_nl":
            content = "\r\n".join([b(76)] * rng.randint(1, 3)) + "\r\n"
        elif k == "wrapped_lf":
            content = "\n".join([b(76)] * rng.randint(1, 2) + [b(rng.randint(1, 76))])   # wrapped with bare LF
        else:
            content = b(rng.choice([100, 160])) + "\r\n"
    else:
        eol = rng.choice([None, None, None, "lf", "lf", "mixed", "cr"])
        content = gen_text(rng, big=(rng.random() < 0.08), eol=eol)
        e = rng.random()
        if e < 0.3 and content:
            content += "\r\n"            # part content ends with a line break
        elif e < 0.4 and content:
            content += "\r\n\r\n"
        elif e < 0.55 and content and eol:
            content += rng.choice(["\n", "\n\n", "\r", "\n\r\n"])   # ends with a bare LF / lone CR
    return {"leaf": True, "ctype": ctype, "charset": charset, "enc": enc, "fname": fname, "content": content}


def gen_tree(rng, depth=0):
    if depth >= 3 or rng.random() < (0.25 if depth == 0 else 0.7):
        return gen_leaf(rng)
    k = rng.choice([1, 2, 2, 3, 4])
    return {"leaf": False, "sub": rng.choice(["mixed", "alternative", "related"]),
            "kids": [gen_tree(rng, depth + 1) for _ in range(k)]}


class BGen:
    def __init__(self):
        self.n = 0

    def next(self):
        self.n += 1
        return "=_b%d_%s" % (self.n, "xYz")


def part_headers(t, bnd):
    h = ""
    if t["leaf"]:
        ct = t["ctype"]
        if t["charset"]:
            ct += "; charset=" + t["charset"]
        h += "Content-Type: %s\r\n" % ct
        if t["enc"]:
            h += "Content-Transfer-Encoding: %s\r\n" % t["enc"]
        if t["fname"]:
            h += "Content-Disposition: attachment; filename=\"%s\"\r\n" % t["fname"]
    else:
        h += "Content-Type: multipart/%s; boundary=\"%s\"\r\n" % (t["sub"], bnd)
    return h


def ser_body(t, bg, bnd=None):
    """body text of node t (for a container: delimited children)"""
    if t["leaf"]:
        return t["content"]
    out = ""
    for k in t["kids"]:
        kb = bg.next() if not k["leaf"] else None
        out += "--%s\r\n" % bnd + part_headers(k, kb) + "\r\n" + ser_body(k, bg, kb) + "\r\n"
    out += "--%s--\r\n" % bnd
    return out


NAMES = [  # (header text of the display name, decoded name, class or None)
    (None, None, None),
    ("Bob", "Bob", None),
    ("Bob Smith", "Bob Smith", None),
    ("\"Bob Smith\"", "Bob Smith", None),
    ("\"Doe, John\"", "Doe, John", "name_comma"),
    ("\"Jo \\\"the\\\" X\"", "Jo \"the\" X", "name_quoted_pair"),
    ("\"O'Neil (ops)\"", "O'Neil (ops)", None),
]


def gen_addr(rng, special):
    nm = rng.choice(NAMES if special else NAMES[:4])
    local = rng.choice(["john", "a.b", "x+tag", "info", "no-reply"])
    dom = rng.choice(["example.com", "x.y", "mail.example.org"])
    if nm[0] is None:
        txt = "%s@%s" % (local, dom) if rng.random() < 0.6 else "<%s@%s>" % (local, dom)
    else:
        txt = "%s <%s@%s>" % (nm[0], local, dom)
    return {"text": txt, "name": nm[1], "local": local, "dom": dom, "cls": nm[2]}


def gen_message(rng, idx):
    special = rng.random() < 0.3
    hdr = {}
    hdr["From"] = [gen_addr(rng, special)]
    hdr["To"] = [gen_addr(rng, special) for _ in range(rng.choice([1, 1, 2, 3]))]
    if rng.random() < 0.3:
        hdr["Cc"] = [gen_addr(rng, special) for _ in range(rng.choice([1, 2]))]
    if rng.random() < 0.15:
        hdr["Reply-To"] = [gen_addr(rng, False)]
    if rng.random() < 0.1:
        hdr["Sender"] = [gen_addr(rng, False)]
    subj = rng.choice(["hello", "Re: plan", "quote \" and \\ in subject", "  spaced  ", "sub: colon", "x" * 60])
    fold = rng.random() < 0.15
    date = "Mon, %d Jan 2024 10:%02d:00 +0000" % (rng.randint(1, 28), rng.randint(0, 59))
    mid = "<m%d.%d@gen.example>" % (idx, rng.randint(0, 10 ** 6))
    lines = []
    order = ["From", "To", "Cc", "Reply-To", "Sender"]
    for k in order:
        if k in hdr:
            sepa = ", " if not fold else ",\r\n "
            lines.append("%s: %s" % (k, sepa.join(a["text"] for a in hdr[k])))
    if fold:
        lines.append("Subject: %s\r\n\tcontinued" % subj)
        subj_val = subj.strip() + " continued"
    else:
        lines.append("Subject: %s" % subj)
        subj_val = subj.strip()
    lines.append("Date: " + date)
    lines.append("Message-ID: " + mid)
    irt = None
    if rng.random() < 0.2:
        irt = "<p%d@gen.example>" % idx
        lines.append("In-Reply-To: " + irt)
    rng.shuffle(lines)
    tree = gen_tree(rng)
    bg = BGen()
    if tree["leaf"]:
        tree["fname"] = None
        th = part_headers(tree, None)
        if rng.random() < 0.2 and tree["ctype"] == "text/plain" and not tree["charset"] and not tree["enc"]:
            th = ""                                  # no Content-Type at all
        text = "\r\n".join(lines) + "\r\n" + th + "\r\n" + tree["content"]
        if not text.endswith("\r\n"):
            text += "\r\n"
    else:
        b0 = bg.next()
        text = "\r\n".join(lines) + "\r\nMIME-Version: 1.0\r\n" + part_headers(tree, b0) + "\r\n" + ser_body(tree, bg, b0)
    return {"text": text, "tree": tree, "hdr": hdr, "subject": subj_val, "date": date, "mid": mid, "irt": irt}


def tree_paths(t):
    """(path, node) for every numbered node of the generated tree"""
    if t["leaf"]:
        return [((1,), t)]
    out = []

    def rec(node, prefix):
        for i, k in enumerate(node["kids"]):
            p = prefix + (i + 1,)
            out.append((p, k))
            if not k["leaf"]:
                rec(k, p)
    rec(t, ())
    return out


# ---------------------------------------------------------------------------
# response parsing (raven's FETCH format: labels first, then the literals in
# the same order)

class Atom(str):
    pass


def _parse_list(s, i):
    out = []
    while True:
        while i < len(s) and s[i] == " ":
            i += 1
        if i >= len(s):
            raise ValueError("unterminated list")
        c = s[i]
        if c == ")":
            return out, i + 1
        if c == "(":
            v, i = _parse_list(s, i + 1)
            out.append(v)
        elif c == '"':
            j = i + 1
            buf = []
            while s[j] != '"':
                if s[j] == "\\":
                    j += 1
                buf.append(s[j])
                j += 1
            out.append("".join(buf))
            i = j + 1
        elif c == "{":
            m = re.match(r"\{(\d+)\}\r\n", s[i:i + 30])
            if not m:
                raise ValueError("bad literal at %d" % i)
            n = int(m.group(1))
            st = i + m.end()
            out.append(("lit", s[st:st + n]))
            i = st + n
        else:
            j = i
            depth = 0
            while j < len(s):
                ch = s[j]
                if ch == "[":
                    depth += 1
                elif ch == "]":
                    depth -= 1
                elif depth == 0 and ch in " ()":
                    break
                elif ch in "\r\n":
                    break
                j += 1
            if j == i:
                raise ValueError("stuck at %d: %r" % (i, s[i:i + 20]))
            a = s[i:j]
            out.append(None if a == "NIL" else Atom(a))
            i = j


def parse_fetch(recv):
    """-> dict(size, envelope, bs, sections{label: str|None}, status) or None"""
    res = {"size": None, "envelope": None, "bs": None, "sections": {}, "status": None, "n": 0}
    m = re.search(r"^\S+ (OK|NO|BAD)", recv[recv.rfind("\r\n", 0, len(recv) - 2) + 2:] if recv.endswith("\r\n") else recv, re.M)
    res["status"] = m.group(1) if m else None
    m = re.match(r"\* (\d+) FETCH \(", recv)
    if not m:
        return res
    res["n"] = 1
    toks, _ = _parse_list(recv, m.end())
    pending = []
    i = 0
    while i < len(toks):
        t = toks[i]
        if isinstance(t, Atom) and t == "RFC822.SIZE":
            res["size"] = int(toks[i + 1])
            i += 2
        elif isinstance(t, Atom) and t == "ENVELOPE":
            res["envelope"] = toks[i + 1]
            i += 2
        elif isinstance(t, Atom) and t == "BODYSTRUCTURE":
            res["bs"] = toks[i + 1]
            i += 2
        elif isinstance(t, Atom) and t.startswith("BODY["):
            lab = re.sub(r"<\d+>$", "", t)
            if i + 1 < len(toks) and toks[i + 1] is None:
                res["sections"][lab] = None
                i += 2
            else:
                pending.append(lab)
                i += 1
        elif isinstance(t, tuple) and t[0] == "lit":
            if pending:
                res["sections"][pending.pop(0)] = t[1]
            i += 1
        else:
            i += 1
    return res


def bs_leaves(bs, prefix=()):
    if bs and isinstance(bs[0], list):
        out = []
        i = 0
        while i < len(bs) and isinstance(bs[i], list):
            out += bs_leaves(bs[i], prefix + (i + 1,))
            i += 1
        return out
    return [(prefix or (1,), {"type": "%s/%s" % (bs[0], bs[1]), "enc": bs[5], "size": int(bs[6])})]


def bs_nodes(bs, prefix=()):
    """all numbered paths (containers too)"""
    if bs and isinstance(bs[0], list):
        out = []
        i = 0
        while i < len(bs) and isinstance(bs[i], list):
            p = prefix + (i + 1,)
            out.append(p)
            if bs[i] and isinstance(bs[i][0], list):
                out += bs_nodes(bs[i], p)
            i += 1
        return out
    return [prefix or (1,)]


# independent MIME reading of BODY[] (the property's "that part")
def _hdr(block, name):
    lines = block.split("\r\n")
    val = None
    cur = False
    for l in lines:
        if l[:1] != "" and l[:1] in " \t" and val is not None and cur:
            val += " " + l.strip()
            continue
        cur = False
        if ":" in l and l.split(":", 1)[0].strip().lower() == name.lower() and val is None:
            val = l.split(":", 1)[1].strip()
            cur = True
    return val


def mime_parse(text):
    i = text.find("\r\n\r\n")
    if i < 0:
        head, body = text, ""
    else:
        head, body = text[:i + 2], text[i + 4:]
    ct = _hdr(head, "Content-Type") or "text/plain"
    mt = ct.split(";")[0].strip().lower()
    enc = (_hdr(head, "Content-Transfer-Encoding") or "7BIT").upper()
    if mt.startswith("multipart/"):
        m = re.search(r'boundary="?([^";\r\n]+)"?', ct, re.I)
        if m:
            b = m.group(1)
            kids = []
            # delimiter lines
            segs = re.split(r"(?:^|\r\n)--" + re.escape(b) + r"(--)?[ \t]*(?=\r\n|$)", body)
            # segs: pre, flag, seg1, flag, seg2, ... ; a segment starts with CRLF (end of the delimiter line)
            parts = []
            k = 1
            while k + 1 < len(segs):
                closing = segs[k] == "--"
                if closing:
                    break
                seg = segs[k + 1]
                if seg.startswith("\r\n"):
                    seg = seg[2:]
                parts.append(seg)
                k += 2
            for seg in parts:
                kids.append(mime_parse(seg))
            return {"leaf": False, "type": mt.upper(), "kids": kids}
    return {"leaf": True, "type": mt.upper(), "enc": enc, "body": body}


def mime_leaves(t, prefix=()):
    if t["leaf"]:
        return [(prefix or (1,), t)]
    out = []
    for i, k in enumerate(t["kids"]):
        out += mime_leaves(k, prefix + (i + 1,))
    return out


# ---------------------------------------------------------------------------
# Coq emission helpers

class Emit:
    """Coq terms for byte strings.  Long strings become named definitions
    (each distinct string once), packed 7 bytes per primitive 63-bit integer:
    elaborating string literals costs ~80 us per byte, this ~10."""

    def __init__(self):
        self.defs = []
        self.names = {}

    def s(self, x):
        if isinstance(x, bytes):
            x = x.decode("latin-1")
        if x == "":
            return "[]"
        if len(x) <= 48 and all(32 <= ord(c) < 127 for c in x):
            return '(S_ "%s")' % x.replace('"', '""')
        if x not in self.names:
            name = "s_%d" % len(self.names)
            self.names[x] = name
            b = x.encode("latin-1")
            ws = []
            for i in range(0, len(b), 7):
                w = 0
                for k, c in enumerate(b[i:i + 7]):
                    w |= c << (8 * k)
                ws.append(str(w))
            self.defs.append("Definition %s : str := U_ %d%%N [%s]%%uint63." % (name, len(b), ";".join(ws)))
        return self.names[x]

    def sub(self, whole, x):
        """x as a slice of the (named) string whole when it is one"""
        if len(x) > 48 and len(whole) > 48:
            a = whole.find(x)
            if a >= 0:
                return "(sub %s %d%%N %d%%N)" % (self.s(whole), a, len(x))
        return self.s(x)


def cstr(s):
    return Emit().s(s) if len(s) <= 48 and all(32 <= ord(c) < 127 for c in s) else _inline(s)


def _inline(s):
    e = Emit()
    t = e.s(s)
    if e.defs:
        d = e.defs[0]
        return "(" + d[d.index(":= ") + 3:-1] + ")"
    return t


COQ_HDR = C.COQ_CASE_HEADER + """From Coq Require Import Uint63.
From Raven Require Import Base.Enum Model.Sections Model.Envelope.
Definition byte_at (w k : int) : ascii := ascii_of_N (Z.to_N (Uint63.to_Z (Uint63.land (Uint63.lsr w k) 255))).
Definition unpack7 (w : int) : list ascii := [byte_at w 0; byte_at w 8; byte_at w 16; byte_at w 24; byte_at w 32; byte_at w 40; byte_at w 48]%uint63.
Definition U_ (n : N) (ws : list int) : str := firstn (N.to_nat n) (flat_map unpack7 ws).
Definition sub (x : str) (a n : N) : str := firstn (N.to_nat n) (skipn (N.to_nat a) x).
Definition nn (n : N) : nat := N.to_nat n.
Definition bad (l : list bool) : list nat := diff_positions Bool.eqb 0 (map (fun _ => true) l) l.
Definition opt_str_eqb (a : option str) (b : str) := match a with Some x => str_eqb x b | None => false end.
Definition strip2 (w : str) : str := firstn (length w - 2) w.
"""


def coq_path(p):
    return "[%s]" % "; ".join(str(x) for x in p)


def coq_part(part):
    return "None" if part is None else "(Some (nn %d, nn %d))" % part


def coq_rows(E, rows):
    return "[%s]" % ";\n ".join(
        "mkRow %d %d %s %s %s %s" % (r["id"], r["pn"], "None" if r["par"] is None else "(Some %d)" % r["par"],
                                      E.s(r["ct"]), E.s(r["enc"]), E.s(r["content"])) for r in rows)


def coq_tree(E, t, content=None):
    if t["leaf"]:
        return "(Leaf %s %s %s)" % (E.s(t["ctype"]), E.s(t["enc"] or ""), E.s(t["content"] if content is None else content))
    f = "FNil"
    for k in reversed(t["kids"]):
        f = "(FCons %s %s)" % (coq_tree(E, k), f)
    return "(Multi %s %s)" % (E.s("multipart/" + t["sub"]), f)


def parse_bad(log, name):
    txt = C.parse_coq_list_out(log, name)
    if txt is None:
        return None
    txt = txt.strip()
    if txt == "[]":
        return []
    return [int(x) for x in txt.strip("[]").replace("%nat", "").split(";") if x.strip()]


# ---------------------------------------------------------------------------
# the attrs suite

def fetch_cmds(msg, seq, rng, both=False, chunks=0, light=False):
    """list of (kind, info, command text) for message number seq"""
    cmds = [("main", None, "FETCH %d (RFC822.SIZE BODYSTRUCTURE ENVELOPE BODY.PEEK[] BODY.PEEK[HEADER] BODY.PEEK[TEXT])" % seq)]
    nodes = tree_paths(msg["tree"])
    leaves = [(p, n) for p, n in nodes if n["leaf"]]
    for p, n in leaves:
        cmds.append(("path", {"path": p, "part": None}, "FETCH %d BODY.PEEK[%s]" % (seq, ".".join(map(str, p)))))
    allp = set(p for p, _ in nodes)
    cands = [(len([p for p in allp if len(p) == 1]) + 1,), leaves[0][0] + (1,), (1, 1, 1, 1, 2), (7,), leaves[-1][0][:-1] + (leaves[-1][0][-1] + 1,)]
    cands = [p for p in cands if p not in allp]
    for p in rng.sample(cands, min(2, len(cands))):
        cmds.append(("path", {"path": p, "part": None, "absent": True}, "FETCH %d BODY.PEEK[%s]" % (seq, ".".join(map(str, p)))))

    def rnd_part(n):
        o = rng.choice([0, 0, 1, 2, rng.randint(0, max(1, n)), n, n + 3])
        ln = rng.choice([1, 2, 5, rng.randint(1, max(1, n)), n + 10, 2048])
        return (o, ln)
    for _ in range(2):
        p, n = rng.choice(leaves)
        part = rnd_part(len(n["content"]))
        cmds.append(("path", {"path": p, "part": part}, "FETCH %d BODY.PEEK[%s]<%d.%d>" % (seq, ".".join(map(str, p)), part[0], part[1])))
    if any(is_bin(n["content"]) for _, n in leaves):
        # partial ranges on EVERY leaf of a message with 8bit / binary content: offsets inside multi-byte
        # sequences, at 0, at the last octet, at and beyond the end, n = 0, n huge
        for p, n in leaves:
            c = n["content"]
            L = len(c)
            inside = [i for i, ch in enumerate(c) if 0x80 <= ord(ch) <= 0xBF]          # continuation octets
            after = [i + 1 for i, ch in enumerate(c) if ord(ch) > 127 and i + 1 < L]
            rs = []
            if is_bin(c):
                for o in rng.sample(inside, min(2, len(inside))) + rng.sample(after, min(1, len(after))):
                    rs.append((o, rng.choice([1, 2, 3, 7, 64, 300])))
                rs += [(0, rng.choice([1, 5, 100])), (max(L - 1, 0), 5), rng.choice([(L, 3), (L + 7, 2)]), (rng.randint(0, max(L - 1, 0)), 0),
                       (rng.randint(0, max(L - 1, 0)), rng.choice([70000, 4294967295]))]
                if L > 1024:
                    rs += [(rng.randint(900, L - 1), rng.randint(1, 400))]
                if light:
                    rs = rng.sample(rs, min(4, len(rs)))
            else:
                rs += [(rng.randint(0, max(L, 1)), rng.choice([1, 9, 70000]))]
            for part in rs:
                cmds.append(("path", {"path": p, "part": part, "bin": is_bin(c)}, "FETCH %d BODY.PEEK[%s]<%d.%d>" % (seq, ".".join(map(str, p)), part[0], part[1])))
    part = rnd_part(len(msg["text"]) // 2)
    cmds.append(("text_partial", {"part": part}, "FETCH %d (BODY.PEEK[TEXT]<%d.%d> BODY.PEEK[])" % (seq, part[0], part[1])))
    part = rnd_part(60)
    pick = rng.random() < 0.5
    if pick or both:
        cmds.append(("all_partial", {"part": part}, "FETCH %d BODY.PEEK[]<%d.%d>" % (seq, part[0], part[1])))
    if not pick or both:
        cmds.append(("header_partial", {"part": part}, "FETCH %d (BODY.PEEK[HEADER]<%d.%d> BODY.PEEK[])" % (seq, part[0], part[1])))
    if chunks:
        # a client downloading the message in pieces of `chunks` octets (the reconstructed text is
        # at most a few hundred octets longer than what was submitted; pieces past the end are empty)
        o = 0
        k = 0
        while o < len(msg["text"]) + 700:
            cmds.append(("all_partial", {"part": (o, chunks), "chunk": k}, "FETCH %d BODY.PEEK[]<%d.%d>" % (seq, o, chunks)))
            o += chunks
            k += 1
    if light:
        keep = [c for c in cmds if c[0] == "main" or "chunk" in (c[1] or {}) or (c[0] == "path" and not (c[1] or {}).get("absent") and ((c[1] or {}).get("part") is None or "bin" in (c[1] or {})))]
        rest = [c for c in cmds if c not in keep]
        cmds = keep + rng.sample(rest, min(2, len(rest)))
    return cmds


def scenario_ops(msgs, rng, both=False):
    import proto_common as P
    ops = [{"op": "open", "conn": "sa", "kind": "tls"},
           {"op": "send", "conn": "sa", "data": "s1 LOGIN %s pw\r\n" % A, "until": "tag:s1"},
           {"op": "lmtp_open", "conn": "l1"},
           {"op": "send", "conn": "l1", "data": "LHLO x\r\n", "until": "lmtp:1"}]
    for m in msgs:
        ops += P.lmtp_deliver("l1", A, C.latin(m["text"]))
    ops.append({"op": "send", "conn": "sa", "data": "s2 SELECT INBOX\r\n", "until": "tag:s2"})
    plan = []
    for i, m in enumerate(msgs):
        for j, (kind, info, cmd) in enumerate(fetch_cmds(m, i + 1, rng, both)):
            tag = "f%dx%d" % (i, j)
            plan.append((len(ops), i, kind, info, cmd))
            ops.append({"op": "send", "conn": "sa", "data": "%s %s\r\n" % (tag, cmd), "until": "tag:" + tag})
    q = len(ops)
    ops.append({"op": "sql", "store": "user_db_1", "q": "select id, message_id, part_number, parent_part_id, content_type, content_transfer_encoding, blob_id, text_content from message_parts order by id"})
    ops.append({"op": "sql", "store": "shared", "q": "select id, content from blobs"})
    return ops, plan, q


R1 = "sales@example.com"
ROLEBOX = "Roles/%s/INBOX" % R1
PARTS_Q = "select id, message_id, part_number, parent_part_id, content_type, content_transfer_encoding, blob_id, text_content from message_parts order by id"


def stores_scenario(rng, k=3):
    """One connection of a user who also has a role mailbox.  The personal store
    and the role store hold DIFFERENT messages under the same message ids.
    Attribute sets are fetched while switching between the two stores (SELECT /
    EXAMINE, after CLOSE / UNSELECT, in both orders), then in one mailbox
    repeatedly, interleaved with other messages, APPEND and EXPUNGE, and as a
    chunked download.  Every fetch set is judged on its own against the store
    that was selected."""
    import proto_common as P
    pers = [gen_message(rng, 100 + i) for i in range(k)]
    role = [gen_message(rng, 200 + i) for i in range(k)]
    extra = gen_message(rng, 300)
    ops = [{"op": "open", "conn": "s0", "kind": "tls"},
           {"op": "send", "conn": "s0", "data": "s1 LOGIN %s pw\r\n" % A, "until": "tag:s1"},
           {"op": "send", "conn": "s0", "data": "s2 LOGOUT\r\n", "until": "tag:s2"},
           {"op": "role_create", "email": R1}, {"op": "role_assign", "user": A, "role": 1},
           {"op": "lmtp_open", "conn": "l1"},
           {"op": "send", "conn": "l1", "data": "LHLO x\r\n", "until": "lmtp:1"}]
    lmtp_idx = []
    for i in range(k):
        for rcpt, m in ((A, pers[i]), (R1, role[i])):
            ops += P.lmtp_deliver("l1", rcpt, C.latin(m["text"]))
            lmtp_idx.append(len(ops) - 1)
    ops += [{"op": "open", "conn": "sa", "kind": "tls"},
            {"op": "send", "conn": "sa", "data": "s1 LOGIN %s pw\r\n" % A, "until": "tag:s1"}]
    plan, grp, vm, sel = [], [], [], []
    ntag = [0]

    def cmd(text, literal=None):
        ntag[0] += 1
        t = "c%d" % ntag[0]
        if literal is None:
            ops.append({"op": "send", "conn": "sa", "data": "%s %s\r\n" % (t, text), "until": "tag:" + t})
        else:
            ops.append({"op": "send", "conn": "sa", "data": "%s %s {%d}\r\n" % (t, text, len(literal)), "until": "cont:" + t})
            ops.append({"op": "send", "conn": "sa", "data": C.latin(literal) + "\r\n", "until": "tag:" + t, "only_if_cont": True})
        return t

    def fetch_set(m, store, msgid, seq, how, chunks=0):
        vi = len(grp)
        grp.append(m)
        vm.append((store, msgid))
        sel.append(how)
        for (kind, info, c) in fetch_cmds(m, seq, rng, both=False, chunks=chunks, light=True):
            ntag[0] += 1
            t = "c%d" % ntag[0]
            plan.append((len(ops), vi, kind, info, c))
            ops.append({"op": "send", "conn": "sa", "data": "%s %s\r\n" % (t, c), "until": "tag:" + t})

    # (1) switching stores
    cur = rng.choice(["user_db_1", "role_db_1"])
    last_i = rng.randrange(k)
    for step in range(7):
        pre = rng.choice(["", "", "CLOSE", "UNSELECT"]) if step else ""
        if pre:
            cmd(pre)
        verb = rng.choice(["SELECT", "SELECT", "EXAMINE"])
        cmd("%s %s" % (verb, "INBOX" if cur == "user_db_1" else ROLEBOX))
        how = "%s%s %s" % (pre + "; " if pre else "", verb, "INBOX" if cur == "user_db_1" else ROLEBOX)
        i = last_i if rng.random() < 0.75 else rng.randrange(k)
        last_i = i
        fetch_set((pers if cur == "user_db_1" else role)[i], cur, i + 1, i + 1, how)
        if rng.random() < 0.4:
            j = rng.randrange(k)
            fetch_set((pers if cur == "user_db_1" else role)[j], cur, j + 1, j + 1, how)
        if rng.random() < 0.85:
            cur = "role_db_1" if cur == "user_db_1" else "user_db_1"
    # (2) one mailbox: repeated and interleaved fetches, APPEND, EXPUNGE, chunked download
    cmd("SELECT INBOX")
    how = "SELECT INBOX (repeated / interleaved)"
    seqs = [(pers[i], i + 1) for i in range(k)]
    fetch_set(seqs[0][0], "user_db_1", seqs[0][1], 1, how)
    fetch_set(seqs[1][0], "user_db_1", seqs[1][1], 2, how)
    fetch_set(seqs[0][0], "user_db_1", seqs[0][1], 1, how, chunks=rng.choice([64, 100, 257]))
    cmd("APPEND INBOX", literal=extra["text"])
    seqs.append((extra, k + 1))
    fetch_set(seqs[0][0], "user_db_1", seqs[0][1], 1, how + " after APPEND")
    fetch_set(extra, "user_db_1", k + 1, k + 1, how + " after APPEND")
    d = rng.choice([1, 2])
    cmd("STORE %d +FLAGS (\\Deleted)" % d)
    cmd("EXPUNGE")
    del seqs[d - 1]
    for sq in (d, 1, len(seqs)):
        if 1 <= sq <= len(seqs):
            fetch_set(seqs[sq - 1][0], "user_db_1", seqs[sq - 1][1], sq, how + " after EXPUNGE of %d" % d, chunks=(rng.choice([80, 500]) if sq == len(seqs) else 0))
    q = len(ops)
    ops.append({"op": "sql", "store": "user_db_1", "q": PARTS_Q})
    ops.append({"op": "sql", "store": "role_db_1", "q": PARTS_Q})
    ops.append({"op": "sql", "store": "shared", "q": "select id, content from blobs"})
    ext = {"vm": vm, "sel": sel, "sql": {"user_db_1": q, "role_db_1": q + 1}, "blobs": q + 2, "lmtp_idx": lmtp_idx}
    return grp, (ops, plan, q, ext)


def run_stores(chk, nscen):
    sc = [stores_scenario(chk.rng) for _ in range(nscen)]
    results = C.run_many([b[0] for _, b in sc], workers=12)
    return evaluate_attrs(chk, [g for g, _ in sc], [b for _, b in sc], results, name="C14_stores")


def canon_b(s):
    """rename generated boundaries (time-derived, differ from one reconstruction to the next)"""
    seen = {}

    def rep(m):
        k = m.group(2)
        if k not in seen:
            seen[k] = len(seen)
        return m.group(1) + ("%0" + str(len(k)) + "d") % seen[k]
    return re.sub(r"(----=_Part_[A-Za-z]+_)(\d+)", rep, s)


def env_addr_list(v):
    if v is None:
        return []
    return [(a[0], a[2], a[3]) for a in v]


def expected_envelope(m):
    h = m["hdr"]

    def lst(k):
        return [(a["name"], a["local"], a["dom"]) for a in h.get(k, [])]
    fr = lst("From")
    return {"date": m["date"], "subject": m["subject"] or None, "from": fr, "sender": lst("Sender") or fr,
            "reply_to": lst("Reply-To") or fr, "to": lst("To"), "cc": lst("Cc"), "bcc": [],
            "in_reply_to": m["irt"], "message_id": m["mid"]}


def addr_classes(m, field):
    k = {"from": ["From"], "sender": ["Sender", "From"], "reply_to": ["Reply-To", "From"], "to": ["To"], "cc": ["Cc"]}[field]
    for name in k:
        if name in m["hdr"]:
            return set(a["cls"] for a in m["hdr"][name] if a["cls"])
    return set()


def is_b64(enc):
    return (enc or "").strip().lower() == "base64"


def already_wrapped(content):
    lines = content.split("\r\n")
    return len(lines) > 1 and all(len(l) <= 78 for l in lines)


def run_attrs(chk, nmsg, per=8):
    rng = chk.rng
    msgs = [gen_message(rng, i) for i in range(nmsg)]
    groups = [msgs[i:i + per] for i in range(0, len(msgs), per)]
    built = [scenario_ops(g, rng) for g in groups]
    results = C.run_many([b[0] for b in built], workers=12)
    return evaluate_attrs(chk, groups, built, results)


def evaluate_attrs(chk, groups, built, results, corpus_mode=False, name=None):
    """spec on the implementation's outputs + model comparison in Coq.
    built[i] = (ops, plan, q) for the plain scenarios (message k of the group is
    message id k+1 of user_db_1), or (ops, plan, q, ext) where every entry of
    the group is one FETCH SET (attribute set fetched while one mailbox of one
    store is selected): ext["vm"][k] = (store, message id), ext["sql"] = {store:
    op index of its message_parts query}, ext["blobs"], ext["lmtp_idx"]."""
    coq_defs = []
    E = Emit()
    item_cases = []     # (coq tuple, descr)
    leaf_cases = []
    size_cases = []
    flat_cases = []
    transp_cases = []
    stats = {"messages": 0, "items": 0, "leaves": 0, "multipart": 0, "nested": 0, "blob_parts": 0, "partials": 0,
             "absent_paths": 0, "crlf_leaves": 0, "rewrap_leaves": 0, "special_names": 0,
             "bare_lf_leaves": 0, "lone_cr_leaves": 0, "bare_lf_blob_leaves": 0, "bare_lf_single_part": 0, "bare_lf_nested_leaves": 0}
    nontrivial = set()
    for gi, (grp, bt, res) in enumerate(zip(groups, built, results)):
        ops, plan, q = bt[:3]
        ext = bt[3] if len(bt) > 3 else None
        if res.get("crashed") or len(res.get("obs", [])) != len(ops):
            chk.broken_obligation("driver crashed on an attrs scenario: %s" % res.get("stderr", "")[:400], {"suite": "attrs"})
            continue
        obs = res["obs"]
        if ext:
            lm = [obs[k].get("recv", "") for k in ext["lmtp_idx"]]
            lm = [x for r in lm for x in ("250", "250", "354", r)]
        else:
            lm = [o.get("recv", "") for o in obs[4:4 + 4 * len(grp)]]
        if any(not lm[4 * k + 3].startswith("250") for k in range(len(lm) // 4)):
            chk.notes.append("generator produced a message LMTP refused; scenario skipped: %r" % [x[:60] for x in lm if not x.startswith(("250", "354"))][:2])
            continue
        sqlidx = ext["sql"] if ext else {"user_db_1": q}
        blobs = dict((r[0], r[1]) for r in (obs[ext["blobs"] if ext else q + 1].get("rows") or []))
        rows_by_msg = {}
        for store, qi in sqlidx.items():
            for r in (obs[qi].get("rows") or []):
                content = r[7] or ""
                if r[6] is not None:
                    content = blobs.get(r[6]) or ""
                rows_by_msg.setdefault((store, r[1]), []).append({"id": r[0], "pn": r[2], "par": r[3], "ct": r[4] or "", "enc": r[5] or "",
                                                                  "content": content, "blob": r[6] is not None})
        fetched = {}
        for (oi, mi, kind, info, cmd) in plan:
            fetched.setdefault(mi, []).append((kind, info, cmd, parse_fetch_safe(obs[oi].get("recv", ""))))
        for mi, m in enumerate(grp):
            rows = rows_by_msg.get(tuple(ext["vm"][mi]) if ext else ("user_db_1", mi + 1), [])
            tag = "g%dm%d" % (gi, mi)
            payload0 = {"suite": "attrs", "message": m["text"], "replay": "bin/check C14 replay <this file>"}
            if ext:
                payload0.update({"suite": "stores", "selected": ext["sel"][mi], "store": ext["vm"][mi][0], "message_id": ext["vm"][mi][1], "ops": ops,
                                 "fetch_op_indexes": [oi for (oi, vi, _, _, _) in plan if vi == mi]})
            if mi not in fetched:
                continue
            fl = fetched[mi]
            main = fl[0][3]
            if main is None or main["n"] != 1 or "BODY[]" not in main["sections"] or main["bs"] is None:
                chk.violation("FETCH of a delivered message returned no parsable data: %r" % obs[plan[0][0]].get("recv", "")[:200], dict(payload0, cmd=fl[0][2]))
                continue
            stats["messages"] += 1
            raw = main["sections"]["BODY[]"] or ""
            hdr = main["sections"].get("BODY[HEADER]") or ""
            txt = main["sections"].get("BODY[TEXT]") or ""
            coq_defs.append("Definition rows_%s : list row := %s." % (tag, coq_rows(E, rows)))
            coq_defs.append("Definition raw_%s : str := %s." % (tag, E.s(raw)))
            single = len(rows) == 1
            if rows:
                i4m = m["text"].find("\r\n\r\n")
                flat_cases.append(("(%s, %d, rows_%s)" % (coq_tree(E, m["tree"], m["text"][i4m + 4:] if m["tree"]["leaf"] else None), rows[0]["id"], tag),
                                   {"msg": m["text"], "rows": [dict(r, content=r["content"][:60]) for r in rows], "item": "stored part rows"}))
            nontrivial.add(canon_b(raw))
            if not m["tree"]["leaf"]:
                stats["multipart"] += 1
                if any(not k["leaf"] for k in m["tree"]["kids"]):
                    stats["nested"] += 1
            stats["blob_parts"] += sum(1 for r in rows if r["blob"])
            for r in rows:
                if r["ct"].startswith("multipart/"):
                    continue
                if re.search(r"(?<!\r)\n", r["content"]):
                    stats["bare_lf_leaves"] += 1
                    stats["bare_lf_blob_leaves"] += 1 if r["blob"] else 0
                    stats["bare_lf_single_part"] += 1 if len(rows) == 1 else 0
                    if r["par"] is not None and r["par"] != rows[0]["id"]:
                        stats["bare_lf_nested_leaves"] += 1
                if re.search(r"\r(?!\n)", r["content"]):
                    stats["lone_cr_leaves"] += 1
                if is_bin(r["content"]):
                    cls = "inline" if not r["blob"] else ("blob_by_size" if len(r["content"]) > 1024 else "blob_by_file_name")
                    stats["nonascii_leaves_" + cls] = stats.get("nonascii_leaves_" + cls, 0) + 1
                    if "\x00" in r["content"]:
                        stats["leaves_with_nul"] = stats.get("leaves_with_nul", 0) + 1
                    try:
                        r["content"].encode("latin-1").decode("utf-8")
                    except UnicodeDecodeError:
                        stats["leaves_invalid_utf8"] = stats.get("leaves_invalid_utf8", 0) + 1
            # reconstruction is byte-transparent for part content (model side): the written body of
            # every leaf row occurs in BODY[]; for a single-part message BODY[TEXT] is the stored content
            if single:
                transp_cases.append(("(raw_%s, rows_%s, true)" % (tag, tag), {"msg": m["text"], "item": "BODY[TEXT] = stored content of the only part"}))
            elif rows:
                transp_cases.append(("(raw_%s, rows_%s, false)" % (tag, tag), {"msg": m["text"], "item": "written body of every leaf row occurs in BODY[]"}))
            # ---- (a)
            if main["size"] != len(raw):
                chk.violation("RFC822.SIZE %s differs from the length %d of BODY[]" % (main["size"], len(raw)), dict(payload0, part="a"))
            size_cases.append(("(raw_%s, %d%%N)" % (tag, main["size"] or 0), {"msg": m["text"], "cmd": fl[0][2], "item": "RFC822.SIZE"}))
            # ---- (b)
            if hdr + txt != raw:
                if hdr + "\r\n" + txt == raw:
                    chk.violation("BODY[HEADER] (%d octets) followed by BODY[TEXT] (%d) is not BODY[] (%d): the blank line is in neither (the defect F13, repaired once, is back)" % (len(hdr), len(txt), len(raw)),
                                  dict(payload0, part="b"))
                else:
                    chk.violation("BODY[HEADER] followed by BODY[TEXT] is not BODY[]", dict(payload0, part="b", header=hdr, text=txt))
            for (lab, s, o) in (("SecAll", "BODY[]", raw), ("SecHeader", "BODY[HEADER]", hdr), ("SecText", "BODY[TEXT]", txt)):
                item_cases.append(("(raw_%s, rows_%s, %s, None, %s)" % (tag, tag, lab, E.sub(raw, o)), {"msg": m["text"], "cmd": fl[0][2], "item": s}))
            # ---- (c) structure vs BODY[] vs BODY[p]
            mt = mime_parse(raw)
            mleaves = dict(mime_leaves(mt))
            bleaves = dict(bs_leaves(main["bs"]))
            if set(mleaves) != set(bleaves):
                chk.violation("BODYSTRUCTURE has leaf paths %s, the MIME reading of BODY[] has %s" % (sorted(bleaves), sorted(mleaves)), dict(payload0, part="c"))
            sect = {}
            for (kind, info, cmd, pr) in fl[1:]:
                if kind == "path" and info["part"] is None and pr is not None and pr["n"] == 1:
                    lab = "BODY[%s]" % ".".join(map(str, info["path"]))
                    if lab in pr["sections"]:
                        sect[info["path"]] = pr["sections"][lab] or ""
            if single and (1,) in sect and sect[(1,)] != txt:
                chk.violation("single-part message: BODY[1] (%d octets) is not BODY[TEXT] (%d octets)" % (len(sect[(1,)]), len(txt)), dict(payload0, part="c-single", got=sect[(1,)], text=txt))
            for p, bl in sorted(bleaves.items()):
                stats["leaves"] += 1
                ml = mleaves.get(p)
                got = sect.get(p)
                row = None
                if ml is not None:
                    if bl["type"] != ml["type"] or (bl["enc"] or "").upper() != ml["enc"]:
                        chk.violation("leaf %s announced as %s/%s but BODY[] has %s/%s there" % (p, bl["type"], bl["enc"], ml["type"], ml["enc"]), dict(payload0, part="c", path=list(p)))
                    if bl["size"] != len(ml["body"]):
                        chk.violation("leaf %s announced with size %d but the part in BODY[] has %d octets" % (p, bl["size"], len(ml["body"])), dict(payload0, part="c", path=list(p)))
                if got is not None and ml is not None:
                    if got != ml["body"] or bl["size"] != len(got):
                        hint = " with different content"
                        if got == ml["body"] + "\r\n" and bl["size"] + 2 == len(got):
                            hint = " (the CRLF that ends the stored content is taken for the delimiter's: defect trailing_crlf, repaired once, is back)"
                        elif ml["enc"] == "BASE64" and got.replace("\r", "").replace("\n", "") == ml["body"].replace("\r", "").replace("\n", ""):
                            hint = " (BODY[] holds a re-wrapped text: defect rewrap, repaired once, is back)"
                        chk.violation("leaf %s: BODYSTRUCTURE announces %d octets, BODY[] holds %d octets there, BODY[%s] returns %d octets%s" % (
                            p, bl["size"], len(ml["body"]), ".".join(map(str, p)), len(got), hint),
                            dict(payload0, part="c", path=list(p), got=got, in_body=ml["body"]))
                    if got.endswith("\r\n"):
                        stats["crlf_leaves"] += 1
                    if ml["enc"] == "BASE64" and not already_wrapped(got):
                        stats["rewrap_leaves"] += 1
                leaf_cases.append(("(raw_%s, %s, rows_%s, %s, (%s, %s, %d%%N))" % (tag, "true" if single else "false", tag, coq_path(p), E.s(bl["type"]), E.s(bl["enc"] or ""), bl["size"]),
                                   {"msg": m["text"], "path": list(p), "announced": bl}))
            known_paths = set(bs_nodes(main["bs"]))
            # ---- numeric sections, absent paths, partials
            for (kind, info, cmd, pr) in fl[1:]:
                stats["items"] += 1
                pl = dict(payload0, cmd=cmd)
                if pr is None or pr["n"] != 1:
                    chk.violation("no FETCH data for %s" % cmd, pl)
                    continue
                if kind == "path":
                    p = info["path"]
                    lab = "BODY[%s]" % ".".join(map(str, p))
                    if lab not in pr["sections"]:
                        chk.violation("response to %s carries no %s item" % (cmd, lab), pl)
                        continue
                    got = pr["sections"][lab] or ""
                    if p not in known_paths:
                        stats["absent_paths"] += 1
                        if got != "":
                            chk.violation("path %s is not in BODYSTRUCTURE but BODY[%s] returned %d octets" % (p, lab, len(got)), dict(pl, part="c-absent"))
                    if info["part"] is not None:
                        stats["partials"] += 1
                        whole = sect.get(p)
                        if whole is not None:
                            o, n = info["part"]
                            if got != whole[o:o + n]:
                                chk.violation("%s returned %r, the slice is %r" % (cmd, got[:80], whole[o:o + n][:80]), dict(pl, part="e"))
                    if p in known_paths and p not in bleaves:
                        continue    # container section: outside the model
                    if info.get("bin"):
                        stats["partials_on_8bit_leaves"] = stats.get("partials_on_8bit_leaves", 0) + 1
                        wh = sect.get(p) or ""
                        if 0 < info["part"][0] < len(wh) and 0x80 <= ord(wh[info["part"][0]]) <= 0xBF:
                            stats["partials_starting_inside_a_utf8_sequence"] = stats.get("partials_starting_inside_a_utf8_sequence", 0) + 1
                    if info["part"] is not None and info["part"][1] > 100000:
                        continue    # judged above against the slice; too long a unary length for the in-Coq evaluation
                    item_cases.append(("([], rows_%s, SecPath %s, %s, %s)" % (tag, coq_path(p), coq_part(info["part"]), E.sub(sect.get(p) or "", got) if info["part"] else E.s(got)),
                                       {"msg": m["text"], "cmd": cmd}))
                else:
                    r2 = pr["sections"].get("BODY[]")
                    if r2 is None:
                        chk.violation("response to %s carries no BODY[] item" % cmd, pl)
                        continue
                    stats["partials"] += 1
                    o, n = info["part"]
                    if kind == "all_partial":
                        # boundaries are regenerated for every reconstruction: positions of their digits are not compared
                        mask = set()
                        for mm in re.finditer(r"----=_Part_[A-Za-z]+_(\d+)", raw):
                            mask.update(range(mm.start(1), mm.end(1)))
                        exp = raw[o:o + n]
                        if len(r2) != len(exp) or any(r2[k] != exp[k] and (o + k) not in mask for k in range(len(exp))):
                            if len(r2) == len(raw) and len(exp) != len(raw):
                                chk.violation("%s returned the whole message (%d octets), not the slice of %d (partial ignored on BODY[])" % (cmd, len(r2), len(exp)), dict(pl, part="e"))
                            else:
                                chk.violation("%s returned %d octets %r, the slice has %d: %r" % (cmd, len(r2), r2[:60], len(exp), exp[:60]), dict(pl, part="e", got=r2))
                        rawm = "".join("0" if k in mask else c for k, c in enumerate(raw))
                        r2m = "".join("0" if (o + k) in mask else c for k, c in enumerate(r2)) if len(r2) <= len(exp) else r2
                        item_cases.append(("(%s, rows_%s, SecAll, %s, %s)" % (E.s(rawm), tag, coq_part(info["part"]), E.sub(rawm, r2m)), {"msg": m["text"], "cmd": cmd}))
                        continue
                    rawname = E.s(r2) if (r2 == raw or len(r2) <= 1500) else None
                    i4 = r2.find("\r\n\r\n")
                    if kind == "text_partial":
                        got = pr["sections"].get("BODY[TEXT]")
                        if got is None:
                            chk.violation("response to %s carries no BODY[TEXT] item" % cmd, pl)
                            continue
                        whole = r2[i4 + 4:] if i4 >= 0 else ""
                        if got != whole[o:o + n]:
                            chk.violation("%s returned %r, the slice of the text is %r" % (cmd, got[:80], whole[o:o + n][:80]), dict(pl, part="e"))
                        if rawname:
                            item_cases.append(("(%s, rows_%s, SecText, %s, %s)" % (rawname, tag, coq_part(info["part"]), E.sub(r2, got)), {"msg": m["text"], "cmd": cmd}))
                    else:
                        got = pr["sections"].get("BODY[HEADER]")
                        if got is None:
                            chk.violation("response to %s carries no BODY[HEADER] item" % cmd, pl)
                            continue
                        whole = r2[:i4 + 4] if i4 >= 0 else r2
                        if got != whole[o:o + n]:
                            if got in (whole, whole[:-2]) :
                                chk.violation("%s returned the whole header (%d octets), not the slice of %d (partial ignored on BODY[HEADER])" % (cmd, len(got), len(whole[o:o + n])), dict(pl, part="e"))
                            else:
                                chk.violation("%s returned %r, the slice of the header is %r" % (cmd, got[:80], whole[o:o + n][:80]), dict(pl, part="e", got=got))
                        if rawname:
                            item_cases.append(("(%s, rows_%s, SecHeader, %s, %s)" % (rawname, tag, coq_part(info["part"]), E.sub(r2, got)), {"msg": m["text"], "cmd": cmd}))
            # ---- chunked download: the pieces BODY[]<o.n>, in order, make up BODY[]
            pieces = [(info["chunk"], pr["sections"].get("BODY[]") or "") for (kind, info, cmd, pr) in fl[1:]
                      if kind == "all_partial" and "chunk" in info and pr is not None and pr["n"] == 1]
            if pieces:
                stats["chunked_downloads"] = stats.get("chunked_downloads", 0) + 1
                whole = "".join(x for _, x in sorted(pieces))
                mask = set()
                for mm in re.finditer(r"----=_Part_[A-Za-z]+_(\d+)", raw):
                    mask.update(range(mm.start(1), mm.end(1)))
                if len(whole) != len(raw) or any(whole[k] != raw[k] and k not in mask for k in range(len(raw))):
                    chk.violation("the %d chunks BODY[]<o.n> of a download add up to %d octets, BODY[] has %d%s" % (
                        len(pieces), len(whole), len(raw), "" if len(whole) != len(raw) else " (content differs)"), dict(payload0, part="e-chunks"))
            # ---- (d)
            check_envelope(chk, m, main["envelope"], payload0, stats)
            if stats["messages"] <= 2:
                chk.sample({"message": m["text"][:400], "RFC822.SIZE": main["size"], "len BODY[]": len(raw), "len HEADER": len(hdr), "len TEXT": len(txt),
                            "leaves": [(list(p), b) for p, b in sorted(bleaves.items())][:4]})
    # ---- model vs implementation, inside Coq
    ncoq = 0
    if item_cases:
        body = COQ_HDR + "\n".join(E.defs) + "\n" + "\n".join(coq_defs) + "\n"
        body += "Definition item_cases : list (str * list row * section * option (nat * nat) * str) := [\n%s].\n" % ";\n".join(c for c, _ in item_cases)
        body += "Definition item_bad := Eval vm_compute in bad (map (fun '(raw, rows, s, p, o) => opt_str_eqb (fetch_item raw rows s p) o) item_cases).\nPrint item_bad.\n"
        body += "Definition size_cases : list (str * N) := [\n%s].\n" % ";\n".join(c for c, _ in size_cases)
        body += "Definition size_bad := Eval vm_compute in bad (map (fun '(raw, n) => N.eqb (N.of_nat (size_of raw)) n) size_cases).\nPrint size_bad.\n"
        body += "Definition leaf_cases : list (str * bool * list row * list nat * (str * str * N)) := [\n%s].\n" % ";\n".join(c for c, _ in leaf_cases)
        body += ("Definition leaf_eqb (a : str * str * nat) (b : str * str * N) := let '(t1, e1, n1) := a in let '(t2, e2, n2) := b in str_eqb t1 t2 && str_eqb e1 e2 && N.eqb (N.of_nat n1) n2.\n"
                 "Definition leaf_bad := Eval vm_compute in bad (map (fun c : str * bool * list row * list nat * (str * str * N) => let '(raw, single, rows, p, o) := c in match map_path rows p with Some r => leaf_eqb (if single then announced_single raw r else announced_leaf strip2 r) o | None => false end) leaf_cases).\nPrint leaf_bad.\n")
        body += "Definition flat_cases : list (tree * nat * list row) := [\n%s].\n" % ";\n".join(c for c, _ in flat_cases)
        body += ("Definition onat_eqb (a b : option nat) := match a, b with Some x, Some y => Nat.eqb x y | None, None => true | _, _ => false end.\n"
                 "Definition row_eqb (a b : row) := Nat.eqb (rid a) (rid b) && Nat.eqb (rpn a) (rpn b) && onat_eqb (rpar a) (rpar b) && str_eqb (rct a) (rct b) && str_eqb (renc a) (renc b) && str_eqb (rcontent a) (rcontent b).\n"
                 "Fixpoint rows_eqb (a b : list row) := match a, b with [], [] => true | x :: a', y :: b' => row_eqb x y && rows_eqb a' b' | _, _ => false end.\n"
                 "Definition flat_bad := Eval vm_compute in bad (map (fun c : tree * nat * list row => let '(t, base, rows) := c in rows_eqb (rows_of t base) rows) flat_cases).\nPrint flat_bad.\n")
        body += "Definition transp_cases : list (str * list row * bool) := [\n%s].\n" % ";\n".join(c for c, _ in transp_cases)
        body += ("Definition is_leaf_row (r : row) := negb (has_prefix (rct r) multipart_pfx).\n"
                 "Definition transp_bad := Eval vm_compute in bad (map (fun c : str * list row * bool => let '(raw, rows, single) := c in "
                 "if single then match rows with [r] => str_eqb (text_of (load_raw raw)) (rcontent r) | _ => false end "
                 "else forallb (fun r => negb (is_leaf_row r) || contains (load_raw raw) (crlf ++ crlf ++ written_content (renc r) (rcontent r) ++ [ascii_of_nat 45; ascii_of_nat 45])%list) rows) transp_cases).\nPrint transp_bad.\n")
        rc, log = C.coq_eval_cases(name or ("C14_attrs" if not corpus_mode else "C14_corpus"), body)
        if rc != 0:
            chk.broken_obligation("in-Coq evaluation of the C14 attrs cases failed:\n" + log[-1500:], {"suite": "attrs"})
        else:
            for name, cases, what in (("item_bad", item_cases, "fetch_item"), ("size_bad", size_cases, "size_of"), ("leaf_bad", leaf_cases, "announced_leaf/map_path"),
                                      ("flat_bad", flat_cases, "rows_of (row numbering of parseMultipart + StoreMessagePerUser...)"),
                                      ("transp_bad", transp_cases, "load_raw/written_content (BODY[] holds the stored part content byte for byte)")):
                d = parse_bad(log, name)
                if d is None:
                    chk.broken_obligation("could not read %s from the Coq output" % name, {"suite": "attrs"})
                    continue
                ncoq += len(cases)
                for i in d[:3]:
                    chk.cov["disagreements_checked"] += 1
                    mismatch(chk, what, cases[i])
    stats["coq_cases"] = ncoq
    stats["nontrivial"] = len(nontrivial)
    return stats


def mismatch(chk, what, case):
    """implementation != model on a case.  The spec was evaluated on the same
    outputs above; if it flagged nothing new, the correspondence is broken."""
    fresh = [v for v in chk.violations if not v[2]]
    if fresh:
        chk.notes.append("model %s disagrees with the implementation on %r (a violation was found on the same run)" % (what, case[1].get("cmd", case[1].get("path"))))
        return
    chk.broken_obligation("correspondence attrs no longer checks: Model.Sections.%s differs from the implementation on %s" % (what, json.dumps(case[1])[:300]),
                          dict(case[1], suite="attrs", coq=case[0][:2000]))


def parse_fetch_safe(recv):
    try:
        return parse_fetch(recv)
    except Exception:   # unparsable response
        return None


def check_envelope(chk, m, env, payload0, stats):
    if env is None or len(env) != 10:
        chk.violation("ENVELOPE missing or not 10 fields: %r" % (env,), dict(payload0, part="d"))
        return
    exp = expected_envelope(m)
    got = {"date": env[0], "subject": env[1], "from": env_addr_list(env[2]), "sender": env_addr_list(env[3]), "reply_to": env_addr_list(env[4]),
           "to": env_addr_list(env[5]), "cc": env_addr_list(env[6]), "bcc": env_addr_list(env[7]), "in_reply_to": env[8], "message_id": env[9]}
    for k in ("date", "subject", "in_reply_to", "message_id"):
        if got[k] != exp[k]:
            chk.violation("ENVELOPE %s is %r, the header field is %r" % (k, got[k], exp[k]), dict(payload0, part="d", field=k))
    for k in ("from", "sender", "reply_to", "to", "cc", "bcc"):
        if got[k] != exp[k]:
            chk.violation("ENVELOPE %s is %r, the header field holds %r" % (k, got[k], exp[k]), dict(payload0, part="d", field=k))
        elif k != "bcc" and addr_classes(m, k):
            stats["special_names"] += 1


# ---------------------------------------------------------------------------
# mappath suite

def gen_table(rng):
    k = rng.randint(1, 9)
    ids = rng.sample(range(1, 40), k)
    if rng.random() < 0.6:
        ids.sort()
    rows = []
    for i, idv in enumerate(ids):
        if i == 0 or rng.random() < 0.15:
            par = -1
        elif rng.random() < 0.9:
            par = rng.choice(ids[:i])
        else:
            par = rng.choice([idv, 99, ids[-1]])
        ct = rng.choice(["multipart/mixed", "multipart/alternative", "text/plain", "text/html", "image/png", "Multipart/Mixed", "multipart", "MULTIPART/related"])
        rows.append({"id": idv, "pn": rng.randint(1, 4), "par": par, "ct": ct})
    path = [rng.choice([0, 1, 1, 1, 2, 2, 3, 4]) for _ in range(rng.randint(0, 4))]
    return rows, path


def run_mappath(chk, n):
    cases = [gen_table(chk.rng) for _ in range(n)]
    ops = [{"op": "batch", "fn": "mapPath", "cases": [
        {"a": [r["ct"] for r in rows], "n": [len(rows)] + [x for r in rows for x in (r["id"], r["pn"], r["par"])] + path} for rows, path in cases]}]
    res = C.run_ops(ops)
    if res.get("crashed"):
        chk.broken_obligation("driver crashed on the mappath suite: %s" % res.get("stderr", "")[:300], {"suite": "mappath"})
        return 0
    rs = res["obs"][0]["rs"]
    body = COQ_HDR + "Definition mp_cases : list (list row * list nat * option nat) := [\n%s].\n" % ";\n".join(
        "([%s], %s, %s)" % ("; ".join("mkRow %d %d %s %s [] []" % (r["id"], r["pn"], "None" if r["par"] < 0 else "(Some %d)" % r["par"], cstr(r["ct"])) for r in rows),
                            coq_path(path), "None" if (not isinstance(o, int) or o < 0) else "(Some %d)" % o)
        for (rows, path), o in zip(cases, rs))
    body += ("Definition onat_eqb (a b : option nat) := match a, b with Some x, Some y => Nat.eqb x y | None, None => true | _, _ => false end.\n"
             "Definition mp_bad := Eval vm_compute in bad (map (fun '(rows, p, o) => onat_eqb (option_map rid (map_path rows p)) o) mp_cases).\nPrint mp_bad.\n")
    rc, log = C.coq_eval_cases("C14_mappath", body)
    if rc != 0:
        chk.broken_obligation("in-Coq evaluation of the mappath cases failed:\n" + log[-1500:], {"suite": "mappath"})
        return 0
    d = parse_bad(log, "mp_bad")
    if d is None:
        chk.broken_obligation("could not read mp_bad", {"suite": "mappath"})
        return 0
    for i in d[:3]:
        chk.cov["disagreements_checked"] += 1
        rows, path = cases[i]
        if isinstance(rs[i], dict):
            chk.violation("mapIMAPPartPathToDBPart panics on a part table: %s" % rs[i].get("panic"), {"suite": "mappath", "rows": rows, "path": path})
            continue
        # is the table one a delivery can produce (tree shaped, preorder ids)?  then it is a violation of (c)
        chk.broken_obligation("correspondence mappath no longer checks: mapIMAPPartPathToDBPart returned row %r, the model differs, on rows=%r path=%r" % (rs[i], rows, path),
                              {"suite": "mappath", "rows": rows, "path": path, "impl": rs[i]})
    return len(cases)


# ---------------------------------------------------------------------------
# envelope suite (direct calls vs Model/Envelope.v)

HATOMS = ["From", "from", "TO", "Subject", "Date", "X-Y", ":", ": ", " ", "\t", "\r\n", "\n", "\r\n ", "\r\n\r\n", "a", "b@c", "<", ">", "\"", "\\", ",", "@", "Bob", "x.y"]


def run_envelope(chk, n):
    rng = chk.rng
    raws, addrs, quotes = [], [], []
    for _ in range(n):
        raws.append(("".join(rng.choice(HATOMS) for _ in range(rng.randint(0, 14))), rng.choice(["From", "To", "Subject", "X-Y", "date"])))
        addrs.append("".join(rng.choice(["a", "b@c", "<", ">", "\"", "\\", ",", ", ", "@", " ", "Bob", "x.y", "Doe"]) for _ in range(rng.randint(0, 8))))
        quotes.append("".join(rng.choice(["a", "\"", "\\", " ", "NIL", "é"]) for _ in range(rng.randint(0, 5))))
    for i in range(0, n, 7):    # well-formed ones
        addrs[i] = ", ".join(gen_addr(rng, True)["text"] for _ in range(rng.randint(1, 3)))
    envs = []
    for i in range(max(20, n // 10)):
        m = gen_message(rng, i)
        envs.append(m["text"])
    ops = [{"op": "batch", "fn": "extractHeader", "cases": [{"a": [C.latin(r), h]} for r, h in raws]},
           {"op": "batch", "fn": "parseAddressList", "cases": [{"a": [C.latin(a)]} for a in addrs]},
           {"op": "batch", "fn": "QuoteOrNIL", "cases": [{"a": [C.latin(a.encode("latin-1"))]} for a in quotes]},
           {"op": "batch", "fn": "BuildEnvelope", "cases": [{"a": [C.latin(a)]} for a in envs]}]
    AF = ["From", "Sender", "Reply-To", "To", "Cc", "Bcc"]
    ops.append({"op": "batch", "fn": "extractHeader", "cases": [{"a": [C.latin(a), f]} for a in envs for f in AF]})
    res = C.run_ops(ops)
    if res.get("crashed"):
        chk.broken_obligation("driver crashed on the envelope suite: %s" % res.get("stderr", "")[:300], {"suite": "envelope"})
        return 0
    o = [x["rs"] for x in res["obs"]]
    # the library reading (net/mail) of every address-list text: parameter mail_parse of the model
    texts = sorted(set(addrs) | set(C.unlatin(v).decode("latin-1") for v in o[4] if isinstance(v, str) and v))
    res2 = C.run_ops([{"op": "batch", "fn": "mailParse", "cases": [{"a": [C.latin(t)]} for t in texts]}])
    if res2.get("crashed"):
        chk.broken_obligation("driver crashed on the envelope suite (mailParse): %s" % res2.get("stderr", "")[:300], {"suite": "envelope"})
        return 0
    oracle = dict(zip(texts, res2["obs"][0]["rs"]))

    def coq_oracle(v):
        if not isinstance(v, list):
            return "None"
        return "(Some [%s])" % "; ".join("(%s, %s)" % (cstr(C.unlatin(v[i]).decode("latin-1")), cstr(C.unlatin(v[i + 1]).decode("latin-1"))) for i in range(0, len(v), 2))

    def ostr(v):
        return "None" if isinstance(v, dict) else "(Some %s)" % cstr(v)
    body = COQ_HDR + "Definition mp_table : list (str * option (list (str * str))) := [\n%s].\n" % ";\n".join("(%s, %s)" % (cstr(t), coq_oracle(oracle[t])) for t in texts)
    body += "Definition mail_parse (s : str) : option (list (str * str)) := match find (fun e => str_eqb (fst e) s) mp_table with Some e => snd e | None => None end.\n"
    body += "Definition ostr_eqb (a b : option str) := match a, b with Some x, Some y => str_eqb x y | None, None => true | _, _ => false end.\n"
    body += "Definition eh_cases : list (str * str * str) := [\n%s].\n" % ";\n".join("(%s, %s, %s)" % (cstr(r), cstr(h), cstr(v)) for (r, h), v in zip(raws, o[0]))
    body += "Definition eh_bad := Eval vm_compute in bad (map (fun '(r, h, v) => str_eqb (extract_header r h) v) eh_cases).\nPrint eh_bad.\n"
    body += "Definition pa_cases : list (str * option str) := [\n%s].\n" % ";\n".join("(%s, %s)" % (cstr(a), ostr(v)) for a, v in zip(addrs, o[1]))
    body += "Definition pa_bad := Eval vm_compute in bad (map (fun '(a, v) => ostr_eqb (parse_address_list mail_parse a) v) pa_cases).\nPrint pa_bad.\n"
    body += "Definition q_cases : list (str * str) := [\n%s].\n" % ";\n".join("(%s, %s)" % (cstr(a), cstr(v)) for a, v in zip(quotes, o[2]))
    body += "Definition q_bad := Eval vm_compute in bad (map (fun '(a, v) => str_eqb (quote_or_nil a) v) q_cases).\nPrint q_bad.\n"
    body += "Definition be_cases : list (str * option str) := [\n%s].\n" % ";\n".join("(%s, %s)" % (cstr(a), ostr(v)) for a, v in zip(envs, o[3]))
    body += "Definition be_bad := Eval vm_compute in bad (map (fun '(a, v) => ostr_eqb (build_envelope mail_parse a) v) be_cases).\nPrint be_bad.\n"
    rc, log = C.coq_eval_cases("C14_envelope", body)
    if rc != 0:
        chk.broken_obligation("in-Coq evaluation of the envelope cases failed:\n" + log[-1500:], {"suite": "envelope"})
        return 0
    total = 0
    for name, ins, outs, fn in (("eh_bad", raws, o[0], "extractHeader"), ("pa_bad", addrs, o[1], "parseAddressList"), ("q_bad", quotes, o[2], "QuoteOrNIL"), ("be_bad", envs, o[3], "BuildEnvelope")):
        d = parse_bad(log, name)
        if d is None:
            chk.broken_obligation("could not read %s" % name, {"suite": "envelope"})
            continue
        total += len(ins)
        for i in d[:3]:
            chk.cov["disagreements_checked"] += 1
            s = ins[i] if isinstance(ins[i], str) else "".join(ins[i])
            if any(ord(ch) > 127 for ch in s):
                chk.notes.append("domain edge (non-ASCII bytes): %s on %r" % (fn, ins[i]))
                continue
            chk.broken_obligation("correspondence envelope no longer checks: response.%s returned %r on %r, the model differs" % (fn, outs[i], ins[i]),
                                  {"suite": "envelope", "fn": fn, "input": ins[i], "impl": outs[i]})
    return total


# ---------------------------------------------------------------------------

def replay_corpus(chk):
    """witnesses of the listed findings, first"""
    msgs = []
    for f in sorted(glob.glob(os.path.join(CORPUS, "*.json"))):
        d = json.load(open(f))
        if d.get("suite") == "attrs" and "gen" in d:
            msgs.append(d["gen"])
    if not msgs:
        return
    import random
    rng = random.Random(14)
    built = [scenario_ops(msgs, rng, both=True)]
    results = C.run_many([built[0][0]], workers=1)
    evaluate_attrs(chk, [msgs], built, results, corpus_mode=True)


def run(chk):
    quick = chk.tier == "quick"
    import time
    t0 = time.time()
    replay_corpus(chk)
    t1 = time.time()
    nmsg = 128 if quick else 1200
    st = run_attrs(chk, nmsg)
    t2 = time.time()
    st2 = run_stores(chk, 6 if quick else 40)
    t2b = time.time()
    nmp = run_mappath(chk, 600 if quick else 2000)
    t3 = time.time()
    nenv = run_envelope(chk, 300 if quick else 1200)
    t4 = time.time()
    chk.cov["suite_wall_s"] = {"corpus": round(t1 - t0, 1), "attrs": round(t2 - t1, 1), "stores": round(t2b - t2, 1), "mappath": round(t3 - t2b, 1), "envelope": round(t4 - t3, 1)}
    chk.cov["evaluations"] = st.get("coq_cases", 0) + st2.get("coq_cases", 0) + nmp + nenv
    chk.cov["traces_validated_against_impl"] = st.get("messages", 0) + st2.get("messages", 0)
    for k, v in st2.items():
        chk.cov["stores_" + k] = v
    chk.cov["distinct_nontrivial"] = st.get("nontrivial", 0)
    chk.cov["rule"] = ("attrs: seeded messages of the C02 grammar (headers in random order, folded fields, display names plain/quoted/with comma/with quoted pairs; single part or multipart "
                       "nested up to depth 3; leaf content empty / without / with one / with two final line breaks, 8bit / binary content (valid 2-4 octet UTF-8, invalid UTF-8, with NUL) inline, as local blob by size and by file name, with partial ranges on every leaf of such a message (offsets inside multi-byte sequences, 0, last octet, at and beyond the end, n = 0, n = 70000 and 2^32-1), with bare LF, lone CR and mixed line endings inside the CRLF framing (inline, nested, out of line, single-part bodies; also ending in a bare LF / lone CR), base64 one-line short and long, wrapped with CRLF or bare LF; parts > 1024 octets or with a "
                       "filename are stored as blobs) delivered over LMTP and read over IMAP: one FETCH of RFC822.SIZE BODYSTRUCTURE ENVELOPE BODY[] BODY[HEADER] BODY[TEXT], one per leaf path, "
                       "absent paths, partials on leaves, TEXT, BODY[] and HEADER. Every item is (1) judged by the executable reading of C14 and (2) compared with Model/Sections.v evaluated "
                       "by vm_compute on the message's part table. distinct_nontrivial = distinct reconstructed texts (boundaries renamed). stores: one connection of a user with a role mailbox, different messages under the same message ids in the personal and the role store; "
                       "attribute sets fetched while switching stores (SELECT/EXAMINE, after CLOSE/UNSELECT, both orders), repeated and interleaved in one mailbox with APPEND and EXPUNGE in between, "
                       "chunked downloads BODY[]<o.n> whose pieces must add up to BODY[]; every fetch set judged and model-compared against the part table of the store that is selected. "
                       "mappath: random part tables vs map_path. "
                       "envelope: random header blocks / address lists vs Model/Envelope.v")
    for k, v in st.items():
        chk.cov["attrs_" + k] = v
    chk.cov["mappath_cases"] = nmp
    chk.cov["envelope_cases"] = nenv
    chk.notes.append("BODYSTRUCTURE is computed by Go's multipart.Reader / mime.ParseMediaType (not modelled): the theorems on announced sizes carry the hypothesis reader_inverts_writer; "
                     "the attrs suite exercises it on every leaf")
    chk.notes.append("generated boundaries differ between two reconstructions of the same message; they are renamed before texts of different FETCH commands are compared")


def replay(path):
    d = json.load(open(path))
    if d.get("suite") == "stores" and "ops" in d:
        C.pregen_all()
        r = C.run_ops(d["ops"])
        print("what:", d.get("what"))
        print("fetch set of message id %s of store %s, selected by: %s" % (d.get("message_id"), d.get("store"), d.get("selected")))
        for oi in d.get("fetch_op_indexes", []):
            print(">>", d["ops"][oi]["data"].strip())
            print(r["obs"][oi].get("recv", "")[:1500])
        return 0
    if d.get("suite") == "attrs" and ("message" in d or "gen" in d):
        text = d["gen"]["text"] if "gen" in d else d["message"]
        import proto_common as P
        ops = [{"op": "open", "conn": "sa", "kind": "tls"},
               {"op": "send", "conn": "sa", "data": "s1 LOGIN %s pw\r\n" % A, "until": "tag:s1"},
               {"op": "lmtp_open", "conn": "l1"},
               {"op": "send", "conn": "l1", "data": "LHLO x\r\n", "until": "lmtp:1"}]
        ops += P.lmtp_deliver("l1", A, C.latin(text))
        ops.append({"op": "send", "conn": "sa", "data": "s2 SELECT INBOX\r\n", "until": "tag:s2"})
        cmds = [d["cmd"]] if d.get("cmd") else []
        cmds.insert(0, "FETCH 1 (RFC822.SIZE BODYSTRUCTURE ENVELOPE BODY.PEEK[] BODY.PEEK[HEADER] BODY.PEEK[TEXT])")
        for i, c in enumerate(cmds):
            c = re.sub(r"^FETCH \d+", "FETCH 1", c)
            ops.append({"op": "send", "conn": "sa", "data": "r%d %s\r\n" % (i, c), "until": "tag:r%d" % i})
        r = C.run_ops(ops)
        print("what:", d.get("what"))
        for o in r["obs"][-len(cmds):]:
            print(o.get("recv", "")[:3000])
        return 0
    print(json.dumps(d, indent=1)[:4000])
    return 0
