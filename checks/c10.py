"""C10 — flag updates: correspondence of Model/Flags.v + Model/FlagStore.v with
message.CalculateNewFlags / utils.CalculateNewFlags (direct calls) and with
STORE / UID STORE / UID COPY / APPEND / EXPUNGE / EXAMINE histories read back
from a second session (after a restart of the store managers)."""
import glob
import json
import os
import re

import common as C

ITEMS = ["FLAGS", "+FLAGS", "-FLAGS"]
SYS = ["\\Seen", "\\Answered", "\\Flagged", "\\Deleted", "\\Draft"]
# keywords incl. substring twins of each other and of system flags
KEYWORDS = ["kw", "kw2", "akw", "$Forwarded", "Seen", "\\Seenish", "x\\Seen", "\\seen", "\\DeletedX",
            "$NotJunk", "Junkish", "$Junk", "\\RecentX", "\\Flag", "Work", "work"]
JUNKS = ["Junk", "NonJunk"]


# ---------------------------------------------------------------------------
# suite 1: direct calls of both CalculateNewFlags copies

def gen_direct(rng, n):
    pool = SYS + KEYWORDS + JUNKS + ["\\Recent"]
    cases = []
    for _ in range(n):
        k = rng.choice([0, 1, 2, 3, 4, 6])
        cur_atoms = [rng.choice(pool) for _ in range(k)]
        sep = rng.choice([" ", " ", "  ", "\t"])
        cur = sep.join(cur_atoms)
        if rng.random() < 0.1:
            cur = " " + cur + " "
        if rng.random() < 0.6 and cur_atoms:
            new = [rng.choice(cur_atoms + pool) for _ in range(rng.randint(0, 4))]
        else:
            new = [rng.choice(pool) for _ in range(rng.randint(0, 4))]
        r = rng.random()
        item = rng.choice(ITEMS) if r < 0.93 else rng.choice(["flags", "FLAGS.SILENT", "", "+FLAG", "-FLAGS "])
        cases.append((cur, new, item))
    return cases


def gen_direct_nonascii(rng, n):
    out = []
    for _ in range(n):
        a = rng.choice(["k\xe9", "a\xc2\xa0b", "\xa0", "\xc2\x85x", "\xff"])
        cur = " ".join([a, "\\Seen"][:rng.randint(1, 2)])
        out.append((cur, [rng.choice([a, "kw"])], rng.choice(ITEMS)))
    return out


def coq_strs(l):
    return C.coq_list([C.coq_str(x) for x in l])


def suite_direct(chk, body_parts, post):
    n = 1200 if chk.tier == "quick" else 12000
    cases = gen_direct(chk.rng, n)
    na = gen_direct_nonascii(chk.rng, 24)
    allc = cases + na
    ops = []
    for fn in ("CalculateNewFlags", "CalculateNewFlagsUtils"):
        ops.append({"op": "batch", "fn": fn, "cases": [{"a": [C.latin(cur), C.latin(" ".join(new)), item]} for (cur, new, item) in allc]})
    res = C.run_ops(ops, timeout=600)
    if res.get("crashed") or len(res["obs"]) != 2 or "rs" not in res["obs"][0]:
        chk.broken_obligation("driver failed on the C10 direct-call suite: %s" % (res.get("stderr", "") or json.dumps(res)[:500]))
        return False
    r_msg = res["obs"][0]["rs"]
    r_utl = res["obs"][1]["rs"]

    def enc(r):
        if isinstance(r, dict):      # panic
            return "None"
        return "(Some %s)" % coq_strs([C.unlatin(x) for x in (r or [])])

    body = "Definition direct_cases : list (str * list str * str * option (list str) * option (list str)) := [\n%s].\n" % ";\n".join(
        "(%s, %s, %s, %s, %s)" % (C.coq_str(cur), coq_strs(new), C.coq_str(item), enc(a), enc(b))
        for (cur, new, item), a, b in zip(allc, r_msg, r_utl))
    body += """
Definition direct_model_ok (c : str * list str * str * option (list str) * option (list str)) : bool :=
  let '(cur, new, item, r1, r2) := c in
  let m := calculate_new_flags_str cur new item in
  match r1, r2 with
  | Some a, Some b => set_eqb a m && set_eqb b m
  | _, _ => false
  end.
Definition direct_spec_ok (c : str * list str * str * option (list str) * option (list str)) : bool :=
  let '(cur, new, item, r1, r2) := c in
  match item_of item, r1, r2 with
  | Some it, Some a, Some b => apply_ok it (fields cur) new a && apply_ok it (fields cur) new b
  | None, Some a, Some b => set_eqb a (to_set (fields cur)) && set_eqb b (to_set (fields cur))
  | _, _, _ => false
  end.
Definition direct_model_bad := Eval vm_compute in diff_positions Bool.eqb 0 (map direct_model_ok direct_cases) (map (fun _ => true) direct_cases).
Print direct_model_bad.
Definition direct_spec_bad := Eval vm_compute in diff_positions Bool.eqb 0 (map direct_spec_ok direct_cases) (map (fun _ => true) direct_cases).
Print direct_spec_bad.
"""
    body_parts.append(body)

    def after(log):
        mb = parse_nat_list(log, "direct_model_bad")
        sb = parse_nat_list(log, "direct_spec_bad")
        if mb is None or sb is None:
            chk.broken_obligation("could not read the direct-call results from Coq:\n" + log[-1500:])
            return
        chk.cov["evaluations"] += 2 * len(allc)
        chk.cov["direct_cases"] = len(cases)
        chk.cov["direct_nonascii_cases"] = len(na)
        nontriv = set((cur, tuple(new), item) for (cur, new, item) in cases if new and cur.split() and item in ITEMS)
        chk.cov["distinct_nontrivial"] += len(nontriv)
        chk.cov["direct_by_item"] = {it: sum(1 for c in cases if c[2] == it) for it in ITEMS}
        chk.sample({"suite": "direct", "cur": allc[0][0], "new": allc[0][1], "item": allc[0][2], "impl": r_msg[0]})
        nd = 0
        for i in sorted(set(mb) | set(sb)):
            nd += 1
            cur, new, item = allc[i]
            if i >= len(cases):
                chk.notes.append("domain edge (non-ASCII bytes: Go's strings.Fields is Unicode-aware, the model is ASCII): cur=%r new=%r" % (cur, new))
                continue
            payload = {"suite": "direct", "cur": cur, "new": new, "item": item, "impl_message": r_msg[i], "impl_utils": r_utl[i]}
            if i in sb:
                chk.violation("CalculateNewFlags(%r, %r, %r) returned %r / %r (message/utils copy): not the set algebra of the data item"
                              % (cur, new, item, r_msg[i], r_utl[i]), payload)
            else:
                chk.broken_obligation("correspondence direct no longer checks: CalculateNewFlags(%r, %r, %r) = %r differs from the model but satisfies the oracle" % (cur, new, item, r_msg[i]), payload)
        chk.cov["disagreements_checked"] += nd
    post.append(after)
    return True


def parse_nat_list(log, name):
    txt = C.parse_coq_list_out(log, name)
    if txt is None:
        return None
    txt = txt.strip()
    if txt == "[]":
        return []
    return [int(x) for x in txt.strip("[]").replace("%nat", "").split(";") if x.strip()]


# ---------------------------------------------------------------------------

HEADER = C.COQ_CASE_HEADER + "From Raven Require Import Base.Enum Model.Flags Spec.FlagSet.\n"


def run(chk):
    chk.cov["rule"] = ("direct: (current flag string, named flags, data item) drawn from system flags, \\Recent, Junk/NonJunk and keywords that are substrings/case variants of each other, "
                       "both CalculateNewFlags copies vs the model (set comparison) and vs the set-algebra oracle apply_ok, evaluated by vm_compute; "
                       "non-trivial = non-empty current set, non-empty named list, valid data item")
    body_parts, post = [], []
    if not suite_direct(chk, body_parts, post):
        return
    rc, log = C.coq_eval_cases("C10", HEADER + "\n".join(body_parts))
    if rc != 0:
        chk.broken_obligation("in-Coq evaluation of the C10 cases failed:\n" + log[-2000:])
        return
    for f in post:
        f(log)
    chk.cov["traces_validated_against_impl"] = chk.cov["evaluations"]


def replay(path):
    d = json.load(open(path))
    if d.get("suite") == "direct":
        for fn in ("CalculateNewFlags", "CalculateNewFlagsUtils"):
            print(fn, C.run_ops([{"op": "call", "fn": fn, "a": [d["cur"], " ".join(d["new"]), d["item"]]}]))
    else:
        print(json.dumps(d, indent=1))
    return 0
