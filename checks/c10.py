"""C10 — flag updates: correspondence of Model/Flags.v + Model/FlagStore.v with
message.CalculateNewFlags / utils.CalculateNewFlags (direct calls) and with
STORE / UID STORE / UID COPY / APPEND / EXPUNGE / EXAMINE histories read back
from a second session (after a restart of the store managers)."""
import glob
import json
import os
import re

import common as C

ITEMS = ["FLAGS", "+FLAGS", "-FLAGS"]
SYS = ["\\Seen", "\\Answered", "\\Flagged", "\\Deleted", "\\Draft"]
# keywords incl. substring twins of each other and of system flags
KEYWORDS = ["kw", "kw2", "akw", "$Forwarded", "Seen", "\\Seenish", "x\\Seen", "\\seen", "\\DeletedX",
            "$NotJunk", "Junkish", "$Junk", "\\RecentX", "\\Flag", "Work", "work"]
# other spellings of the same flags (flag names are case-insensitive)
CASE_TWINS = ["\\seen", "\\SEEN", "\\deleted", "\\DELETED", "\\flagged", "KW", "Kw", "\\recent", "\\RECENT", "$forwarded"]
JUNKS = ["Junk", "NonJunk"]
# tokens that are not RFC 3501 flags (none starts with "(" or ends with ")": STORE trims those)
BAD_FLAGS = ["x)y", "a(b", 'a"b', "a%b", "x*y", "\\*", "a\\b", "a]b", "\\\\x", "\\", "k\x7fw", "k\x01w", "k\xe9"]


# ---------------------------------------------------------------------------
# suite 1: direct calls of both CalculateNewFlags copies

def gen_direct(rng, n):
    pool = SYS + KEYWORDS + JUNKS + ["\\Recent"] + CASE_TWINS
    cases = []
    for _ in range(n):
        k = rng.choice([0, 1, 2, 3, 4, 6])
        cur_atoms = [rng.choice(pool) for _ in range(k)]
        sep = rng.choice([" ", " ", "  ", "\t"])
        cur = sep.join(cur_atoms)
        if rng.random() < 0.1:
            cur = " " + cur + " "
        if rng.random() < 0.6 and cur_atoms:
            new = [rng.choice(cur_atoms + pool) for _ in range(rng.randint(0, 4))]
        else:
            new = [rng.choice(pool) for _ in range(rng.randint(0, 4))]
        r = rng.random()
        item = rng.choice(ITEMS) if r < 0.93 else rng.choice(["flags", "FLAGS.SILENT", "", "+FLAG", "-FLAGS "])
        cases.append((cur, new, item))
    return cases


def gen_direct_nonascii(rng, n):
    out = []
    for _ in range(n):
        a = rng.choice(["k\xe9", "a\xc2\xa0b", "\xa0", "\xc2\x85x", "\xff"])
        cur = " ".join([a, "\\Seen"][:rng.randint(1, 2)])
        out.append((cur, [rng.choice([a, "kw"])], rng.choice(ITEMS)))
    return out


def coq_strs(l):
    return C.coq_list([C.coq_str(x) for x in l])


def suite_direct(chk, body_parts, post):
    n = 1200 if chk.tier == "quick" else 12000
    cases = gen_direct(chk.rng, n)
    na = gen_direct_nonascii(chk.rng, 24)
    allc = cases + na
    ops = []
    for fn in ("CalculateNewFlags", "CalculateNewFlagsUtils"):
        ops.append({"op": "batch", "fn": fn, "cases": [{"a": [C.latin(cur), C.latin(" ".join(new)), item]} for (cur, new, item) in allc]})
    res = C.run_ops(ops, timeout=600)
    if res.get("crashed") or len(res["obs"]) != 2 or "rs" not in res["obs"][0]:
        chk.broken_obligation("driver failed on the C10 direct-call suite: %s" % (res.get("stderr", "") or json.dumps(res)[:500]))
        return False
    r_msg = res["obs"][0]["rs"]
    r_utl = res["obs"][1]["rs"]

    def enc(r):
        if isinstance(r, dict):      # panic
            return "None"
        return "(Some %s)" % coq_strs([C.unlatin(x) for x in (r or [])])

    body = "Definition direct_cases : list (str * list str * str * option (list str) * option (list str)) := [\n%s].\n" % ";\n".join(
        "(%s, %s, %s, %s, %s)" % (C.coq_str(cur), coq_strs(new), C.coq_str(item), enc(a), enc(b))
        for (cur, new, item), a, b in zip(allc, r_msg, r_utl))
    body += """
Definition direct_model_ok (c : str * list str * str * option (list str) * option (list str)) : bool :=
  let '(cur, new, item, r1, r2) := c in
  let m := calculate_new_flags_str cur new item in
  match r1, r2 with
  | Some a, Some b => set_eqb a m && set_eqb b m
  | _, _ => false
  end.
Definition direct_spec_ok (c : str * list str * str * option (list str) * option (list str)) : bool :=
  let '(cur, new, item, r1, r2) := c in
  match item_of item, r1, r2 with
  | Some it, Some a, Some b => apply_ok it (fields cur) new a && apply_ok it (fields cur) new b
  | None, Some a, Some b => set_eqb a (to_set_ci (fields cur)) && set_eqb b (to_set_ci (fields cur))
  | _, _, _ => false
  end.
Definition direct_model_bad := Eval vm_compute in diff_positions Bool.eqb 0%nat (map direct_model_ok direct_cases) (map (fun _ => true) direct_cases).
Print direct_model_bad.
Definition direct_spec_bad := Eval vm_compute in diff_positions Bool.eqb 0%nat (map direct_spec_ok direct_cases) (map (fun _ => true) direct_cases).
Print direct_spec_bad.
"""
    body_parts.append(body)

    def after(log):
        mb = parse_nat_list(log, "direct_model_bad")
        sb = parse_nat_list(log, "direct_spec_bad")
        if mb is None or sb is None:
            chk.broken_obligation("could not read the direct-call results from Coq:\n" + log[-1500:])
            return
        chk.cov["evaluations"] += 2 * len(allc)
        chk.cov["direct_cases"] = len(cases)
        chk.cov["direct_nonascii_cases"] = len(na)
        nontriv = set((cur, tuple(new), item) for (cur, new, item) in cases if new and cur.split() and item in ITEMS)
        chk.cov["distinct_nontrivial"] += len(nontriv)
        chk.cov["direct_by_item"] = {it: sum(1 for c in cases if c[2] == it) for it in ITEMS}
        chk.sample({"suite": "direct", "cur": allc[0][0], "new": allc[0][1], "item": allc[0][2], "impl": r_msg[0]})
        nd = 0
        for i in sorted(set(mb) | set(sb)):
            nd += 1
            cur, new, item = allc[i]
            if i >= len(cases):
                note = "domain edge (non-ASCII bytes: Go's strings.Fields is Unicode-aware, the model is ASCII): cur=%r new=%r" % (cur, new)
                if note not in chk.notes:
                    chk.notes.append(note)
                continue
            payload = {"suite": "direct", "cur": cur, "new": new, "item": item, "impl_message": r_msg[i], "impl_utils": r_utl[i]}
            if i in sb:
                chk.violation("CalculateNewFlags(%r, %r, %r) returned %r / %r (message/utils copy): not the set algebra of the data item"
                              % (cur, new, item, r_msg[i], r_utl[i]), payload)
            else:
                chk.broken_obligation("correspondence direct no longer checks: CalculateNewFlags(%r, %r, %r) = %r differs from the model but satisfies the oracle" % (cur, new, item, r_msg[i]), payload)
        chk.cov["disagreements_checked"] += nd
    post.append(after)
    return True


def parse_nat_list(log, name):
    txt = C.parse_coq_list_out(log, name)
    if txt is None:
        return None
    txt = txt.strip()
    if txt == "[]":
        return []
    return [int(x) for x in txt.strip("[]").replace("%nat", "").split(";") if x.strip()]


# ---------------------------------------------------------------------------
# suite 2: histories over IMAP sessions

MB = {"INBOX": 1, "Sent": 2, "Drafts": 3, "Trash": 4, "Spam": 5}
MBN = {v: k for k, v in MB.items()}
CLS = {3: "junk_move"}
CLEAN_KW = ["kw", "$Forwarded", "Work", "work", "$Label1", "\\seen", "\\DELETED", "KW", "\\recent"]
SEARCH_KEYS = [("SEEN", "has", "\\Seen"), ("UNSEEN", "not", "\\Seen"), ("DELETED", "has", "\\Deleted"),
               ("UNDELETED", "not", "\\Deleted"), ("FLAGGED", "has", "\\Flagged"), ("UNFLAGGED", "not", "\\Flagged"),
               ("ANSWERED", "has", "\\Answered"), ("UNANSWERED", "not", "\\Answered"), ("DRAFT", "has", "\\Draft"),
               ("UNDRAFT", "not", "\\Draft"), ("RECENT", "has", "\\Recent"), ("OLD", "not", "\\Recent"), ("NEW", "new", "")]


# keys the acting session is asked right after a step
PROBE_KEYS = [("SEEN", "has", "\\Seen"), ("FLAGGED", "has", "\\Flagged"), ("DELETED", "has", "\\Deleted"), ("KEYWORD Junk", "has", "Junk"),
              ("UNANSWERED", "not", "\\Answered"), ("KEYWORD kw", "has", "kw")]
DEFAULT_PROBES = {"a_refresh": None, "a_key": 0, "c": True, "c_refresh": False, "d": True}


def set_text(items):
    out = []
    for (a, b) in items:
        ta = "*" if a is None else str(a)
        tb = "*" if b is None else str(b)
        out.append(ta if (a == b and ta != "*") or (a is None and b is None) else ta + ":" + tb)
    return ",".join(out)


def gen_set(rng, n, uidmode):
    """a well-formed sequence / UID set, mostly inside 1..n"""
    hi = max(n, 1) + (2 if uidmode else 1)
    items = []
    for _ in range(rng.choice([1, 1, 1, 2, 3])):
        r = rng.random()
        if r < 0.5:
            a = rng.randint(1, hi)
            items.append((a, a))
        elif r < 0.8:
            a, b = rng.randint(1, hi), rng.randint(1, hi)
            items.append((a, b))
        elif r < 0.9:
            items.append((None, None))
        else:
            items.append((rng.randint(1, hi), None))
    return items


def gen_uid_set_line(rng, present, gaps):
    """a UID set over the whole number line: bounds on present UIDs, inside gaps, below the
    smallest and above the largest UID, reversed ranges, comma lists mixing present and absent"""
    top = max(present + gaps + [1])
    line = sorted(set(gaps)) * 3 + present + [top + 1, top + 3, 1]
    items = []
    for _ in range(rng.choice([1, 1, 2, 2, 3])):
        r = rng.random()
        if r < 0.25:
            a = rng.choice(line)
            items.append((a, a))
        elif r < 0.9:
            a, b = rng.choice(line), rng.choice(line)
            if rng.random() < 0.6 and gaps:
                b = rng.choice(gaps)                 # upper (or, reversed, lower) bound inside a gap
            items.append((a, b))
        elif r < 0.95:
            items.append((rng.choice(line), None))
        else:
            items.append((None, None))
    return items


def gen_gap_history(rng):
    """INBOX with UID gaps (\\Deleted + EXPUNGE, a Junk auto-move), then UID STOREs / UID COPYs whose
    sets have bounds inside the gaps; every step is followed by FETCH 1:* of ALL messages"""
    pool = SYS[:3] + ["\\Draft", "kw", "$Forwarded", "Work"]
    n = rng.randint(6, 9)
    h = [{"k": "append", "mb": 1, "fl": gen_flags(rng, pool), "paren": True} for _ in range(n)]
    h.append({"k": "select", "mb": 1, "ro": False})
    present = list(range(1, n + 1))
    gaps = sorted(rng.sample(present[1:], rng.randint(2, 3)))

    def st(uidmode, st_set, item, new, silent):
        return {"k": "store", "uid": uidmode, "ro": False, "silent": silent, "mb": 1, "set": st_set, "item": item,
                "raw": item + (".SILENT" if silent else ""), "new": new, "paren": True}
    for g in gaps[:-1]:
        h.append(st(True, [(g, g)], "+FLAGS", ["\\Deleted"], True))
    h.append({"k": "expunge", "ro": False, "mb": 1, "how": "EXPUNGE"})
    if rng.random() < 0.5:
        h.append(st(True, [(gaps[-1], gaps[-1])], "+FLAGS", ["Junk"], False))        # the auto-move leaves a gap too
    else:
        h.append(st(True, [(gaps[-1], gaps[-1])], "+FLAGS", ["\\Deleted"], True))
        h.append({"k": "expunge", "ro": False, "mb": 1, "how": "CLOSE"})
        h.append({"k": "select", "mb": 1, "ro": False})
    present = [u for u in present if u not in gaps]
    for _ in range(rng.randint(7, 10)):
        r = rng.random()
        if r < 0.8:
            item = rng.choice(ITEMS)
            h.append(st(True, gen_uid_set_line(rng, present, gaps), item, gen_flags(rng, pool) or ["kw"], rng.random() < 0.4))
        elif r < 0.9:
            h.append({"k": "copy", "uid": True, "mb": 1, "set": gen_uid_set_line(rng, present, gaps), "dest": rng.choice([2, 3, 4])})
        else:
            h.append({"k": "append", "mb": 1, "fl": gen_flags(rng, pool), "paren": True})
            n += 1
            present.append(n)
    for o in h:
        if o["k"] != "select":
            o["probes"] = {"a_refresh": None, "a_key": rng.randrange(len(PROBE_KEYS)), "c": rng.random() < 0.3, "c_refresh": False, "d": False}
    keys = rng.sample(SEARCH_KEYS, 5) + [("KEYWORD kw", "has", "kw"), ("UNKEYWORD Work", "not", "Work"), ("keyword $Forwarded", "has", "$Forwarded")]
    return {"stream": "gaps", "h": h, "keys": keys, "mailboxes": [1, 2, 3, 4, 5]}


def gen_flags(rng, pool, kmax=3):
    return [rng.choice(pool) for _ in range(rng.choice([0, 1, 1, 2, 2, kmax]))]


def gen_history(rng, stream, nops):
    """stream: clean | twins | junk | samecopy | examine | nospam (Spam renamed / deleted / re-created around Junk STOREs)"""
    if stream == "clean":
        pool = SYS + CLEAN_KW + ["\\Recent"]
    elif stream == "twins":
        pool = SYS + KEYWORDS + CASE_TWINS + ["\\Recent"]
    else:
        pool = SYS + CLEAN_KW + ["\\Recent"]
    store_pool = pool + (JUNKS + ["$NotJunk"] if stream in ("junk", "nospam") else [])
    cnt = {m: 0 for m in MB.values()}
    alive = set(MB.values())       # model ids of the mailboxes that exist
    spam = MB["Spam"]              # model id of the mailbox named Spam, None if there is none
    next_id = 6
    renames = 0
    h = []
    sel, ro = None, False
    used = set()

    def drop_spam():
        nonlocal spam, renames
        delete = rng.random() < 0.4
        renames += 1
        h.append({"k": "dropspam", "delete": delete, "newname": "JunkMail%d" % renames})
        if delete:
            alive.discard(spam)
            used.discard(spam)
        spam = None

    def create_spam():
        nonlocal spam, next_id
        h.append({"k": "createspam", "id": next_id})
        spam = next_id
        alive.add(spam)
        cnt[spam] = 0
        used.add(spam)
        next_id += 1
    for i in range(rng.randint(3, 5)):
        mb = MB["INBOX"] if (i < 3 or rng.random() < 0.5) else rng.choice(list(MB.values()))
        fl = gen_flags(rng, pool + (JUNKS if stream in ("junk", "twins") else []))
        h.append({"k": "append", "mb": mb, "fl": fl, "paren": True})
        cnt[mb] += 1
        used.add(mb)
    h.append({"k": "select", "mb": MB["INBOX"], "ro": False})
    sel = MB["INBOX"]
    if stream == "nospam" and rng.random() < 0.7:
        drop_spam()
    for _ in range(nops):
        r = rng.random()
        pm = 0.18 if stream == "nospam" else 0.02
        if rng.random() < pm:
            if spam is None:
                create_spam()
            elif sel != spam:
                drop_spam()
            continue
        if r < 0.12:
            mb = rng.choice([m for m in sorted(alive) if cnt[m] > 0] or [MB["INBOX"]])
            want_ro = rng.random() < (0.6 if stream == "examine" else 0.25)
            h.append({"k": "select", "mb": mb, "ro": want_ro})
            sel, ro = mb, want_ro
        elif r < 0.62:
            uidmode = rng.random() < 0.5
            if stream == "samecopy" and rng.random() < 0.7:
                uidmode = False
            item = rng.choice(ITEMS)
            silent = rng.random() < 0.3
            new = gen_flags(rng, store_pool)
            if stream in ("junk", "nospam") and rng.random() < (0.5 if stream == "junk" else 0.7) and item != "-FLAGS":
                new.insert(rng.randint(0, len(new)), rng.choice(JUNKS if stream == "junk" else ["Junk", "Junk", "NonJunk"]))
            if rng.random() < 0.08:
                new.insert(rng.randint(0, len(new)), rng.choice(BAD_FLAGS + ["a{b"]))
            raw = item + (".SILENT" if silent else "")
            if rng.random() < 0.2:
                raw = raw.lower()
            if rng.random() < 0.12:
                # another session (C: INBOX selected read-write all the time) stores
                h.append({"k": "store", "conn": "C", "uid": uidmode, "ro": False, "silent": silent, "mb": MB["INBOX"], "set": gen_set(rng, cnt[MB["INBOX"]], uidmode),
                          "item": item, "raw": raw, "new": new, "paren": True})
            else:
                h.append({"k": "store", "uid": uidmode, "ro": ro, "silent": silent, "mb": sel, "set": gen_set(rng, cnt[sel], uidmode),
                          "item": item, "raw": raw, "new": new, "paren": not (len(new) == 1 and rng.random() < 0.3)})
        elif r < 0.77:
            others = [m for m in sorted(alive) if m != sel]
            dest = sel if rng.random() < (0.7 if stream == "samecopy" else 0.15) else rng.choice(others)
            uidmode = rng.random() < 0.5
            s = gen_set(rng, cnt[sel], uidmode)
            h.append({"k": "copy", "uid": uidmode, "mb": sel, "set": s, "dest": dest})
            cnt[dest] += 1
            used.add(dest)
        elif r < 0.9 and rng.random() < 0.15:
            h.append({"k": "deliver"})          # LMTP delivery to INBOX
            cnt[MB["INBOX"]] += 1
        elif r < 0.9:
            mb = rng.choice(sorted(alive)) if rng.random() < 0.4 else sel
            afl = gen_flags(rng, pool)
            bad = rng.random() < 0.08
            if bad:
                # (no ")" here: APPEND reads its flag list up to the first ")" of the line)
                afl.insert(rng.randint(0, len(afl)), rng.choice([f for f in BAD_FLAGS if ")" not in f]))
            h.append({"k": "append", "mb": mb, "fl": afl, "paren": bad or rng.random() < 0.85, "litplus": bad or rng.random() < 0.2})
            cnt[mb] += 1
            used.add(mb)
        else:
            how = rng.choice(["EXPUNGE", "CLOSE"])
            h.append({"k": "expunge", "ro": ro, "mb": sel, "how": how})
            if how == "CLOSE":
                h.append({"k": "select", "mb": sel, "ro": ro})
    # what is asked after every step, and by whom (fixed here: driver_ops must be deterministic)
    for o in h:
        if o["k"] != "select":
            o["probes"] = {"a_refresh": rng.choice([None, None, None, "NOOP", "CHECK"]), "a_key": rng.randrange(len(PROBE_KEYS)),
                           "c": rng.random() < 0.5, "c_refresh": rng.random() < 0.15, "d": rng.random() < 0.5}
    keys = rng.sample(SEARCH_KEYS, 5)
    kws = [rng.choice(store_pool + ["Junk", "Seen", "\\Seenish", "\\seen"]) for _ in range(3)]
    keys += [("KEYWORD " + kws[0], "has", kws[0]), ("UNKEYWORD " + kws[1], "not", kws[1]), ("keyword " + kws[2], "has", kws[2])]
    return {"stream": stream, "h": h, "keys": keys, "mailboxes": sorted((used | {MB["INBOX"]} | ({spam} if spam else set())) & alive)}


def body_of(i):
    return "Subject: m%d\r\nFrom: a@example.com\r\n\r\nbody %d\r\n" % (i, i)


def driver_ops(sc):
    """-> (ops, plan) where plan[j] says how to read obs[j].  Sessions: A acts; C keeps INBOX
    selected (read-write) from the start and sometimes stores; D never selects; B is the
    later session after the restart.  Probe commands carry tags p<n>."""
    ops, plan = [], []
    t = [0]

    def tag(prefix="a"):
        t[0] += 1
        return "%s%d" % (prefix, t[0])

    def spell(word, i):
        # command names are case-insensitive (RFC 3501 9): SELECT / EXAMINE are sent in
        # upper, lower and mixed case (seeded C10-6: read-only decided on the raw word)
        return [word, word.lower(), word.capitalize()][i % 3]

    def send(conn, line, what, prefix="a"):
        tg = tag(prefix)
        ops.append({"op": "send", "conn": conn, "data": "%s %s\r\n" % (tg, line), "until": "tag:" + tg})
        plan.append(what)

    def raw(op):
        ops.append(op)
        plan.append(None)

    for c in "ACD":
        raw({"op": "open", "conn": c})
        send(c, "LOGIN u@example.com pw", None, "i")
    send("C", "SELECT INBOX", None, "i")
    if any(o["k"] == "deliver" for o in sc["h"]):
        raw({"op": "lmtp_open", "conn": "L"})
        raw({"op": "send", "conn": "L", "data": "LHLO x\r\n", "until": "lmtp:1"})
    sel, ro = None, False
    nmsg = 0
    names = dict(MBN)            # model id -> current name
    for si, o in enumerate(sc["h"]):
        k = o["k"]
        conn = o.get("conn", "A")
        if k == "select":
            send("A", "%s %s" % (spell("EXAMINE" if o["ro"] else "SELECT", si), names[o["mb"]]), None)
            sel, ro = o["mb"], o["ro"]
            continue
        if k == "dropspam":
            sp = [i for i, n in names.items() if n == "Spam"]
            send("A", "DELETE Spam" if o["delete"] else "RENAME Spam %s" % o["newname"], None)
            for i in sp:
                if o["delete"]:
                    del names[i]
                else:
                    names[i] = o["newname"]
        elif k == "createspam":
            send("A", "CREATE Spam", None)
            if "Spam" not in names.values():
                names[o["id"]] = "Spam"
        elif k == "append":
            nmsg += 1
            body = body_of(nmsg)
            tg = tag()
            fl = ("(%s) " % " ".join(o["fl"])) if (o["paren"] or o["fl"]) else ""
            if o.get("litplus"):
                # non-synchronizing literal: line and data in one write, the reply is tagged either way
                raw({"op": "send", "conn": "A", "data": "%s APPEND %s %s{%d+}\r\n%s\r\n" % (tg, names[o["mb"]], C.latin(fl.encode("latin-1")), len(body), body), "until": "tag:" + tg})
            else:
                raw({"op": "send", "conn": "A", "data": "%s APPEND %s %s{%d}\r\n" % (tg, names[o["mb"]], fl, len(body)), "until": "cont:" + tg})
                raw({"op": "send", "conn": "A", "data": body + "\r\n", "until": "tag:" + tg})
        elif k == "deliver":
            nmsg += 1
            raw({"op": "send", "conn": "L", "data": "MAIL FROM:<a@example.com>\r\n", "until": "lmtp:1"})
            raw({"op": "send", "conn": "L", "data": "RCPT TO:<u@example.com>\r\n", "until": "lmtp:1"})
            raw({"op": "send", "conn": "L", "data": "DATA\r\n", "until": "lmtp:1"})
            raw({"op": "send", "conn": "L", "data": "From: a@example.com\r\nTo: u@example.com\r\nSubject: d%d\r\n\r\ndelivered %d\r\n.\r\n" % (nmsg, nmsg), "until": "lmtp:1"})
        elif k == "store":
            fl = " ".join(o["new"])
            send(conn, "%sSTORE %s %s %s" % ("UID " if o["uid"] else "", set_text(o["set"]), o["raw"], "(%s)" % fl if o["paren"] else fl), None)
        elif k == "copy":
            send("A", "%sCOPY %s %s" % ("UID " if o.get("uid", True) else "", set_text(o["set"]), names[o["dest"]]), None)
        elif k == "expunge":
            send("A", o["how"], None)
            if o["how"] == "CLOSE":
                sel = None
        # ---- what every observer reports now
        pr = o.get("probes", DEFAULT_PROBES)
        if sel is not None:
            send("A", "FETCH 1:* (UID FLAGS)", ("view", si, sel), "p")
            # STATUS on the mailbox this session has selected, before (mostly) or after a refresh
            if pr["a_refresh"]:
                send("A", pr["a_refresh"], None, "p")
            send("A", "STATUS %s (MESSAGES UNSEEN RECENT)" % names[sel], ("status", si, sel, ro, sel), "p")
            send("A", "SEARCH UNSEEN", ("psearch", si, sel, ro, ("not", "\\Seen")), "p")
            txt, kd, at = PROBE_KEYS[pr["a_key"]]
            send("A", "SEARCH " + txt, ("psearch", si, sel, ro, (kd, at)), "p")
        if pr["c"]:
            if pr["c_refresh"]:
                send("C", "NOOP", None, "p")
            send("C", "STATUS INBOX (MESSAGES UNSEEN RECENT)", ("status", si, MB["INBOX"], False, MB["INBOX"]), "p")
            send("C", "SEARCH UNSEEN", ("psearch", si, MB["INBOX"], False, ("not", "\\Seen")), "p")
            send("C", "FETCH 1:* (UID FLAGS)", ("view", si, MB["INBOX"]), "p")
        if pr["d"]:
            mb = sel if sel is not None else MB["INBOX"]
            send("D", "STATUS %s (MESSAGES UNSEEN)" % names[mb], ("status", si, 0, False, mb), "p")
    # a later session, after the store managers were closed and reopened
    raw({"op": "restart"})
    raw({"op": "open", "conn": "B"})
    send("B", "LOGIN u@example.com pw", None, "i")
    for mi, mb in enumerate(sc["mailboxes"]):
        send("B", "%s %s" % (spell("EXAMINE" if mi % 2 else "SELECT", mi // 2), names[mb]), ("first", mb), "b")
        send("B", "FETCH 1:* (UID FLAGS)", ("fview", mb), "b")
        for ki, (txt, _, _) in enumerate(sc["keys"]):
            send("B", "SEARCH " + txt, ("search", mb, ki), "b")
        send("B", "STATUS %s (MESSAGES UNSEEN)" % names[mb], ("status_final", mb), "b")
    return ops, plan


FETCH_RE = re.compile(r"^\* (\d+) FETCH \(UID (\d+) FLAGS \(([^)]*)\)\)\r?$", re.M)


def parse_view(recv):
    if " OK " not in recv.split("\r\n")[-2 if recv.endswith("\r\n") else -1]:
        return None
    return [(int(m.group(2)), m.group(3).split()) for m in FETCH_RE.finditer(recv)]


def observe(sc, res):
    """-> dict(probes {si: [probe, ...]}, final {mb: {...}}) or None when the driver failed"""
    ops, plan = driver_ops(sc)
    obs = res.get("obs", [])
    if res.get("crashed") or len(obs) != len(plan):
        return None
    out = {"probes": {}, "final": {mb: {"search": {}} for mb in sc["mailboxes"]}}
    for o, p in zip(obs, plan):
        if p is None:
            continue
        recv = o.get("recv", "")
        if o.get("how") != "ok":
            return None
        if p[0] == "view":
            v = parse_view(recv)
            if v is not None:
                out["probes"].setdefault(p[1], []).append(["view", p[2], v])
        elif p[0] == "status":
            m = re.search(r"MESSAGES (\d+) UNSEEN (\d+)", recv)
            if m:
                out["probes"].setdefault(p[1], []).append(["status", p[2], p[3], p[4], int(m.group(1)), int(m.group(2))])
        elif p[0] == "psearch":
            m = re.search(r"^\* SEARCH([ \d]*)\r?$", recv, re.M)
            if m:
                out["probes"].setdefault(p[1], []).append(["search", p[2], p[3], list(p[4]), [int(x) for x in m.group(1).split()]])
        elif p[0] == "fview":
            v = parse_view(recv)
            if v is None:
                return None
            out["final"][p[1]]["view"] = v
        elif p[0] == "first":
            m = re.search(r"\[UNSEEN (\d+)\]", recv)
            out["final"][p[1]]["first"] = int(m.group(1)) if m else None
        elif p[0] == "search":
            m = re.search(r"^\* SEARCH([ \d]*)\r?$", recv, re.M)
            if not m:
                return None
            out["final"][p[1]]["search"][p[2]] = [int(x) for x in m.group(1).split()]
        elif p[0] == "status_final":
            m = re.search(r"UNSEEN (\d+)", recv)
            if not m:
                return None
            out["final"][p[1]]["unseen"] = int(m.group(1))
    return out


def cz(n):
    return "(%d)" % n


def coq_set(items):
    return C.coq_list(["(%s, %s)" % (C.coq_opt(None if a is None else cz(a)), C.coq_opt(None if b is None else cz(b))) for (a, b) in items])


def coq_view(v):
    return C.coq_list(["(%s, %s)" % (cz(u), coq_strs(f)) for (u, f) in v])


def coq_op(o):
    k = o["k"]
    if k == "store":
        return "(%s %s %s %s %s %s %s)" % ("OUidStore" if o["uid"] else "OStore", C.coq_bool(o["ro"]), C.coq_bool(o["silent"]),
                                          cz(o["mb"]), coq_set(o["set"]), C.coq_str(o["item"]), coq_strs(o["new"]))
    if k == "copy":
        return "(%s %s %s %s)" % ("OUidCopy" if o.get("uid", True) else "OCopy", cz(o["mb"]), coq_set(o["set"]), cz(o["dest"]))
    if k == "append":
        return "(OAppend %s %s)" % (cz(o["mb"]), coq_strs(o["fl"]))
    if k == "expunge":
        return "(OExpunge %s %s)" % (C.coq_bool(o["ro"]), cz(o["mb"]))
    if k == "deliver":
        return "(OAppend (1) [])"
    if k == "dropspam":
        return "(ODropSpam %s)" % C.coq_bool(o["delete"])
    if k == "createspam":
        return "(OCreateSpam %s)" % cz(o["id"])
    raise ValueError(k)


def coq_key(kind, atom):
    if kind == "has":
        return "(KHas %s)" % C.coq_str(atom)
    if kind == "not":
        return "(KNot %s)" % C.coq_str(atom)
    return "KNew"


def coq_probe(pr):
    if pr[0] == "view":
        return "(PView %s %s)" % (cz(pr[1]), coq_view(pr[2]))
    if pr[0] == "status":
        _, sel, ro, mb, nmsg, unseen = pr
        return "(PUnseen %s %s %s %s); (PCount %s %s %s %s)" % (cz(sel), C.coq_bool(ro), cz(mb), cz(unseen), cz(sel), C.coq_bool(ro), cz(mb), cz(nmsg))
    _, mb, ro, (kd, at), r = pr
    return "(PSearch %s %s %s %s)" % (cz(mb), C.coq_bool(ro), coq_key(kd, at), C.coq_list([cz(x) for x in r]))


def coq_case(sc, ob):
    steps = []
    for si, o in enumerate(sc["h"]):
        if o["k"] == "select":
            continue
        prs = ob["probes"].get(si) or ob["probes"].get(str(si)) or []
        steps.append("(%s, %s)" % (coq_op(o), C.coq_list([coq_probe(p) for p in prs])))
    fin = []
    for mb in sc["mailboxes"]:
        f = ob["final"][mb]
        fin.append("(mkFobs %s %s %s %s %s)" % (cz(mb), coq_view(f["view"]), cz(f["unseen"]), C.coq_opt(None if f["first"] is None else cz(f["first"])),
                                               C.coq_list(["(%s, %s)" % (coq_key(kd, at), C.coq_list([cz(x) for x in f["search"][ki]]))
                                                           for ki, (_, kd, at) in enumerate(sc["keys"])])))
    return "(%s,\n  %s)" % (C.coq_list(steps), C.coq_list(fin))


def observers_disagree(sc, ob):
    """first step after which two observers of the same table contradict each other (no model needed)"""
    acting = [i for i, o in enumerate(sc["h"]) if o["k"] != "select"]
    for si in sorted(ob["probes"], key=int):
        prs = ob["probes"][si]
        for pr in prs:
            if pr[0] != "status":
                continue
            _, sel, ro, mb, nmsg, unseen = pr
            for q in prs:
                if q[0] == "search" and q[1] == mb and list(q[3]) == ["not", "\\Seen"] and len(q[4]) != unseen:
                    who = "the session that has it selected" if sel == mb else ("a session without selection" if sel == 0 else "another session")
                    return "after step %d: STATUS (UNSEEN) of %s says %d, SEARCH UNSEEN lists %d message(s) %r" % (acting.index(int(si)) + 1 if int(si) in acting else int(si), who, unseen, len(q[4]), q[4])
                if q[0] == "view" and q[1] == mb and len(q[2]) != nmsg:
                    return "after step %s: STATUS (MESSAGES) says %d, FETCH 1:* lists %d" % (si, nmsg, len(q[2]))
    return None


def load_corpus():
    out = []
    for f in sorted(glob.glob(os.path.join(C.VERIF, "corpus", "C10", "*.json"))):
        d = json.load(open(f))
        if "scenario" in d:
            sc = d["scenario"]
            sc["corpus"] = os.path.basename(f)
            sc["expect"] = d.get("class")
            for o in sc["h"]:
                if "set" in o:
                    o["set"] = [tuple(x) for x in o["set"]]
            sc["keys"] = [tuple(x) for x in sc["keys"]]
            out.append(sc)
    return out


def describe(sc):
    """the commands of session A, for messages"""
    ops, _ = driver_ops(sc)
    out = []
    for o in ops:
        d = o.get("data", "")
        if o.get("conn") in ("A", "C") and re.match(r"a\d+ ", d):
            out.append(("" if o["conn"] == "A" else "[session C] ") + d.split("\r\n")[0].strip())
        elif o.get("conn") == "L" and d.startswith("DATA"):
            out.append("[LMTP delivery to INBOX]")
    return out


def suite_sessions(chk, body_parts, post):
    nsc = 60 if chk.tier == "quick" else 900
    streams = ["clean"] * 5 + ["twins"] * 2 + ["junk", "samecopy", "examine"] + ["nospam"] * 2
    scs = load_corpus()
    ncorpus = len(scs)
    for _ in range(nsc):
        scs.append(gen_history(chk.rng, chk.rng.choice(streams), chk.rng.randint(5, 12)))
    for _ in range(8 if chk.tier == "quick" else 100):
        scs.append(gen_gap_history(chk.rng))
    results = C.run_many([driver_ops(sc)[0] for sc in scs], workers=12, timeout=300)
    obs = []
    for sc, res in zip(scs, results):
        ob = observe(sc, res)
        if ob is None:      # one retry: a scenario is deterministic, a hiccup of the harness is not
            ob = observe(sc, C.run_ops(driver_ops(sc)[0], timeout=300))
        obs.append(ob)
    good = [(sc, ob) for sc, ob in zip(scs, obs) if ob is not None]
    nbad = len(scs) - len(good)
    if nbad > max(2, len(scs) // 20):
        chk.broken_obligation("the C10 session harness failed on %d of %d scenarios" % (nbad, len(scs)), {"suite": "sessions"})
        return False
    if nbad:
        chk.notes.append("%d session scenario(s) could not be observed (driver timeout) and were skipped" % nbad)
    body = "Local Open Scope Z_scope.\nDefinition env0 := mkEnv 1.\nDefinition st0 := mkSt [] [(1,1);(2,1);(3,1);(4,1);(5,1)] 1 (Some 5).\n"
    body += "Definition scases : list (list sstep * list fobs) := [\n%s].\n" % ";\n".join(coq_case(sc, ob) for sc, ob in good)
    body += "Definition scodes := Eval vm_compute in map (fun c => judge env0 st0 (fst c) (snd c)) scases.\nPrint scodes.\n"
    body_parts.append(body)

    def after(log):
        codes = parse_nat_list(log, "scodes")
        if codes is None or len(codes) != len(good):
            chk.broken_obligation("could not read the session results from Coq:\n" + log[-1500:])
            return
        nsteps = sum(len([o for o in sc["h"] if o["k"] != "select"]) for sc, _ in good)
        chk.cov["evaluations"] += nsteps + sum(len(sc["mailboxes"]) * (len(sc["keys"]) + 3) for sc, _ in good)
        chk.cov["session_scenarios"] = len(good)
        chk.cov["session_steps"] = nsteps
        chk.cov["session_streams"] = {s: sum(1 for sc, _ in good if sc["stream"] == s) for s in sorted(set(streams) | {"corpus", "gaps"})}
        by = {}
        for sc, _ in good:
            for o in sc["h"]:
                kk = o["k"] + ("_uid" if o.get("uid") else "") + ("_silent" if o.get("silent") else "") + ("_ro" if o.get("ro") else "")
                by[kk] = by.get(kk, 0) + 1
        chk.cov["session_ops"] = by
        distinct = set()
        for sc, _ in good:
            for o in sc["h"]:
                if o["k"] == "store" and o["new"]:
                    distinct.add((o["uid"], o["silent"], o["item"], tuple(o["new"]), set_text(o["set"])))
        chk.cov["distinct_nontrivial"] += len(distinct)
        chk.cov["rule"] += ("; sessions: histories of APPEND-with-flags / STORE / UID STORE (+-.SILENT, any case) / UID COPY / EXPUNGE / CLOSE / re-SELECT / EXAMINE over 5 mailboxes, "
                            "after every step: FETCH 1:* (UID FLAGS), STATUS <the selected mailbox> (MESSAGES UNSEEN RECENT) - mostly before, sometimes after a NOOP/CHECK -, SEARCH UNSEEN and one more flag key in the acting session (SELECT or EXAMINE), the same from a second session that keeps INBOX selected and sometimes stores itself, STATUS from a third session without selection; LMTP deliveries in between; then restart of the store managers and a later session reading every mailbox "
                            "(SELECT [UNSEEN], FETCH FLAGS, 8 SEARCH flag keys, STATUS UNSEEN); compared per uid as sets with the model run and the reference semantics, "
                            "both evaluated by vm_compute; non-trivial = distinct (mode, item, named flags, set) of STORE steps with a non-empty flag list")
        chk.cov["classes_seen"] = {}
        sc0, ob0 = good[min(ncorpus, len(good) - 1)]
        chk.sample({"suite": "sessions", "stream": sc0["stream"], "commands": describe(sc0)[:14], "final_inbox": ob0["final"][1].get("view")})
        chk.cov["session_probes"] = sum(len(v) for _, ob in good for v in ob["probes"].values())
        nd = 0
        for (sc, ob), code in zip(good, codes):
            vm, vs, qm, qs, cl = code & 1, code & 2, code & 4, code & 8, code >> 5
            payload = {"suite": "sessions", "scenario": {k: sc[k] for k in ("stream", "h", "keys", "mailboxes")}, "observed": ob, "code": code,
                       "commands": describe(sc)}
            if vm and vs and qm and qs:
                continue
            nd += 1
            cname = None
            if not vs:
                if cl and vm:
                    cname = CLS[cl]
                    what = {"junk_move": "STORE/UID STORE that adds Junk (NonJunk) outside Spam (INBOX) moves the message to Spam (INBOX) under a new UID and drops the other flag of the pair instead of updating it in place",
                            }[cname]
                    chk.violation(what + "; e.g. " + " | ".join(describe(sc)[-6:]), payload, cls=cname)
                elif cl:
                    chk.violation("flags read back differ from the statement AND from the model's account of the listed finding %s; commands: %s" % (CLS[cl], " | ".join(describe(sc))), payload)
                else:
                    chk.violation("flags read back after a STORE history differ from the set semantics (no listed finding class applies); commands: %s" % " | ".join(describe(sc)), payload)
            elif not vm:
                chk.broken_obligation("correspondence sessions no longer checks: the implementation's flags agree with the reference semantics but not with the model; commands: %s" % " | ".join(describe(sc)), payload)
            elif not qs:
                dis = observers_disagree(sc, ob)
                chk.violation("%sa report about the flags (STATUS UNSEEN/MESSAGES on the selected or another mailbox, SEARCH by flag, [UNSEEN n]) of the storing session, a second session or the later session differs from the flag table that FETCH FLAGS shows; commands: %s"
                              % (("observers contradict each other " + dis + ": ") if dis else "", " | ".join(describe(sc))), payload)
            else:
                chk.broken_obligation("correspondence sessions no longer checks: query answers agree with set membership but not with the model", payload)
            if cname:
                chk.cov["classes_seen"][cname] = chk.cov["classes_seen"].get(cname, 0) + 1
            if sc.get("corpus") and sc.get("expect") and cname != sc["expect"]:
                chk.notes.append("corpus witness %s (class %s) judged %s this run" % (sc["corpus"], sc["expect"], cname))
        chk.cov["disagreements_checked"] += nd
    post.append(after)
    return True


# ---------------------------------------------------------------------------
# suite 3: which tokens STORE accepts as flags (message.ValidFlag through the protocol)

def suite_flagsyntax(chk, body_parts, post):
    cands = []
    for b in range(1, 256):
        if b in (9, 10, 11, 12, 13, 32):
            continue        # blanks split the token, CR/LF end the line
        cands.append(b"ab" + bytes([b]) + b"c")
        cands.append(b"\\ab" + bytes([b]) + b"c")
    cands += [f.encode("latin-1") for f in BAD_FLAGS] + [b"a{b", b"a}b", b"\\Seen", b"$MDNSent", b"a", b"\\a", b"a\\", b"\\\\", b"NonJunk-1_2.x", b"a+b", b"a~b", b"a:b"]
    ops = [{"op": "open", "conn": "A"},
           {"op": "send", "conn": "A", "data": "s1 LOGIN u@example.com pw\r\n", "until": "tag:s1"}]
    body = body_of(1)
    ops.append({"op": "send", "conn": "A", "data": "s2 APPEND INBOX {%d+}\r\n%s\r\n" % (len(body), body), "until": "tag:s2"})
    ops.append({"op": "send", "conn": "A", "data": "s3 SELECT INBOX\r\n", "until": "tag:s3"})
    for i, c in enumerate(cands):
        ops.append({"op": "send", "conn": "A", "data": "f%d STORE 1 FLAGS.SILENT (%s)\r\n" % (i, C.latin(c)), "until": "tag:f%d" % i})
    res = C.run_ops(ops, timeout=300)
    obs = res.get("obs", [])
    if res.get("crashed") or len(obs) != len(ops):
        chk.broken_obligation("driver failed on the C10 flag-syntax suite: %s" % (res.get("stderr", "") or "")[:300], {"suite": "flagsyntax"})
        return False
    acc = []
    for i, c in enumerate(cands):
        r = obs[4 + i].get("recv", "")
        acc.append(("f%d OK" % i) in r)
    body_parts.append("Definition fs_cases : list (str * bool) := [\n%s].\n" % ";\n".join("(%s, %s)" % (C.coq_str(c), C.coq_bool(a)) for c, a in zip(cands, acc))
                      + "Definition fs_bad := Eval vm_compute in diff_positions Bool.eqb 0%nat (map (fun c => valid_flag (fst c)) fs_cases) (map snd fs_cases).\nPrint fs_bad.\n")

    def after(log):
        bad = parse_nat_list(log, "fs_bad")
        if bad is None:
            chk.broken_obligation("could not read the flag-syntax results from Coq:\n" + log[-1000:])
            return
        chk.cov["evaluations"] += len(cands)
        chk.cov["flagsyntax_cases"] = len(cands)
        chk.cov["flagsyntax_accepted"] = sum(acc)
        chk.cov["disagreements_checked"] += len(bad)
        for i in bad[:5]:
            if acc[i]:
                chk.violation("STORE accepted %r as a flag: not an RFC 3501 flag (atom, optionally preceded by one backslash); FETCH FLAGS would print it" % cands[i],
                              {"suite": "flagsyntax", "flag": C.latin(cands[i]), "accepted": True})
            else:
                chk.violation("STORE refused the RFC 3501 flag %r" % cands[i], {"suite": "flagsyntax", "flag": C.latin(cands[i]), "accepted": False})
    post.append(after)
    return True


HEADER = C.COQ_CASE_HEADER + "From Raven Require Import Base.Enum Model.Flags Spec.FlagSet Model.FlagStore Spec.FlagHistory Spec.FlagOracle.\n"


def run(chk):
    chk.cov["rule"] = ("direct: (current flag string, named flags, data item) drawn from system flags, \\Recent, Junk/NonJunk and keywords that are substrings/case variants of each other, "
                       "both CalculateNewFlags copies vs the model (set comparison) and vs the set-algebra oracle apply_ok, evaluated by vm_compute; "
                       "non-trivial = non-empty current set, non-empty named list, valid data item")
    body_parts, post = [], []
    if not suite_direct(chk, body_parts, post):
        return
    if not suite_flagsyntax(chk, body_parts, post):
        return
    if not suite_sessions(chk, body_parts, post):
        return
    rc, log = C.coq_eval_cases("C10", HEADER + "\n".join(body_parts))
    if rc != 0:
        chk.broken_obligation("in-Coq evaluation of the C10 cases failed:\n" + log[-2000:])
        return
    for f in post:
        f(log)
    chk.cov["traces_validated_against_impl"] = chk.cov["evaluations"]


def replay(path):
    d = json.load(open(path))
    if d.get("suite") == "direct":
        for fn in ("CalculateNewFlags", "CalculateNewFlagsUtils"):
            print(fn, C.run_ops([{"op": "call", "fn": fn, "a": [d["cur"], " ".join(d["new"]), d["item"]]}]))
    elif "scenario" in d:
        sc = d["scenario"]
        for o in sc["h"]:
            if "set" in o:
                o["set"] = [tuple(x) for x in o["set"]]
        sc["keys"] = [tuple(x) for x in sc["keys"]]
        ops, plan = driver_ops(sc)
        res = C.run_ops(ops)
        for o, r in zip(ops, res.get("obs", [])):
            if "data" in o and "Subject:" not in o["data"]:
                print("C:", o["data"].strip())
                print("S:", r.get("recv", "").strip().replace("\r\n", "\n   "))
    else:
        if d.get("suite") == "flagsyntax":
            f = d["flag"]
            print(C.run_ops([{"op": "open", "conn": "A"}, {"op": "send", "conn": "A", "data": "s1 LOGIN u@example.com pw\r\n", "until": "tag:s1"},
                             {"op": "send", "conn": "A", "data": "s2 APPEND INBOX {%d+}\r\n%s\r\n" % (len(body_of(1)), body_of(1)), "until": "tag:s2"},
                             {"op": "send", "conn": "A", "data": "s3 SELECT INBOX\r\n", "until": "tag:s3"},
                             {"op": "send", "conn": "A", "data": "f STORE 1 FLAGS (%s)\r\n" % f, "until": "tag:f"}])["obs"][-1])
        print(json.dumps(d, indent=1))
    return 0
