"""C18 — LIST/LSUB wildcard matching: correspondence of Model/Pattern.v with
internal/server/utils/pattern.go, and the cost probe."""
import json
import common as C

ALPHA = "aB/*%"


def gen_random(chk, n):
    rng = chk.rng
    cases = []
    atoms = ["a", "b", "B", "/", "*", "%", "INBOX", "inbox", "Inbox", "x/y", "é", "_", " ", "Sent"]
    for _ in range(n):
        p = "".join(rng.choice(atoms) for _ in range(rng.randint(0, 8)))
        if rng.random() < 0.5:
            # derive the name from the pattern so that matches are frequent
            t = ""
            for ch in p:
                if ch == "*":
                    t += "".join(rng.choice("ab/") for _ in range(rng.randint(0, 3)))
                elif ch == "%":
                    t += "".join(rng.choice("abB") for _ in range(rng.randint(0, 3)))
                else:
                    t += ch
            if rng.random() < 0.2:
                t += rng.choice(["a", "/", ""])
        else:
            t = "".join(rng.choice(atoms[:4] + ["INBOX", "inbox", "x/y"]) for _ in range(rng.randint(0, 6)))
        cases.append((p, t))
    return cases


def run(chk):
    L = 7
    nrand = 1500 if chk.tier == "quick" else 20000
    # ---- implementation side
    rand = gen_random(chk, nrand)
    refs = ["", "a", "a/", "/", "x/y", "INBOX", "inbox/", "%", "*", "a%", "%/", "a*/", "W%/", "*/b"]
    canon_cases = [(r, p) for r in refs for p in ["", "*", "%", "/a", "a/*", "b%", "INBOX", "in*"]]
    names_sets = [["INBOX", "Sent", "Drafts", "a", "a/b", "a/b/c", "B", "x y"], ["INBOX"], ["INBOX", "in", "inb/ox", "*lit"]]
    filt_cases = []
    for ns in names_sets:
        for (r, p) in canon_cases + [("", "i*"), ("", "I%"), ("", "%/%"), ("a", "%"), ("", "*b*")]:
            filt_cases.append((r, p, ns))
    import itertools
    grid_alpha = "a/*%"
    grid = ["".join(t) for k in range(0, 4) for t in itertools.product(grid_alpha, repeat=k)]
    grid_names = ["INBOX", "a", "a/a", "a/a/a", "aa", "/a", "a/", "b", "a/b"]
    grid_cases = [(r, p, grid_names) for r in grid for p in grid]          # 85 x 85 = 7225 (reference, pattern) pairs, exhaustive up to length 3
    filt_cases = filt_cases + grid_cases
    ops = [
        {"op": "enum_match", "alpha": ALPHA, "L": L},
        {"op": "batch", "fn": "MatchWildcard", "cases": [{"a": [C.latin(t.encode("latin-1") if isinstance(t, str) else t), C.latin(p)]} for (p, t) in rand]},
        {"op": "batch", "fn": "BuildCanonicalPattern", "cases": [{"a": [r, p]} for (r, p) in canon_cases]},
        {"op": "batch", "fn": "FilterMailboxes", "cases": [{"a": [r, p] + ns} for (r, p, ns) in filt_cases]},
    ]
    # cost probe: adversarial family, each in its own short-lived driver with a timeout
    res = C.run_ops(ops, timeout=600)
    if res.get("crashed"):
        chk.broken_obligation("driver crashed on the C18 suite: %s" % res.get("stderr", "")[:500])
        return
    obs = res["obs"]
    words = obs[0]["words"]
    count = obs[0]["count"]
    r_match = obs[1]["rs"]
    r_canon = [C.unlatin(x) for x in obs[2]["rs"]]
    r_filt = [[C.unlatin(x) for x in (l or [])] for l in obs[3]["rs"]]

    # ---- model side, evaluated inside Coq
    body = C.COQ_CASE_HEADER + "From Raven Require Import Base.Enum Model.Pattern.\n"
    body += "Definition alpha := %s.\n" % C.coq_str(ALPHA)
    body += "Definition impl_words : list N := [%s]%%N.\n" % ";".join(words)
    body += ("Definition model_words := Eval vm_compute in pack 60 (map (fun '(p,n) => match_wildcard n p) (pairs_upto alpha %d)).\n" % L)
    body += "Definition enum_diff := Eval vm_compute in diff_positions N.eqb 0 impl_words model_words.\nPrint enum_diff.\n"
    body += "Definition rand_cases : list (str * str * bool) := [\n%s].\n" % ";\n".join(
        "(%s, %s, %s)" % (C.coq_str(p), C.coq_str(t), C.coq_bool(r is True)) for (p, t), r in zip(rand, r_match))
    body += "Definition rand_diff := Eval vm_compute in diff_positions Bool.eqb 0 (map (fun '(p,t,r) => r) rand_cases) (map (fun '(p,t,r) => match_wildcard t p) rand_cases).\nPrint rand_diff.\n"
    body += "Definition canon_cases : list (str * str * str) := [\n%s].\n" % ";\n".join(
        "(%s, %s, %s)" % (C.coq_str(r), C.coq_str(p), C.coq_str(o)) for (r, p), o in zip(canon_cases, r_canon))
    body += "Definition canon_diff := Eval vm_compute in diff_positions str_eqb 0 (map (fun '(r,p,o) => o) canon_cases) (map (fun '(r,p,o) => build_canonical_pattern r p) canon_cases).\nPrint canon_diff.\n"
    body += "Definition filt_cases : list (str * str * list str * list str) := [\n%s].\n" % ";\n".join(
        "(%s, %s, %s, %s)" % (C.coq_str(r), C.coq_str(p), C.coq_list([C.coq_str(x) for x in ns]), C.coq_list([C.coq_str(x) for x in o]))
        for (r, p, ns), o in zip(filt_cases, r_filt))
    body += ("Definition lstr_eqb (a b : list str) := str_eqb (join a [LF]) (join b [LF]) && Nat.eqb (length a) (length b).\n"
             "Definition filt_diff := Eval vm_compute in diff_positions lstr_eqb 0 (map (fun '(r,p,ns,o) => o) filt_cases) (map (fun '(r,p,ns,o) => filter_mailboxes ns r p) filt_cases).\nPrint filt_diff.\n")
    rc, log = C.coq_eval_cases("C18", body)
    if rc != 0:
        chk.broken_obligation("in-Coq evaluation of the C18 cases failed:\n" + log[-2000:])
        return

    def diffs(name):
        txt = C.parse_coq_list_out(log, name)
        if txt is None:
            return None
        txt = txt.strip()
        if txt == "[]":
            return []
        return [int(x) for x in txt.strip("[]").replace("%nat", "").split(";") if x.strip()]

    chk.cov["evaluations"] = count + len(rand) + len(canon_cases) + len(filt_cases)
    chk.cov["exhaustive_pairs"] = count
    chk.cov["exhaustive"] = False
    chk.cov["rule"] = ("exhaustive: all (pattern,name) over alphabet {a,B,/,*,%%} with |p|+|n|<=%d, MatchWildcard vs model match_wildcard evaluated by vm_compute; "
                       "plus seeded random long patterns/names (half derived from the pattern so that matches are frequent, incl. INBOX case variants and one non-ASCII byte), "
                       "BuildCanonicalPattern on a reference x pattern grid, FilterMailboxes on name sets; non-trivial = contains a wildcard and at least one byte of name" % L)
    nontriv = set((p, t) for (p, t) in rand if ("*" in p or "%" in p) and t)
    chk.cov["distinct_nontrivial"] = len(nontriv)
    chk.cov["random_matches_true"] = sum(1 for r in r_match if r is True)
    chk.cov["traces_validated_against_impl"] = chk.cov["evaluations"]
    chk.sample({"pattern": rand[0][0], "name": rand[0][1], "impl": r_match[0]})
    chk.sample({"reference": filt_cases[3][0], "pattern": filt_cases[3][1], "names": filt_cases[3][2], "impl": [x.decode("latin-1") for x in r_filt[3]]})

    nd = 0
    ed = diffs("enum_diff")
    if ed is None:
        chk.broken_obligation("could not read enum_diff from Coq output:\n" + log[-1500:])
        return
    if ed:
        nd += len(ed)
        # locate the first differing pair by re-enumerating in Python
        import itertools
        idx = ed[0] * 60
        k = 0
        first = None
        for lp in range(L + 1):
            for ln in range(L - lp + 1):
                for p in itertools.product(ALPHA, repeat=lp):
                    for n in itertools.product(ALPHA, repeat=ln):
                        if idx <= k < idx + 60 and first is None:
                            first = ("".join(p), "".join(n), k)
                        k += 1
        chk.violation("MatchWildcard differs from the RFC 3501 relation (proved equal to the model) within word %d of the exhaustive enumeration; first pair of that word: pattern=%r name=%r" % (ed[0], first[0], first[1]),
                      {"suite": "enum", "L": L, "alpha": ALPHA, "word": ed[0], "first_pair_of_word": first, "replay": "bin/check C18 replay <this file>"})
    for name, cases, impl in (("rand_diff", rand, r_match), ("canon_diff", canon_cases, r_canon), ("filt_diff", filt_cases, r_filt)):
        d = diffs(name)
        if d is None:
            chk.broken_obligation("could not read %s from Coq output" % name)
            return
        for i in d[:3]:
            nd += 1
            if name == "rand_diff" and any(ord(ch) > 127 for ch in cases[i][0] + cases[i][1]):
                chk.notes.append("domain edge (non-ASCII bytes, outside the stated model domain): %r" % (cases[i],))
                continue
            chk.violation("%s: implementation result %r differs from the model (proved equal to the RFC relation) on %r" % (name, impl[i], cases[i]),
                          {"suite": name, "case": cases[i], "impl": str(impl[i])})
    chk.cov["disagreements_checked"] = nd

    # ---- cost probe on the implementation (supporting evidence for the cost model)
    worst = 0
    for k in (10, 20, 40):
        pat = "*a" * k + "b"
        txt = "a" * 200
        try:
            r = C.run_ops([{"op": "timed_match", "text": txt, "pattern": pat}], timeout=20)
            us = r["obs"][0]["us"]
            worst = max(worst, us)
            if us > 2_000_000:
                chk.violation("matching %d wildcards against a 200-byte name took %d us" % (k, us), {"suite": "cost", "pattern": pat, "text": txt, "us": us})
        except Exception:
            chk.violation("matching pattern (*a)^%d b against a^200 did not finish within 20 s (super-polynomial cost)" % k,
                          {"suite": "cost", "pattern": pat, "text": txt})
            break
    chk.cov["cost_probe_worst_us"] = worst


def replay(path):
    d = json.load(open(path))
    if d.get("suite") == "cost":
        r = C.run_ops([{"op": "timed_match", "text": d["text"], "pattern": d["pattern"]}], timeout=30)
        print(r)
        return 0
    if d.get("suite") == "rand_diff":
        p, t = d["case"]
        print(C.run_ops([{"op": "call", "fn": "MatchWildcard", "a": [t, p]}]))
    else:
        print(json.dumps(d, indent=1))
    return 0
