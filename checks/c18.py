"""C18 — LIST/LSUB wildcard matching: correspondence of Model/Pattern.v with
internal/server/utils/pattern.go, and the cost probe."""
import json
import re
import common as C

ALPHA = "aB/*%"


def gen_random(chk, n):
    rng = chk.rng
    cases = []
    atoms = ["a", "b", "B", "/", "*", "%", "INBOX", "inbox", "Inbox", "x/y", "é", "_", " ", "Sent"]
    for _ in range(n):
        p = "".join(rng.choice(atoms) for _ in range(rng.randint(0, 8)))
        if rng.random() < 0.5:
            # derive the name from the pattern so that matches are frequent
            t = ""
            for ch in p:
                if ch == "*":
                    t += "".join(rng.choice("ab/") for _ in range(rng.randint(0, 3)))
                elif ch == "%":
                    t += "".join(rng.choice("abB") for _ in range(rng.randint(0, 3)))
                else:
                    t += ch
            if rng.random() < 0.2:
                t += rng.choice(["a", "/", ""])
        else:
            t = "".join(rng.choice(atoms[:4] + ["INBOX", "inbox", "x/y"]) for _ in range(rng.randint(0, 6)))
        cases.append((p, t))
    return cases


E2E_USER = "carol@example.com"
E2E_SETS = [
    (["Foo/Bar/Baz", "Foo/Qux"], ["Foo", "Foo/Bar", "Foo/Qux", "Zed"]),
    (["A/B/C", "X", "A/B2"], ["A", "A/B", "A/B/C", "X"]),
    (["inbox/x", "Foo", "Foo/a/b/c", "a//b", "/lead", "INBOX"], ["inbox2", "Foo", "Foo/a", "a//b"]),
    (["INBOX", "Sent", "Pro/jects/2023", "Pro/Old"], ["Pro", "Pro/jects"]),
]
E2E_REFS = ["", "Foo", "Foo/", "Foo/Bar/", "A/B/", "A/", "/", "inbox", "%", "F*", "Pro/", "Pro/jects", "a/"]
E2E_PATS = ["%", "*", "%/%", "Foo/%", "*/%", "%/Bar", "B%", "Qux", "/%", "INBOX", "in%", "%ox", "%/%/%", "*2023", "%B%", "/b"]


def e2e_scenario(subs, boxes, pairs):
    ops = [{"op": "open", "conn": "c", "kind": "tls"},
           {"op": "send", "conn": "c", "data": "a0 LOGIN %s pw\r\n" % E2E_USER, "until": "tag:a0", "timeout_ms": 6000}]
    t = 0
    for d in ["INBOX", "Sent", "Drafts", "Trash", "Spam"]:
        t += 1
        ops.append({"op": "send", "conn": "c", "data": 'u%d UNSUBSCRIBE "%s"\r\n' % (t, d), "until": "tag:u%d" % t})
    for n in subs:
        t += 1
        ops.append({"op": "send", "conn": "c", "data": 'u%d SUBSCRIBE "%s"\r\n' % (t, n), "until": "tag:u%d" % t})
    for n in boxes:
        t += 1
        ops.append({"op": "send", "conn": "c", "data": 'u%d CREATE "%s"\r\n' % (t, n), "until": "tag:u%d" % t})
    first = len(ops)
    ops.append({"op": "sql", "store": "user_db_1", "q": "SELECT mailbox_name FROM subscriptions ORDER BY mailbox_name"})
    ops.append({"op": "sql", "store": "user_db_1", "q": "SELECT name FROM mailboxes ORDER BY name"})
    for i, (r, pt) in enumerate(pairs):
        ops.append({"op": "send", "conn": "c", "data": 's%d LSUB "%s" "%s"\r\n' % (i, r, pt), "until": "tag:s%d" % i})
        ops.append({"op": "send", "conn": "c", "data": 'l%d LIST "%s" "%s"\r\n' % (i, r, pt), "until": "tag:l%d" % i})
    return ops, first


ROLE_USER = "dora@example.com"
ROLE_ADDR = "proj@example.com"
ROLE_BOXES = ["Projects", "Projects/2024", "Projects/2024/Q1", "a/b", "Zed"]
ROLE_REFS = ["", "Roles", "Roles/", "Roles/%s" % ROLE_ADDR, "Roles/%s/" % ROLE_ADDR, "Roles/%s/Projects/" % ROLE_ADDR, "R", "Roles/p"]
ROLE_PATS = ["%", "*", "%/%", "%/%/%", "%/INBOX", "Roles/%", "Roles/%/%", "INBOX", "Projects/%", "P%", "*2024", "%/%/Projects/%", "/%"]


def role_scenario(pairs):
    """dora is assigned to a role mailbox that has nested folders; LIST and LSUB with references"""
    ops = [{"op": "open", "conn": "c0", "kind": "tls"},
           {"op": "send", "conn": "c0", "data": "a0 LOGIN %s pw\r\n" % ROLE_USER, "until": "tag:a0", "timeout_ms": 20000},
           {"op": "send", "conn": "c0", "data": "a1 LOGOUT\r\n", "until": "tag:a1", "timeout_ms": 20000},
           {"op": "role_create", "email": ROLE_ADDR},
           {"op": "role_assign", "user": ROLE_USER, "role": 1}]
    for b in ROLE_BOXES:
        ops.append({"op": "sql_exec", "store": "role_db_1", "q": "INSERT INTO mailboxes (user_id, name, uid_validity, uid_next) VALUES (0, '%s', 77, 1)" % b})
    ops += [{"op": "open", "conn": "c", "kind": "tls"},
            {"op": "send", "conn": "c", "data": "b0 LOGIN %s pw\r\n" % ROLE_USER, "until": "tag:b0", "timeout_ms": 20000},
            # a non-empty subscription list (for an empty one LSUB presents the five defaults: C11's concern, not modelled here)
            {"op": "send", "conn": "c", "data": 'b1 SUBSCRIBE "INBOX"\r\n', "until": "tag:b1", "timeout_ms": 20000},
            {"op": "send", "conn": "c", "data": 'b2 SUBSCRIBE "Work/Notes"\r\n', "until": "tag:b2", "timeout_ms": 20000}]
    first = len(ops)
    ops.append({"op": "sql", "store": "user_db_1", "q": "SELECT mailbox_name FROM subscriptions ORDER BY mailbox_name"})
    ops.append({"op": "sql", "store": "user_db_1", "q": "SELECT name FROM mailboxes ORDER BY name"})
    ops.append({"op": "sql", "store": "role_db_1", "q": "SELECT name FROM mailboxes ORDER BY name"})
    for i, (r, pt) in enumerate(pairs):
        ops.append({"op": "send", "conn": "c", "data": 's%d LSUB "%s" "%s"\r\n' % (i, r, pt), "until": "tag:s%d" % i, "timeout_ms": 20000})
        ops.append({"op": "send", "conn": "c", "data": 'l%d LIST "%s" "%s"\r\n' % (i, r, pt), "until": "tag:l%d" % i, "timeout_ms": 20000})
    return ops, first


LINE_RE = re.compile(rb'^\* (LIST|LSUB) \(([^)]*)\) "/" (.*)$')


def parse_listing(recv):
    """-> (ok, [(name, noselect)])"""
    out = []
    ok = False
    for l in recv.split(b"\r\n"):
        m = LINE_RE.match(l)
        if m:
            nm = m.group(3)
            if nm.startswith(b'"') and nm.endswith(b'"') and len(nm) >= 2:
                nm = re.sub(rb"\\(.)", rb"\1", nm[1:-1])
            out.append((nm, b"\\Noselect" in m.group(2)))
        elif re.match(rb"^[sl]\d+ OK ", l):
            ok = True
    return ok, out


def run_e2e(chk):
    """LSUB and LIST through a real IMAP session: reference + pattern against a
    subscription list / mailbox list; the answered names (with and without
    \\Noselect) are compared inside Coq with lsub_names / filter_mailboxes."""
    rng = chk.rng
    allpairs = [(r, p) for r in E2E_REFS for p in E2E_PATS]
    scen = []
    for (subs, boxes) in E2E_SETS:
        if chk.tier == "quick":
            must = [("Foo/", "%"), ("A/B/", "%"), ("Pro/", "%"), ("", "%"), ("", "*"), ("Foo", "%/%"), ("", "%/%"), ("inbox", "%")]
            pairs = must + rng.sample(allpairs, 40)
        else:
            pairs = allpairs
        ops, first = e2e_scenario(subs, boxes, pairs)
        scen.append((ops, first, pairs))
    res = C.run_many([o for (o, _, _) in scen], workers=4, timeout=600)
    cases = []       # (kind, ref, pat, base list, impl noselect names, impl plain names)
    for (ops, first, pairs), r in zip(scen, res):
        if r.get("crashed"):
            chk.broken_obligation("driver crashed in the C18 LSUB/LIST session suite: %s" % r.get("stderr", "")[:400])
            return 0
        obs = r["obs"]
        subs = [C.unlatin(x[0]) if isinstance(x[0], str) else x[0] for x in (obs[first].get("rows") or [])]
        boxes = [C.unlatin(x[0]) if isinstance(x[0], str) else x[0] for x in (obs[first + 1].get("rows") or [])]
        for i, (rf, pt) in enumerate(pairs):
            for kind, o, base in (("lsub", obs[first + 2 + 2 * i], subs), ("list", obs[first + 3 + 2 * i], boxes)):
                ok, names = parse_listing(C.unlatin(o.get("recv", "")))
                if not ok:
                    chk.violation("%s %r %r was not answered OK: %r" % (kind.upper(), rf, pt, o.get("recv", "")[:200]),
                                  {"suite": "e2e", "kind": kind, "reference": rf, "pattern": pt, "base": [b.decode("latin-1") for b in base]})
                    continue
                cases.append((kind, rf, pt, base, sorted(set(n for n, ns in names if ns)), sorted(n for n, ns in names if not ns)))
    # a user with an assigned role mailbox (nested folders in the role store)
    rpairs = [(r, pt) for r in ROLE_REFS for pt in ROLE_PATS]
    if chk.tier == "quick":
        rpairs = [("Roles/%s/" % ROLE_ADDR, "%"), ("Roles/", "%/%"), ("Roles", "%/INBOX"), ("", "*"), ("", "%"), ("Roles/", "%"), ("", "Roles/%/%")] + rng.sample(rpairs, 30)
    rops, rfirst = role_scenario(rpairs)
    rr = C.run_ops(rops, timeout=600)
    rcases = []      # (is_lsub, ref, pat, base (subs or boxes), role boxes, noselect names, plain names)
    if rr.get("crashed") or len(rr.get("obs", [])) < rfirst + 3:
        chk.broken_obligation("driver crashed in the C18 role-mailbox LIST/LSUB session: %s" % rr.get("stderr", "")[:400])
        return 0
    robs = rr["obs"]
    def col(o):
        return [C.unlatin(x[0]) if isinstance(x[0], str) else x[0] for x in (o.get("rows") or [])]
    rsubs, rboxes, rrole = col(robs[rfirst]), col(robs[rfirst + 1]), col(robs[rfirst + 2])
    if not rrole or b"INBOX" not in rboxes:
        chk.notes.append("C18 role scenario could not be set up (role store or account missing); skipped")
    else:
        for i, (rf, pt) in enumerate(rpairs):
            for kind, o, base in (("lsub", robs[rfirst + 3 + 2 * i], rsubs), ("list", robs[rfirst + 4 + 2 * i], rboxes)):
                ok, names = parse_listing(C.unlatin(o.get("recv", "")))
                if not ok:
                    chk.violation("%s %r %r (user with a role mailbox) was not answered OK: %r" % (kind.upper(), rf, pt, o.get("recv", "")[:200]),
                                  {"suite": "e2e_role", "kind": kind, "reference": rf, "pattern": pt})
                    continue
                rcases.append((kind, rf, pt, base, rrole, sorted(set(n for n, ns in names if ns)), sorted(n for n, ns in names if not ns)))
    body = C.COQ_CASE_HEADER + "From Raven Require Import Base.Enum Model.Pattern.\n"
    body += "Definition role_cases : list (bool * str * str * list str * list str * list str * list str) := [\n%s].\n" % ";\n".join(
        "(%s, %s, %s, %s, %s, %s, %s)" % (C.coq_bool(k == "lsub"), C.coq_str(rf), C.coq_str(pt), C.coq_list([C.coq_str(x) for x in base]), C.coq_list([C.coq_str(x) for x in rb]),
                                          C.coq_list([C.coq_str(x) for x in ns]), C.coq_list([C.coq_str(x) for x in pl])) for (k, rf, pt, base, rb, ns, pl) in rcases)
    body += ("Definition set_eqb0 (a b : list str) := forallb (fun x => mem_str x b) a && forallb (fun x => mem_str x a) b.\n"
             "Definition role_ok (c : bool * str * str * list str * list str * list str * list str) : bool := let '(k, rf, pt, base, rb, ns, pl) := c in\n"
             "  let rn := role_names [(%s, rb)] rf pt in\n"
             "  let rns := filter role_noselect rn in let rpl := filter (fun n => negb (role_noselect n)) rn in\n"
             "  if k then let '(i, m) := lsub_names base rf pt in set_eqb0 (i ++ rns) ns && set_eqb0 (m ++ rpl) pl && Nat.eqb (length (m ++ rpl)) (length pl)\n"
             "  else set_eqb0 rns ns && set_eqb0 (filter_mailboxes base rf pt ++ rpl) pl && Nat.eqb (length (filter_mailboxes base rf pt ++ rpl)) (length pl).\n"
             "Definition role_diff := Eval vm_compute in diff_positions Bool.eqb 0 (map (fun _ => true) role_cases) (map role_ok role_cases).\nPrint role_diff.\n" % C.coq_str(ROLE_ADDR))
    body += "Definition e2e_cases : list (bool * str * str * list str * list str * list str) := [\n%s].\n" % ";\n".join(
        "(%s, %s, %s, %s, %s, %s)" % (C.coq_bool(k == "lsub"), C.coq_str(rf), C.coq_str(pt), C.coq_list([C.coq_str(x) for x in base]),
                                      C.coq_list([C.coq_str(x) for x in ns]), C.coq_list([C.coq_str(x) for x in pl])) for (k, rf, pt, base, ns, pl) in cases)
    body += ("Definition set_eqb (a b : list str) := forallb (fun x => mem_str x b) a && forallb (fun x => mem_str x a) b.\n"
             "Definition e2e_ok (c : bool * str * str * list str * list str * list str) : bool := let '(k, rf, pt, base, ns, pl) := c in\n"
             "  if k then let '(i, m) := lsub_names base rf pt in set_eqb i ns && set_eqb m pl && Nat.eqb (length m) (length pl)\n"
             "  else match ns with [] => true | _ => false end && set_eqb (filter_mailboxes base rf pt) pl && Nat.eqb (length (filter_mailboxes base rf pt)) (length pl).\n"
             "Definition e2e_diff := Eval vm_compute in diff_positions Bool.eqb 0 (map (fun _ => true) e2e_cases) (map e2e_ok e2e_cases).\nPrint e2e_diff.\n")
    rc, log = C.coq_eval_cases("C18", body)
    if rc != 0:
        chk.broken_obligation("in-Coq evaluation of the C18 LSUB/LIST session cases failed:\n" + log[-2000:])
        return 0
    txt = C.parse_coq_list_out(log, "e2e_diff")
    if txt is None:
        chk.broken_obligation("could not read e2e_diff from Coq output:\n" + log[-1500:])
        return 0
    txt = txt.strip()
    bad = [] if txt == "[]" else [int(x) for x in txt.strip("[]").replace("%nat", "").split(";") if x.strip()]
    for i in bad[:4]:
        k, rf, pt, base, ns, pl = cases[i]
        chk.violation("%s %r %r over %s answered \\Noselect %s and %s; the model of the handler (proved to be the RFC 3501 relation) answers differently"
                      % (k.upper(), rf, pt, [x.decode("latin-1") for x in base], [x.decode("latin-1") for x in ns], [x.decode("latin-1") for x in pl]),
                      {"suite": "e2e", "kind": k, "reference": rf, "pattern": pt, "base": [x.decode("latin-1") for x in base],
                       "noselect": [x.decode("latin-1") for x in ns], "plain": [x.decode("latin-1") for x in pl]})
    rtxt = C.parse_coq_list_out(log, "role_diff")
    rbad = []
    if rtxt is None:
        chk.broken_obligation("could not read role_diff from Coq output:\n" + log[-1500:])
    else:
        rtxt = rtxt.strip()
        rbad = [] if rtxt == "[]" else [int(x) for x in rtxt.strip("[]").replace("%nat", "").split(";") if x.strip()]
    for i in rbad[:4]:
        k, rf, pt, base, rb, ns, pl = rcases[i]
        chk.violation("%s %r %r for a user assigned to role mailbox %s (role folders %s) answered \\Noselect %s and %s; the model of the handler answers differently"
                      % (k.upper(), rf, pt, ROLE_ADDR, [x.decode("latin-1") for x in rb], [x.decode("latin-1") for x in ns], [x.decode("latin-1") for x in pl]),
                      {"suite": "e2e_role", "kind": k, "reference": rf, "pattern": pt, "noselect": [x.decode("latin-1") for x in ns], "plain": [x.decode("latin-1") for x in pl]})
    chk.cov["e2e_role_cases"] = len(rcases)
    chk.cov["e2e_role_nonempty_answers"] = sum(1 for c in rcases if any(x.startswith(b"Roles") for x in c[5] + c[6]))
    chk.cov["e2e_role_disagreements"] = len(rbad)
    chk.cov["e2e_session_cases"] = len(cases)
    chk.cov["e2e_lsub_with_implied_parent"] = sum(1 for c in cases if c[0] == "lsub" and c[4])
    chk.cov["e2e_nonempty_answers"] = sum(1 for c in cases if c[5] or c[4])
    chk.cov["e2e_disagreements"] = len(bad)
    return len(cases) + len(rcases)


def gen_long(chk, n):
    """long names (around and above 64 bytes, the size where an implementation might switch
    buffers) matched one after the other in ONE process, with patterns that end in wildcards:
    any state kept between calls shows as a disagreement with the (stateless) model"""
    rng = chk.rng
    def name():
        k = rng.choice([62, 63, 64, 65, 70, 96, 128, 140])
        segs = []
        left = k
        while left > 0:
            m = min(left, rng.choice([5, 17, 40, 64, 70]))
            segs.append(rng.choice("abAB") * m)
            left -= m + 1
        return "/".join(segs)
    pats = ["%", "%%", "%/%", "*%", "%*", "*/%", "%/%/%", "a%", "%a", "%/a%", "*a/%", "%/%%", "A%", "%b%"]
    cases = []
    for _ in range(n):
        t = name()
        pt = rng.choice(pats)
        if rng.random() < 0.3:
            pt = t[:rng.randint(1, 8)] + rng.choice(["%", "%/%", "*"])
        cases.append((pt, t))
    return cases


def run(chk):
    L = 7
    nrand = 1500 if chk.tier == "quick" else 20000
    # ---- implementation side
    rand = gen_random(chk, nrand) + gen_long(chk, 400 if chk.tier == "quick" else 4000)
    refs = ["", "a", "a/", "/", "x/y", "INBOX", "inbox/", "%", "*", "a%", "%/", "a*/", "W%/", "*/b"]
    canon_cases = [(r, p) for r in refs for p in ["", "*", "%", "/a", "a/*", "b%", "INBOX", "in*"]]
    names_sets = [["INBOX", "Sent", "Drafts", "a", "a/b", "a/b/c", "B", "x y"], ["INBOX"], ["INBOX", "in", "inb/ox", "*lit"]]
    filt_cases = []
    for ns in names_sets:
        for (r, p) in canon_cases + [("", "i*"), ("", "I%"), ("", "%/%"), ("a", "%"), ("", "*b*")]:
            filt_cases.append((r, p, ns))
    import itertools
    grid_alpha = "a/*%"
    grid = ["".join(t) for k in range(0, 4) for t in itertools.product(grid_alpha, repeat=k)]
    grid_names = ["INBOX", "a", "a/a", "a/a/a", "aa", "/a", "a/", "b", "a/b"]
    grid_cases = [(r, p, grid_names) for r in grid for p in grid]          # 85 x 85 = 7225 (reference, pattern) pairs, exhaustive up to length 3
    filt_cases = filt_cases + grid_cases
    longnames = ["INBOX", "a" * 70 + "/2024", "b" * 64, "B" * 65 + "/x/" + "a" * 66, "a" * 63, "a" * 128 + "/" + "b" * 5]
    filt_cases += [(r, pt, longnames) for r in ["", "a" * 70 + "/"] for pt in ["%", "%%", "%/%", "*", "*/%", "a%", "%/%/%"]]
    ops = [
        {"op": "enum_match", "alpha": ALPHA, "L": L},
        {"op": "batch", "fn": "MatchWildcard", "cases": [{"a": [C.latin(t.encode("latin-1") if isinstance(t, str) else t), C.latin(p)]} for (p, t) in rand]},
        {"op": "batch", "fn": "BuildCanonicalPattern", "cases": [{"a": [r, p]} for (r, p) in canon_cases]},
        {"op": "batch", "fn": "FilterMailboxes", "cases": [{"a": [r, p] + ns} for (r, p, ns) in filt_cases]},
    ]
    # cost probe: adversarial family, each in its own short-lived driver with a timeout
    res = C.run_ops(ops, timeout=600)
    if res.get("crashed"):
        chk.broken_obligation("driver crashed on the C18 suite: %s" % res.get("stderr", "")[:500])
        return
    obs = res["obs"]
    words = obs[0]["words"]
    count = obs[0]["count"]
    r_match = obs[1]["rs"]
    r_canon = [C.unlatin(x) for x in obs[2]["rs"]]
    r_filt = [[C.unlatin(x) for x in (l or [])] for l in obs[3]["rs"]]

    # ---- model side, evaluated inside Coq
    body = C.COQ_CASE_HEADER + "From Raven Require Import Base.Enum Model.Pattern.\n"
    body += "Definition alpha := %s.\n" % C.coq_str(ALPHA)
    body += "Definition impl_words : list N := [%s]%%N.\n" % ";".join(words)
    body += ("Definition model_words := Eval vm_compute in pack 60 (map (fun '(p,n) => match_wildcard n p) (pairs_upto alpha %d)).\n" % L)
    body += "Definition enum_diff := Eval vm_compute in diff_positions N.eqb 0 impl_words model_words.\nPrint enum_diff.\n"
    body += "Definition rand_cases : list (str * str * bool) := [\n%s].\n" % ";\n".join(
        "(%s, %s, %s)" % (C.coq_str(p), C.coq_str(t), C.coq_bool(r is True)) for (p, t), r in zip(rand, r_match))
    body += "Definition rand_diff := Eval vm_compute in diff_positions Bool.eqb 0 (map (fun '(p,t,r) => r) rand_cases) (map (fun '(p,t,r) => match_wildcard t p) rand_cases).\nPrint rand_diff.\n"
    body += "Definition canon_cases : list (str * str * str) := [\n%s].\n" % ";\n".join(
        "(%s, %s, %s)" % (C.coq_str(r), C.coq_str(p), C.coq_str(o)) for (r, p), o in zip(canon_cases, r_canon))
    body += "Definition canon_diff := Eval vm_compute in diff_positions str_eqb 0 (map (fun '(r,p,o) => o) canon_cases) (map (fun '(r,p,o) => build_canonical_pattern r p) canon_cases).\nPrint canon_diff.\n"
    body += "Definition filt_cases : list (str * str * list str * list str) := [\n%s].\n" % ";\n".join(
        "(%s, %s, %s, %s)" % (C.coq_str(r), C.coq_str(p), C.coq_list([C.coq_str(x) for x in ns]), C.coq_list([C.coq_str(x) for x in o]))
        for (r, p, ns), o in zip(filt_cases, r_filt))
    body += ("Definition lstr_eqb (a b : list str) := str_eqb (join a [LF]) (join b [LF]) && Nat.eqb (length a) (length b).\n"
             "Definition filt_diff := Eval vm_compute in diff_positions lstr_eqb 0 (map (fun '(r,p,ns,o) => o) filt_cases) (map (fun '(r,p,ns,o) => filter_mailboxes ns r p) filt_cases).\nPrint filt_diff.\n")
    rc, log = C.coq_eval_cases("C18", body)
    if rc != 0:
        chk.broken_obligation("in-Coq evaluation of the C18 cases failed:\n" + log[-2000:])
        return

    def diffs(name):
        txt = C.parse_coq_list_out(log, name)
        if txt is None:
            return None
        txt = txt.strip()
        if txt == "[]":
            return []
        return [int(x) for x in txt.strip("[]").replace("%nat", "").split(";") if x.strip()]

    chk.cov["evaluations"] = count + len(rand) + len(canon_cases) + len(filt_cases)
    chk.cov["exhaustive_pairs"] = count
    chk.cov["exhaustive"] = False
    chk.cov["rule"] = ("exhaustive: all (pattern,name) over alphabet {a,B,/,*,%%} with |p|+|n|<=%d, MatchWildcard vs model match_wildcard evaluated by vm_compute; "
                       "plus seeded random long patterns/names (half derived from the pattern so that matches are frequent, incl. INBOX case variants and one non-ASCII byte), "
                       "BuildCanonicalPattern on a reference x pattern grid, FilterMailboxes on name sets; non-trivial = contains a wildcard and at least one byte of name" % L)
    nontriv = set((p, t) for (p, t) in rand if ("*" in p or "%" in p) and t)
    chk.cov["distinct_nontrivial"] = len(nontriv)
    chk.cov["random_matches_true"] = sum(1 for r in r_match if r is True)
    chk.cov["traces_validated_against_impl"] = chk.cov["evaluations"]
    chk.sample({"pattern": rand[0][0], "name": rand[0][1], "impl": r_match[0]})
    chk.sample({"reference": filt_cases[3][0], "pattern": filt_cases[3][1], "names": filt_cases[3][2], "impl": [x.decode("latin-1") for x in r_filt[3]]})

    nd = 0
    ed = diffs("enum_diff")
    if ed is None:
        chk.broken_obligation("could not read enum_diff from Coq output:\n" + log[-1500:])
        return
    if ed:
        nd += len(ed)
        # locate the first differing pair by re-enumerating in Python
        import itertools
        idx = ed[0] * 60
        k = 0
        first = None
        for lp in range(L + 1):
            for ln in range(L - lp + 1):
                for p in itertools.product(ALPHA, repeat=lp):
                    for n in itertools.product(ALPHA, repeat=ln):
                        if idx <= k < idx + 60 and first is None:
                            first = ("".join(p), "".join(n), k)
                        k += 1
        chk.violation("MatchWildcard differs from the RFC 3501 relation (proved equal to the model) within word %d of the exhaustive enumeration; first pair of that word: pattern=%r name=%r" % (ed[0], first[0], first[1]),
                      {"suite": "enum", "L": L, "alpha": ALPHA, "word": ed[0], "first_pair_of_word": first, "replay": "bin/check C18 replay <this file>"})
    for name, cases, impl in (("rand_diff", rand, r_match), ("canon_diff", canon_cases, r_canon), ("filt_diff", filt_cases, r_filt)):
        d = diffs(name)
        if d is None:
            chk.broken_obligation("could not read %s from Coq output" % name)
            return
        for i in d[:3]:
            nd += 1
            if name == "rand_diff" and any(ord(ch) > 127 for ch in cases[i][0] + cases[i][1]):
                chk.notes.append("domain edge (non-ASCII bytes, outside the stated model domain): %r" % (cases[i],))
                continue
            chk.violation("%s: implementation result %r differs from the model (proved equal to the RFC relation) on %r" % (name, impl[i], cases[i]),
                          {"suite": name, "case": cases[i], "impl": str(impl[i]),
                           # the calls made just before in the same process (a stateful implementation needs them to reproduce)
                           "preceding_calls": [list(c) for c in cases[max(0, i - 6):i]] if name == "rand_diff" else []})
    ne2e = run_e2e(chk)
    chk.cov["evaluations"] += ne2e
    chk.cov["disagreements_checked"] = nd + chk.cov.get("e2e_disagreements", 0) + chk.cov.get("e2e_role_disagreements", 0)
    chk.cov["rule"] += ("; plus LSUB and LIST through a real IMAP session (subscription lists with unsubscribed parents, references with and without trailing delimiter, "
                        "patterns with %, * and literals): answered names with and without \\Noselect compared with Model/Pattern.lsub_names / filter_mailboxes")

    # ---- cost probe on the implementation (supporting evidence for the cost model)
    worst = 0
    for k in (10, 20, 40):
        pat = "*a" * k + "b"
        txt = "a" * 200
        try:
            r = C.run_ops([{"op": "timed_match", "text": txt, "pattern": pat}], timeout=20)
            us = r["obs"][0]["us"]
            worst = max(worst, us)
            if us > 2_000_000:
                chk.violation("matching %d wildcards against a 200-byte name took %d us" % (k, us), {"suite": "cost", "pattern": pat, "text": txt, "us": us})
        except Exception:
            chk.violation("matching pattern (*a)^%d b against a^200 did not finish within 20 s (super-polynomial cost)" % k,
                          {"suite": "cost", "pattern": pat, "text": txt})
            break
    chk.cov["cost_probe_worst_us"] = worst


def replay(path):
    d = json.load(open(path))
    if d.get("suite") == "cost":
        r = C.run_ops([{"op": "timed_match", "text": d["text"], "pattern": d["pattern"]}], timeout=30)
        print(r)
        return 0
    if d.get("suite") == "e2e":
        subs = d["base"] if d["kind"] == "lsub" else []
        boxes = d["base"] if d["kind"] == "list" else []
        ops, first = e2e_scenario(subs, [b for b in boxes if b not in ("INBOX", "Sent", "Drafts", "Trash", "Spam")], [(d["reference"], d["pattern"])])
        r = C.run_ops(ops)
        o = r["obs"][first + (2 if d["kind"] == "lsub" else 3)]
        print(o.get("recv"))
        return 0
    if d.get("suite") == "rand_diff":
        p, t = d["case"]
        seq = [tuple(c) for c in d.get("preceding_calls", [])] + [(p, t)]
        print(C.run_ops([{"op": "batch", "fn": "MatchWildcard", "cases": [{"a": [C.latin(tt), C.latin(pp)]} for (pp, tt) in seq]}]))
    else:
        print(json.dumps(d, indent=1))
    return 0
