"""C17 — Mail is filed where its recipient and the policy say.

Correspondence of Model/Policy.v with internal/delivery/{lmtp/session.go,
storage/storage.go, parser/parser.go, config/config.go}:

  parse    parseRcptTo / ExtractLocalPart / ExtractDomain   (direct calls)
  spam     isSpamByHeaders on explicit maps, ParseMessage+determineTargetFolder on raw messages
  validate config.Validate on configurations around every boundary
  policy   the configuration x recipient-class x spam-header product through real LMTP
           dialogues; per cell: RCPT replies, DATA replies, which store/folder gained a
           message, which users exist afterwards — against the model AND the documented
           policy (Spec/Policy.v), both evaluated inside Coq on the database view observed
           before the cell.
"""
import glob
import itertools
import json
import os
import re

import common as C

HERE = os.path.dirname(os.path.abspath(__file__))
CORPUS = os.path.join(C.VERIF, "corpus", "C17")

CLASS_NAMES = {}      # no finding class left (quota_not_enforced repaired by fixes/C17-4)

# ---------------------------------------------------------------------------
# population of every world

POP = [
    {"op": "c17_user_create", "name": "alice", "domain": "example.com"},
    {"op": "c17_user_create", "name": "bob", "domain": "example.com"},
    {"op": "c17_user_create", "name": "carol", "domain": "other.org"},
    {"op": "c17_user_create", "name": "dis", "domain": "example.com"},
    {"op": "c17_user_disable", "name": "dis", "domain": "example.com"},
    {"op": "role_create", "email": "support@example.com"},
    {"op": "role_create", "email": "alice@other.org"},
    {"op": "role_create", "email": "old@example.com"},
    {"op": "c17_role_disable", "email": "old@example.com"},
    # twins: a user whose address, read as a SQL LIKE pattern, matches a role address
    {"op": "c17_user_create", "name": "support_team", "domain": "example.com"},
    {"op": "role_create", "email": "support-team@example.com"},
]

# recipient classes: (tag, RCPT argument, intended address or None when the RFC shape does not apply)
def rcpt_classes(fresh):
    return [
        ("existing", "TO:<alice@example.com>", "alice@example.com"),
        ("existing_lc_to", "to:<bob@example.com>", "bob@example.com"),
        ("existing_sp", "TO: <carol@other.org>", "carol@other.org"),
        ("unknown", "TO:<%s@example.com>" % fresh, "%s@example.com" % fresh),
        ("same_local_other_domain", "TO:<bob@other.org>", "bob@other.org"),
        ("role", "TO:<support@example.com>", "support@example.com"),
        ("role_same_local_as_user", "TO:<alice@other.org>", "alice@other.org"),
        ("role_disabled", "TO:<old@example.com>", "old@example.com"),
        ("disabled_user", "TO:<dis@example.com>", "dis@example.com"),
        ("odd_no_at", "TO:<postmaster>", "postmaster"),
        ("odd_two_at", "TO:<a@b@example.com>", "a@b@example.com"),
        ("odd_empty_local", "TO:<@example.com>", "@example.com"),
        ("odd_case", "TO:<Alice@Example.COM>", "Alice@Example.COM"),
        ("odd_space", "TO:<al ice@example.com>", "al ice@example.com"),
        # "_" / "%" twins (SQL LIKE wildcards) and case twins of role addresses and of users: the property says
        # "the store of exactly that address", every lookup on the delivery path is an exact match
        ("like_role_existing_user", "TO:<support_team@example.com>", "support_team@example.com"),
        ("like_role_underscore", "TO:<suppor_@example.com>", "suppor_@example.com"),
        ("like_role_percent", "TO:<%@example.com>", "%@example.com"),
        ("like_role_percent_prefix", "TO:<s%@example.com>", "s%@example.com"),
        ("like_user_underscore", "TO:<al_ce@example.com>", "al_ce@example.com"),
        ("like_user_percent", "TO:<%@other.org>", "%@other.org"),
        ("like_user_domain", "TO:<carol@other_org>", "carol@other_org"),
        ("case_role_local", "TO:<SUPPORT@example.com>", "SUPPORT@example.com"),
        ("case_role_domain", "TO:<support@EXAMPLE.COM>", "support@EXAMPLE.COM"),
        ("case_user_local", "TO:<ALICE@example.com>", "ALICE@example.com"),
        ("case_user_domain", "TO:<alice@EXAMPLE.com>", "alice@EXAMPLE.com"),
        ("odd_bare", "TO:alice@example.com", None),
        ("odd_double_bracket", "TO:<<alice@example.com>>", None),
        ("odd_not_to", "FOR:<alice@example.com>", None),
        ("rcpt_params", "TO:<alice@example.com> NOTIFY=NEVER", "alice@example.com"),
        ("rcpt_prefix_case", "To:<alice@example.com>", "alice@example.com"),
    ]

# recipient classes whose RCPT line the implementation is KNOWN to mis-parse (none since the fixes C17-1/C17-2:
# the lines tagged rcpt_params / rcpt_prefix_case are ordinary cells now and must satisfy the policy)
SHAPE_CLASS = {}

# spam header variants: list of (name, lead, segments, trail); logical value computed by logical()
SPAM_VARIANTS = [
    ("none", []),
    ("act_reject", [("X-Rspamd-Action", " ", ["reject"], "")]),
    ("act_rewrite", [("X-Rspamd-Action", " ", ["rewrite subject"], "")]),
    ("act_add", [("X-Rspamd-Action", " ", ["add header"], "")]),
    ("act_noaction", [("X-Rspamd-Action", " ", ["no action"], "")]),
    ("act_greylist", [("X-Rspamd-Action", " ", ["greylist"], "")]),
    ("act_upper_ws", [("X-RSPAMD-ACTION", "   ", ["REJECT"], "  ")]),
    ("act_folded", [("X-Rspamd-Action", " ", ["add", "header"], "")]),
    ("act_lower_name", [("x-rspamd-action", "", ["Add Header"], "")]),
    ("act_prefix_only", [("X-Rspamd-Action", " ", ["rejected"], "")]),
    ("st_yes", [("X-Spam-Status", " ", ["Yes, score=9.1"], "")]),
    ("st_YES", [("x-spam-status", " ", ["YES"], "")]),
    ("st_no", [("X-Spam-Status", " ", ["No, score=0.1"], "")]),
    ("st_folded", [("X-Spam-Status", " ", ["", "yes, folded"], "")]),
    ("st_no_yes", [("X-Spam-Status", " ", ["no, yes"], "")]),
    ("st_space_name", [("X-Spam-Status ", " ", ["Yes"], "")]),
    ("both", [("X-Rspamd-Action", " ", ["no action"], ""), ("X-Spam-Status", " ", ["Yes"], "")]),
    ("dup_first_ham", [("X-Rspamd-Action", " ", ["no action"], ""), ("X-Rspamd-Action", " ", ["reject"], "")]),
    ("dup_first_spam", [("X-Rspamd-Action", " ", ["reject"], ""), ("x-rspamd-action", " ", ["no action"], "")]),
]


def logical(segs):
    """net/textproto's unfolding: segments trimmed of blanks/tabs, joined by one blank; leading blanks dropped"""
    return " ".join(s.strip(" \t") for s in segs).lstrip(" \t")


def build_message(spam, body="hello\r\n", wellformed=True):
    hs = []
    raw = ""
    base = [("From", " ", ["s@sender.net"], ""), ("To", " ", ["r@rcpt.net"], ""), ("Subject", " ", ["t"], "")]
    if not wellformed:
        base = base[1:]
    for (name, lead, segs, trail) in base[:2] + list(spam) + base[2:]:
        raw += name + ":" + lead + segs[0] + trail + "\r\n"
        for s in segs[1:]:
            raw += " " + s + "\r\n"
        hs.append((name, logical(segs)))
    raw += "\r\n" + body
    return raw, hs


def stuffed(raw):
    """what the client sends for a message (dot-stuffing), without the final dot line"""
    return "".join(("." + l if l.startswith(".") else l) for l in raw.splitlines(True))


# ---------------------------------------------------------------------------
# cells

def cfg_product():
    out = []
    for df in ("INBOX", "Archive", "Spam"):
        for ad in ([], ["example.com", "other.org"], ["elsewhere.net"]):
            for ru in (False, True):
                for mr in (1, 2, 100):
                    for ms in ("under", "exact", "big"):
                        for q in ("off", "on_under", "on_over", "on_exact", "on_exact_minus1"):
                            out.append({"default_folder": df, "allowed_domains": ad, "reject_unknown_user": ru,
                                        "max_recipients": mr, "ms": ms, "q": q})
    return out


def concretise(c, raw):
    """size / quota symbols -> numbers for this message"""
    n = len(raw)
    cfg = {"default_folder": c["default_folder"], "allowed_domains": c["allowed_domains"],
           "reject_unknown_user": c["reject_unknown_user"], "max_recipients": c["max_recipients"]}
    cfg["max_size"] = {"under": n - 1, "exact": n, "big": n + 5000}[c["ms"]]
    q = c["q"]
    cfg["quota_enabled"] = q != "off"
    # usage of a fresh store is 0: on_exact is the last accepted size for a new user,
    # on_exact_minus1 the first refused one; for older stores these are simply small limits
    cfg["quota_limit"] = {"off": 1 << 30, "on_under": 1 << 30, "on_over": 10, "on_exact": n, "on_exact_minus1": n - 1}[q]
    return cfg


def make_cells(chk):
    rng = chk.rng
    cfgs = cfg_product()
    cells = []
    fresh_counter = itertools.count()

    def fresh():
        return "u%d" % next(fresh_counter)

    ncls = len(rcpt_classes("x"))
    if chk.tier == "quick":
        picked = rng.sample(cfgs, 75)
    else:
        picked = cfgs
    k = rng.randrange(1000)
    passes = 1 if chk.tier == "quick" else 2      # thorough: the product twice, other spam/body rotation
    for ci, c in enumerate(picked * passes):
        if ci == len(picked):
            k += 7
        for ri in range(ncls):
            if chk.tier == "quick" and rng.random() > 0.62:
                continue
            k += 1
            tag, args, intended = rcpt_classes(fresh())[ri]
            sv = SPAM_VARIANTS[k % len(SPAM_VARIANTS)]
            body = "hello\r\n" if k % 7 else "hello\r\n.dot line\r\n..two\r\n"
            raw, hs = build_message(sv[1], body=body, wellformed=(k % 23 != 0))
            cells.append({"cfg": concretise(c, raw), "cfgsym": c, "lines": [(tag, args, intended)], "raw": raw, "hs": hs,
                          "spam": sv[0]})
    # spam variants x folder x recipient kind, permissive configuration
    for sv in SPAM_VARIANTS:
        for df in ("INBOX", "Archive", "Spam"):
            for ri in (0, 3, 5):
                tag, args, intended = rcpt_classes(fresh())[ri]
                raw, hs = build_message(sv[1])
                c = {"default_folder": df, "allowed_domains": [], "reject_unknown_user": False, "max_recipients": 100,
                     "ms": "big", "q": "off"}
                cells.append({"cfg": concretise(c, raw), "cfgsym": c, "lines": [(tag, args, intended)], "raw": raw,
                              "hs": hs, "spam": sv[0]})
    # several recipients per transaction (limit, duplicates, mixtures)
    nmulti = 100 if chk.tier == "quick" else 1500
    for _ in range(nmulti):
        c = rng.choice(cfgs)
        cls = rcpt_classes(fresh())
        lines = [rng.choice(cls) for _ in range(rng.randint(2, 4))]
        if rng.random() < 0.3:
            lines.append(lines[0])
        if rng.random() < 0.3:
            f = fresh()
            lines += [("unknown", "TO:<%s@example.com>" % f, "%s@example.com" % f)] * 2
        sv = rng.choice(SPAM_VARIANTS)
        raw, hs = build_message(sv[1])
        cells.append({"cfg": concretise(c, raw), "cfgsym": c, "lines": lines, "raw": raw, "hs": hs, "spam": sv[0]})
    rng.shuffle(cells)
    return cells


# ---------------------------------------------------------------------------
# quota in multi-recipient transactions: over-quota and within-quota recipients in every order

def make_quota_mix(chk):
    """-> groups of cells that stay together in one world. A group first fills three mailboxes (a user, a role
    mailbox, a user of another domain) with quota off, then runs transactions of 2-4 recipients with
    quota_enabled and quota_limit = size + 20: every mailbox that already holds a message is over quota, a
    mailbox that does not exist yet has room. Every O/W order: over first / middle / last, two over, all over,
    none over, and the same address twice. Judged per position by the model and the spec (reply k is for
    recipient k, positive iff recipient k has room; exactly those stores gain the message)."""
    rng = chk.rng
    nfresh = itertools.count()
    full = [("existing", "TO:<alice@example.com>", "alice@example.com"), ("role", "TO:<support@example.com>", "support@example.com"),
            ("existing_sp", "TO: <carol@other.org>", "carol@other.org")]

    def room():
        f = "w%d" % next(nfresh)
        return ("unknown", "TO:<%s@example.com>" % f, "%s@example.com" % f)

    pats = ["".join(p) for n in (2, 3, 4) for p in itertools.product("OW", repeat=n)]
    if chk.tier == "quick":
        pats = [p for p in pats if len(p) < 4] + ["OWWW", "WOWO", "WWOW", "OOWW", "WOOW", "OWOW"]
    groups = []
    ngroups = 2 if chk.tier == "quick" else 6
    for gi in range(ngroups):
        df = ["INBOX", "Archive", "Spam"][gi % 3]
        base = {"default_folder": df, "allowed_domains": [], "reject_unknown_user": False, "max_recipients": 100}
        cells = []
        for f in full:      # fill the three mailboxes (quota off)
            raw, hs = build_message([])
            cfg = dict(base, max_size=len(raw) + 5000, quota_enabled=False, quota_limit=1 << 30)
            cells.append({"cfg": cfg, "lines": [f], "raw": raw, "hs": hs, "spam": "none",
                          "cfgsym": {"quota_mix": "fill", "df": df, "g": gi, "to": f[2]}})
        plist = list(pats)
        rng.shuffle(plist)
        extra = ["dup_over", "dup_room", "dup_over_then_room", "limit3"]
        for pat in plist + extra:
            if pat == "dup_over":
                o = rng.choice(full)
                lines = [o, room(), o]
            elif pat == "dup_room":
                w = room()
                lines = [rng.choice(full), w, w]
            elif pat == "dup_over_then_room":
                o = rng.choice(full)
                lines = [o, o, room(), room()]
            elif pat == "limit3":
                lines = [rng.choice(full), room(), room(), room(), rng.choice(full)]
            else:
                lines = [rng.choice(full) if ch == "O" else room() for ch in pat]
            sv = rng.choice(SPAM_VARIANTS)
            raw, hs = build_message(sv[1])
            cfg = dict(base, max_size=len(raw) + 5000, quota_enabled=True, quota_limit=len(raw) + 20,
                       max_recipients=3 if pat == "limit3" else 100)
            cells.append({"cfg": cfg, "lines": lines, "raw": raw, "hs": hs, "spam": sv[0], "quota_mix": pat,
                          "replay_with": cells[:len(full)], "cfgsym": {"quota_mix": pat, "df": df, "g": gi}})
        groups.append(cells)
    return groups


# ---------------------------------------------------------------------------
# multi-transaction sessions (one connection, no RSET between the transactions)

SESSION_KINDS = ["ok", "oversize", "unparsable", "norcpt", "limit", "unknown"]
SESSION_MAX_SIZE = 3000


def make_sessions(chk):
    """-> list of sessions; a session = list of cells (transactions) sharing a connection and a configuration.
    First transaction: accepted, or refused in each possible way (over size -> 552 per recipient, unparsable ->
    554 per recipient, no accepted recipient -> DATA 503, recipient limit reached, unknown user under
    reject_unknown_user); then, WITHOUT RSET, a second transaction to different recipients, and a third."""
    rng = chk.rng
    nfresh = itertools.count()

    def fresh():
        return "v%d" % next(nfresh)

    pools = [
        [("existing", "TO:<alice@example.com>", "alice@example.com"), ("role", "TO:<support@example.com>", "support@example.com")],
        [("existing_lc_to", "to:<bob@example.com>", "bob@example.com"), ("existing_sp", "TO: <carol@other.org>", "carol@other.org")],
        [("role_same_local_as_user", "TO:<alice@other.org>", "alice@other.org"),
         ("like_role_existing_user", "TO:<support_team@example.com>", "support_team@example.com")],
    ]

    def block(kind, bi, cfg):
        pool = list(pools[bi % 3])
        f = fresh()
        newu = ("unknown", "TO:<%s@example.com>" % f, "%s@example.com" % f)
        spam = rng.choice(SPAM_VARIANTS)
        body, well = "hello %d\r\n" % bi, True
        if kind == "ok":
            lines = rng.sample(pool, rng.randint(1, 2)) + ([newu] if rng.random() < 0.5 else [])
        elif kind == "oversize":
            lines = rng.sample(pool, rng.randint(1, 2))
            body = ("x" * 70 + "\r\n") * 50
        elif kind == "unparsable":
            lines = rng.sample(pool, rng.randint(1, 2))
            well = False
        elif kind == "norcpt":
            lines = [("not_listed", "TO:<%s@elsewhere.net>" % f, "%s@elsewhere.net" % f),
                     ("odd_no_at", "TO:<postmaster>", "postmaster")][:rng.randint(1, 2)]
        elif kind == "limit":
            lines = pool + [newu, pool[0]]
        else:   # unknown
            lines = [newu, pool[0], ("unknown", "TO:<%sx@other.org>" % f, "%sx@other.org" % f)]
        raw, hs = build_message(spam[1], body=body, wellformed=well)
        return {"cfg": cfg, "lines": lines, "raw": raw, "hs": hs, "spam": spam[0], "kind": kind}

    pairs = [(a, b) for a in SESSION_KINDS for b in SESSION_KINDS]
    if chk.tier != "quick":
        pairs = pairs * 8
    sessions = []
    for si, (k1, k2) in enumerate(pairs):
        cfg = {"default_folder": rng.choice(["INBOX", "Archive", "Spam"]), "allowed_domains": ["example.com", "other.org"],
               "reject_unknown_user": (k1 == "unknown" or k2 == "unknown" or rng.random() < 0.3),
               "max_recipients": 2 if "limit" in (k1, k2) else rng.choice([2, 3, 100]), "max_size": SESSION_MAX_SIZE,
               "quota_enabled": rng.random() < 0.15, "quota_limit": rng.choice([10, 1 << 30])}
        kinds = [k1, k2, "ok"] if rng.random() < 0.7 else [k1, k2]
        cells = [block(k, bi, cfg) for bi, k in enumerate(kinds)]
        for bi, c in enumerate(cells):
            c["conn"] = "s%d" % si
            c["sess"] = "first" if bi == 0 else ("last" if bi == len(cells) - 1 else "mid")
            c["cfgsym"] = {"session": kinds, "pos": bi, "ru": cfg["reject_unknown_user"], "mr": cfg["max_recipients"],
                           "df": cfg["default_folder"], "q": cfg["quota_enabled"]}
        for c in cells:
            c["session_all"] = cells
        sessions.append(cells)
    return sessions


def eval_sessions(groups):
    """groups: list of lists of pcase terms -> positions of sessions the session model does not reproduce"""
    if not groups:
        return [], ""
    body = C.COQ_CASE_HEADER + COQ_POLICY_DEFS
    body += "Definition sessions : list (list pcase) := [\n%s].\n" % ";\n".join(C.coq_list(g) for g in groups)
    body += "Definition sess_bad := Eval vm_compute in positions 0 (map session_ok sessions).\nPrint sess_bad.\n"
    bad = []
    CH = 150
    for off in range(0, len(groups), CH):
        chunk = groups[off:off + CH]
        b = C.COQ_CASE_HEADER + COQ_POLICY_DEFS
        b += "Definition sessions : list (list pcase) := [\n%s].\n" % ";\n".join(C.coq_list(g) for g in chunk)
        b += "Definition sess_bad := Eval vm_compute in positions 0 (map session_ok sessions).\nPrint sess_bad.\n"
        rc, log = C.coq_eval_cases("C17_sessions_%d" % (off // CH), b)
        if rc != 0:
            return None, log
        sbad = parse_nat_list(log, "sess_bad")
        if sbad is None:
            return None, log
        bad += [off + i for i in sbad]
    return bad, ""


# generous: they only matter when something hangs (a loaded machine must not look like a defect)
T_STEP = 30000
T_EOF = 45000


def world_timed_out(res):
    return any(isinstance(o, dict) and o.get("how") in ("timeout", "write-error") for o in res.get("obs", []))


NOP = {"op": "sleep", "ms": 0}


def cell_ops(i, cell):
    """ops of one transaction; always the layout [open, LHLO, MAIL, RCPT*, DATA, body, close, view].
    A cell of a multi-transaction session (cell["sess"] = first|mid|last) shares cell["conn"] with its
    neighbours: only the first opens, only the last QUITs; in between the replies to the message are
    delimited by the answer to a trailing NOOP ("250 OK"). No RSET between the transactions."""
    sess = cell.get("sess")
    conn = cell.get("conn") or "l%d" % i
    if sess in (None, "first"):
        ops = [dict(op="lmtp_open", conn=conn, **cell["cfg"]),
               dict(op="send", conn=conn, data="LHLO client.test\r\n", until="lmtp:1", timeout_ms=T_STEP)]
    else:
        ops = [dict(NOP), dict(NOP)]
    ops.append(dict(op="send", conn=conn, data="MAIL FROM:<s@sender.net>\r\n", until="lmtp:1", timeout_ms=T_STEP))
    for (_, args, _) in cell["lines"]:
        ops.append(dict(op="send", conn=conn, data=C.latin("RCPT " + args + "\r\n"), until="lmtp:1", timeout_ms=T_STEP))
    ops.append(dict(op="send", conn=conn, data="DATA\r\n", until="lmtp:1", timeout_ms=T_STEP))
    if sess in (None, "last"):
        ops.append(dict(op="send", conn=conn, data=C.latin(stuffed(cell["raw"]) + ".\r\nQUIT\r\n"), until="eof", timeout_ms=T_EOF))
        ops.append(dict(op="close", conn=conn))
    else:
        ops.append(dict(op="c17_send_marker", conn=conn, data=C.latin(stuffed(cell["raw"]) + ".\r\nNOOP\r\n"), marker="250 OK", timeout_ms=T_EOF))
        ops.append(dict(NOP))
    ops.append(dict(op="c17_view"))
    return ops


def code(line):
    try:
        return int(line[:3])
    except Exception:
        return 0


def store_names(view):
    m = {}
    for (n, d, en, key) in view.get("users") or []:
        m[key] = ("U", n, d)
    for (e, en, key) in view.get("roles") or []:
        m[key] = ("R", e)
    return m


def folder_counts(view):
    names = store_names(view)
    out = {}
    for key, st in (view.get("stores") or {}).items():
        ident = names.get(key, ("?", key))
        for (f, cnt) in st.get("folders") or []:
            out[(ident, f)] = out.get((ident, f), 0) + int(cnt)
    return out


def observe(cell, obs, before, after):
    """-> dict(rcpt=[bool], flags=[bool per line: finally accepted], gains=[(store, folder)], users=[...], note)"""
    nl = len(cell["lines"])
    mail_ok = code(obs[2].get("recv", "")) == 250
    rc = [code(o.get("recv", "")) for o in obs[3:3 + nl]]
    rcpt_ok = [c == 250 for c in rc]
    data1 = obs[3 + nl].get("recv", "")
    rest = obs[4 + nl].get("recv", "")
    if cell.get("sess") in ("first", "mid") and rest.endswith("250 OK\r\n"):
        rest = rest[:-len("250 OK\r\n")]          # the answer to the delimiting NOOP
    replies = []
    if code(data1) == 354:
        for l in rest.split("\r\n"):
            c = code(l)
            if c in (250, 550, 554, 451, 452, 552):
                replies.append(c)
    nacc = sum(rcpt_ok)
    if len(replies) == nacc:
        per = [c == 250 for c in replies]
    else:
        per = [False] * nacc if not any(c == 250 for c in replies) else None
    flags = []
    j = 0
    for ok in rcpt_ok:
        if not ok:
            flags.append(False)
        else:
            flags.append(bool(per[j]) if per is not None and j < len(per) else False)
            j += 1
    b, a = folder_counts(before), folder_counts(after)
    gains = []
    for k2, v in sorted(a.items(), key=str):
        dlt = v - b.get(k2, 0)
        for _ in range(max(dlt, 0)):
            gains.append(k2)
    lost = [k2 for k2, v in b.items() if a.get(k2, 0) < v]
    return {"mail_ok": mail_ok, "rcpt": rcpt_ok, "rcpt_codes": rc, "flags": flags, "gains": gains, "lost": lost,
            "odd_replies": per is None, "users": after.get("users") or [], "data_first": code(data1), "replies": replies}


# ---------------------------------------------------------------------------
# Coq terms

def coq_store(ident):
    if ident[0] == "U":
        return "(UserStore %s %s)" % (C.coq_str(C.unlatin(ident[1])), C.coq_str(C.unlatin(ident[2])))
    if ident[0] == "R":
        return "(RoleStore %s)" % C.coq_str(C.unlatin(ident[1]))
    return "(RoleStore %s)" % C.coq_str("?unknown-store " + str(ident[1]))


def coq_db(view):
    users = ["(mkUser %s %s %s)" % (C.coq_str(C.unlatin(n)), C.coq_str(C.unlatin(d)), C.coq_bool(bool(en)))
             for (n, d, en, _) in view.get("users") or []]
    roles = ["(mkRole %s %s)" % (C.coq_str(C.unlatin(e)), C.coq_bool(bool(en))) for (e, en, _) in view.get("roles") or []]
    names = store_names(view)
    msgs = []
    for key, st in sorted((view.get("stores") or {}).items()):
        u = int(st.get("usage") or 0)
        if u > 0 and key in names:
            msgs.append("(mkFiled %s (S_ \"*\") %s)" % (coq_store(names[key]), C.coq_z(u)))
    return "(mkDb %s %s %s)" % (C.coq_list(users), C.coq_list(roles), C.coq_list(msgs))


def coq_cfg(cfg):
    return "(mkConfig %s %s %s %s %s %s %s)" % (
        C.coq_str(cfg["default_folder"]), C.coq_bool(cfg["quota_enabled"]), C.coq_z(cfg["quota_limit"]),
        C.coq_list([C.coq_str(x) for x in cfg["allowed_domains"]]), C.coq_bool(cfg["reject_unknown_user"]),
        C.coq_z(cfg["max_size"]), C.coq_z(cfg["max_recipients"]))


def coq_msg(cell):
    raw, hs = cell["raw"], cell["hs"]
    ok = any(n.lower() == "from" for n, _ in hs)
    return "(mkMsg %s %s %s)" % (C.coq_z(len(raw)),
                                 C.coq_list(["(%s, %s)" % (C.coq_str(n), C.coq_str(v)) for n, v in hs]), C.coq_bool(ok))


COQ_POLICY_DEFS = r"""
From Raven Require Import Base.Enum Model.Policy Spec.Policy.
Local Open Scope Z_scope.
Record pcase := mkCase { c_cfg : config; c_db : db; c_lines : list str; c_intended : option (list str);
  c_msg : message; o_rcpt : list bool; o_flags : list bool; o_gains : list (store * str); o_users : list user; o_nreplies : nat; o_mail : bool }.
Definition gain_eqb (a b : store * str) := store_eqb (fst a) (fst b) && str_eqb (snd a) (snd b).
Definition count_g (g : store * str) (l : list (store * str)) := length (filter (gain_eqb g) l).
Definition same_gains (a b : list (store * str)) :=
  Nat.eqb (length a) (length b) && forallb (fun g => Nat.eqb (count_g g a) (count_g g b)) a.
Definition user_eqb (a b : user) := str_eqb (u_name a) (u_name b) && str_eqb (u_domain a) (u_domain b) && Bool.eqb (u_enabled a) (u_enabled b).
Fixpoint list_eqb {A} (e : A -> A -> bool) (a b : list A) := match a, b with [] , [] => true | x :: a', y :: b' => e x y && list_eqb e a' b' | _, _ => false end.
Definition flags_of (os : list moutcome) := map (fun o => match o with MFiled _ _ => true | _ => false end) os.
Definition gains_of (os : list moutcome) := flat_map (fun o => match o with MFiled s f => [(s, f)] | _ => [] end) os.
Definition consistent (os : list moutcome) := forallb (fun o => match o with MInconsistent => false | _ => true end) os.
Definition model_ok (c : pcase) : bool :=
  let t := run_txn (c_cfg c) (c_db c) (c_lines c) (c_msg c) in
  let os := txn_outcomes t in
  list_eqb Bool.eqb (map rcpt_ok (to_rcpt t)) (o_rcpt c) && consistent os &&
  list_eqb Bool.eqb (flags_of os) (o_flags c) && same_gains (gains_of os) (o_gains c) &&
  list_eqb user_eqb (users (do_db (to_data t))) (o_users c) &&
  Nat.eqb (reply_count (do_reply (to_data t))) (o_nreplies c).
Definition spec_ok_on (c : pcase) (addrs : list str) : bool :=
  let os := map erase (fst (spec_txn (c_cfg c) (c_db c) addrs (c_msg c))) in
  list_eqb Bool.eqb (flags_of os) (o_flags c) && same_gains (gains_of os) (o_gains c).
Definition class_on (c : pcase) (addrs : list str) : nat :=
  0%nat.      (* Spec.classify is gone: no finding class left *)
(* the addresses as the MODEL parses the lines (None when a line is refused with 501) *)
Fixpoint all_some (l : list (option str)) : option (list str) :=
  match l with [] => Some [] | Some x :: l' => option_map (cons x) (all_some l') | None :: _ => None end.
Definition parsed_addrs (c : pcase) := all_some (map parse_rcpt_to (c_lines c)).
Definition spec_ok (c : pcase) : bool :=
  match c_intended c with None => true | Some addrs => spec_ok_on c addrs end.
Definition class_of (c : pcase) : nat :=
  match c_intended c with None => 0%nat | Some addrs => class_on c addrs end.
(* 0 = spec on the parsed addresses holds, 1..3 = it fails inside that class, 9 = fails unclassified, 8 = not available *)
Definition parsed_verdict (c : pcase) : nat :=
  match parsed_addrs c with
  | None => 8%nat
  | Some addrs => if spec_ok_on c addrs then 0%nat else match class_on c addrs with O => 9%nat | k => k end
  end.
(* a session: its transactions in order, all on one connection, model run from the reset state with the
   database threaded by the model itself *)
Fixpoint all2 {A B} (f : A -> B -> bool) (a : list A) (b : list B) : bool :=
  match a, b with [], [] => true | x :: a', y :: b' => f x y && all2 f a' b' | _, _ => false end.
Inductive oreply := OM (b : bool) | OR (b : bool) | OD (n : nat).
Definition observed_of (c : pcase) : list oreply := OM (o_mail c) :: map OR (o_rcpt c) ++ [OD (o_nreplies c)].
Definition reply_matches (r : sreply) (o : oreply) : bool :=
  match r, o with
  | SR_mail a, OM b => Bool.eqb a b
  | SR_rcpt r, OR b => Bool.eqb (rcpt_ok r) b
  | SR_data d, OD n => Nat.eqb (reply_count (do_reply d)) n
  | _, _ => false
  end.
Definition session_ok (cs : list pcase) : bool :=
  match cs with
  | [] => true
  | c0 :: _ =>
      let cmds := flat_map (fun c => block_cmds (c_lines c, c_msg c)) cs in
      let '(rs, (s, d)) := run_session (c_cfg c0) (s_reset, c_db c0) cmds in
      all2 reply_matches rs (flat_map observed_of cs)
  end.
Fixpoint positions (i : nat) (l : list bool) : list nat :=
  match l with [] => [] | b :: l' => if b then positions (S i) l' else i :: positions (S i) l' end.
"""


def coq_case(cell, before, ob):
    lines = C.coq_list([C.coq_str(C.unlatin(a)) for (_, a, _) in cell["lines"]])
    if all(x is not None for (_, _, x) in cell["lines"]):
        intended = "(Some %s)" % C.coq_list([C.coq_str(C.unlatin(x)) for (_, _, x) in cell["lines"]])
    else:
        intended = "None"
    gains = C.coq_list(["(%s, %s)" % (coq_store(g[0]), C.coq_str(C.unlatin(g[1]))) for g in ob["gains"]])
    users = C.coq_list(["(mkUser %s %s %s)" % (C.coq_str(C.unlatin(n)), C.coq_str(C.unlatin(d)), C.coq_bool(bool(en)))
                        for (n, d, en, _) in ob["users"]])
    return "(mkCase %s %s %s %s %s %s %s %s %s %d %s)" % (
        coq_cfg(cell["cfg"]), coq_db(before), lines, intended, coq_msg(cell),
        C.coq_list([C.coq_bool(x) for x in ob["rcpt"]]), C.coq_list([C.coq_bool(x) for x in ob["flags"]]), gains, users,
        len(ob["replies"]), C.coq_bool(ob["mail_ok"]))


def parse_nat_list(log, name):
    txt = C.parse_coq_list_out(log, name)
    if txt is None:
        return None
    txt = txt.strip()
    if txt == "[]":
        return []
    return [int(x) for x in txt.strip("[]").replace("%nat", "").split(";") if x.strip()]


def eval_policy_cases(tag, cases):
    """cases: list of Coq pcase terms -> (model_bad, spec_bad, classes) or None"""
    from concurrent.futures import ThreadPoolExecutor
    CH = 400
    offs = list(range(0, len(cases), CH))

    def one(off):
        chunk = cases[off:off + CH]
        body = C.COQ_CASE_HEADER + COQ_POLICY_DEFS
        body += "Definition cases : list pcase := [\n%s].\n" % ";\n".join(chunk)
        body += "Definition model_bad := Eval vm_compute in positions 0 (map model_ok cases).\nPrint model_bad.\n"
        body += "Definition spec_bad := Eval vm_compute in positions 0 (map spec_ok cases).\nPrint spec_bad.\n"
        body += "Definition classes := Eval vm_compute in map class_of cases.\nPrint classes.\n"
        body += "Definition pverdicts := Eval vm_compute in map parsed_verdict cases.\nPrint pverdicts.\n"
        rc, log = C.coq_eval_cases("C17_%s_%d" % (tag, off // CH), body)
        if rc != 0:
            return None, log
        mb, sb, cl = parse_nat_list(log, "model_bad"), parse_nat_list(log, "spec_bad"), parse_nat_list(log, "classes")
        pv = parse_nat_list(log, "pverdicts")
        if mb is None or sb is None or cl is None or pv is None or len(cl) != len(chunk) or len(pv) != len(chunk):
            return None, log
        return (mb, sb, cl, pv), ""

    with ThreadPoolExecutor(max_workers=6) as ex:
        outs = list(ex.map(one, offs))
    model_bad, spec_bad, classes, pverdicts = [], [], [], []
    for off, (r, log) in zip(offs, outs):
        if r is None:
            return None, log
        mb, sb, cl, pv = r
        model_bad += [off + i for i in mb]
        spec_bad += [off + i for i in sb]
        classes += cl
        pverdicts += pv
    return (model_bad, spec_bad, classes, pverdicts), ""


# ---------------------------------------------------------------------------
# suites

def run_policy(chk, cells, corpus_cells, sessions=()):
    """corpus_cells: list of (class, cell); they run first, one world each. sessions: lists of cells that share
    a connection; they stay together, 12 sessions per world."""
    per_world = 40 if chk.tier == "quick" else 60
    worlds = [[c] for (_, c) in corpus_cells]
    for i in range(0, len(cells), per_world):
        worlds.append(cells[i:i + per_world])
    for i in range(0, len(sessions), 12):
        worlds.append([c for sess in sessions[i:i + 12] for c in sess])
    scen = []
    for w in worlds:
        ops = list(POP) + [dict(op="c17_view")]
        for i, cell in enumerate(w):
            ops += cell_ops(i, cell)
        scen.append(ops)
    results = C.run_many(scen, workers=12, timeout=1500)
    # a crashed or stalled world is re-run once, alone, before it counts
    for wi, res in enumerate(results):
        if res.get("crashed") or world_timed_out(res):
            results[wi] = C.run_ops(scen[wi], timeout=1500)
            chk.notes.append("policy world %d was re-run (first attempt %s)" % (wi, "crashed" if res.get("crashed") else "timed out"))
    flat = []   # (cell, before, ob, corpus_class)
    for wi, (w, res) in enumerate(zip(worlds, results)):
        if res.get("crashed"):
            chk.broken_obligation("driver crashed in a C17 policy world: %s" % res.get("stderr", "")[:400], {"suite": "policy", "world": wi})
            continue
        obs = res["obs"]
        if world_timed_out(res):
            chk.broken_obligation("a C17 policy world stalled twice (an LMTP reply did not arrive within %d ms)" % T_STEP,
                                  {"suite": "policy", "world": wi, "ops": scen[wi][:400]})
            continue
        pos = len(POP)
        before = obs[pos]
        pos += 1
        for cell in w:
            n = len(cell_ops(0, cell))
            o = obs[pos:pos + n]
            pos += n
            after = o[-1]
            ob = observe(cell, o, before, after)
            flat.append((cell, before, ob, corpus_cells[wi][0] if wi < len(corpus_cells) else None))
            before = after
    terms = [coq_case(cell, before, ob) for (cell, before, ob, _) in flat]
    r, log = eval_policy_cases("policy", terms)
    if r is None:
        chk.broken_obligation("in-Coq evaluation of the C17 policy cases failed:\n" + log[-2500:], {"suite": "policy"})
        return flat, None
    # sessions: the same cases grouped by connection, run through the session model
    groups, cur = [], None
    for idx, (cell, before, ob, _) in enumerate(flat):
        if cell.get("sess") == "first":
            cur = [idx]
            groups.append(cur)
        elif cell.get("sess") in ("mid", "last") and cur is not None:
            cur.append(idx)
        else:
            cur = None
    sbad, log = eval_sessions([[terms[i] for i in g] for g in groups])
    if sbad is None:
        chk.broken_obligation("in-Coq evaluation of the C17 sessions failed:\n" + log[-2500:], {"suite": "sessions"})
        return flat, None
    return flat, r + (groups, sbad)


def plain_cell(c):
    return {k: c[k] for k in ("cfg", "lines", "raw", "hs", "sess", "conn", "kind") if k in c}


def payload_of(cell, before, ob):
    p = {"suite": "policy", "population": "default", "db_before": {"users": before.get("users"), "roles": before.get("roles"),
         "usage": {k: v.get("usage") for k, v in (before.get("stores") or {}).items()}},
         "cell": plain_cell(cell),
         "observed": {"mail_ok": ob["mail_ok"], "rcpt_codes": ob["rcpt_codes"], "data_first": ob["data_first"], "replies": ob["replies"],
                      "accepted": ob["flags"], "gains": [list(map(str, g)) for g in ob["gains"]]},
         "replay": "bin/check C17 replay <this file>"}
    if cell.get("replay_with"):
        # the transactions that filled the mailboxes come first in the replay
        p["session"] = [plain_cell(c) for c in cell["replay_with"]] + [plain_cell(cell)]
    if cell.get("session_all"):
        # the transaction is part of a session: the whole session (same connection, no RSET) is the replay
        p["session"] = [plain_cell(c) for c in cell["session_all"]]
        p["position_in_session"] = cell["session_all"].index(cell)
    return p


def load_corpus():
    out = []
    for f in sorted(glob.glob(os.path.join(CORPUS, "*.json"))):
        d = json.load(open(f))
        cell = d["cell"]
        cell["lines"] = [tuple(x) for x in cell["lines"]]
        cell["hs"] = [tuple(x) for x in cell["hs"]]
        cell.setdefault("spam", "corpus")
        out.append((d.get("class"), cell))
    return out


def gen_parse_cases(chk, n):
    rng = chk.rng
    addrs = ["a@b", "alice@example.com", "", "postmaster", "a@b@c", "@", "x y@z", "<a@b>", "a@b>", "to:x@y", "TO:x@y",
             "a@b> NOTIFY=NEVER", ">", "<", "a\t@b", "A@B.ORG"]
    pres = ["TO:", "to:", "To:", "tO:", "TO", "FROM:", "", " TO:", "TO:to:", "to:TO:", "TO :", "T0:"]
    sps = ["", " ", "  ", "\t", " \t "]
    out = []
    for _ in range(n):
        a = rng.choice(addrs)
        if rng.random() < 0.3:
            a = "".join(rng.choice("ab@<>: .tToO") for _ in range(rng.randint(0, 7)))
        form = rng.choice(["<%s>", "<%s>", "<%s>", "%s", "<%s", "%s>", "<<%s>>", "<%s> SIZE=1", "<%s> ", " <%s>", "<%s>>"])
        out.append(rng.choice(pres) + rng.choice(sps) + (form % a) + rng.choice(["", "", " ", "\t"]))
    out += ["", " ", "TO:", "to:", "TO:<>", "TO:<", "TO:>", "TO: ", "TO:< >"]
    nonascii = ["TO:<\xe9@b>", "\xa0TO:<a@b>", "TO:<a@b>\xa0", "TO:\xc2\xa0<a@b>", "ıo:<a@b>".encode("utf-8").decode("latin-1")]
    return out, nonascii


RCPT_SHAPE = re.compile(r"^(to:)[\t\n\x0b\x0c\r ]*<([^>]*)>( .*)?$", re.I | re.S)


def report_parse_diff(chk, args, impl):
    """parseRcptTo differs from the model on args. The documented reading (Spec.rcpt_shape) fixes the path
    only for TO:<path>[ SP params]; elsewhere the spec is silent."""
    got = None if (not isinstance(impl, dict) or impl.get("err")) else impl.get("r")
    m = RCPT_SHAPE.match(args)
    payload = {"suite": "parse_diff", "input": args, "impl": impl}
    if m is None:
        chk.broken_obligation("correspondence parse no longer checks: parseRcptTo(%r) = %r differs from the model (no RFC shape: the spec is silent)" % (args, got), payload)
        return
    cls = None      # no listed parse class any more (C17-1, C17-2 fixed)
    if got == m.group(2):
        if cls is not None:
            chk.notes.append("parseRcptTo(%r) now returns the path %r (differs from the model inside finding class %s; informational)" % (args, got, cls))
        else:
            chk.broken_obligation("correspondence parse no longer checks: parseRcptTo(%r) = %r differs from the model although the path is right" % (args, got), payload)
        return
    chk.violation("parseRcptTo(%r) = %r, the path of this RCPT argument is %r" % (args, got, m.group(2)), payload, cls=cls)


def run_direct(chk):
    """parse / split / spam / validate suites by direct calls; returns number of evaluations"""
    rng = chk.rng
    big = chk.tier != "quick"
    pcs, nonascii = gen_parse_cases(chk, 4000 if big else 900)
    emails = ["a@b", "", "@", "a@", "@b", "a@b@c", "ab", "a@@b", "alice@example.com", "x y@z", "\xe9@\xe8"] + \
             ["".join(rng.choice("ab@.") for _ in range(rng.randint(0, 6))) for _ in range(300)]
    # spam maps
    vals = ["reject", "Reject", " REJECT ", "rewrite subject", "Rewrite  subject", "add header", "ADD HEADER\t", "no action",
            "greylist", "soft reject", "", " ", "rejected", "reject ", "yes", "Yes, score=5", " YES", "yess", "no", "ye", "y",
            "No, yes", "\tyes\r\n", "add header,"]
    maps = []
    for _ in range(1500 if big else 400):
        ha, hs_ = rng.random() < 0.7, rng.random() < 0.7
        va, vs = rng.choice(vals), rng.choice(vals)
        if rng.random() < 0.15:
            va = "".join(rng.choice("reject RJCT\tyes") for _ in range(rng.randint(0, 9)))
        maps.append((ha, va, hs_, vs))
    # raw messages
    raws = []
    names_a = ["X-Rspamd-Action", "x-rspamd-action", "X-RSPAMD-ACTION", "X-rspamd-action", "X-Rspamd-Action ", "X-Rspamd_Action",
               "X-Rspamd-Actions", "X--Rspamd-Action"]
    names_s = ["X-Spam-Status", "x-spam-status", "X-SPAM-STATUS", "X-Spam-Status ", "X-Spam-Statu", "x-Spam-status"]
    for _ in range(1200 if big else 300):
        spam = []
        for _ in range(rng.randint(0, 3)):
            if rng.random() < 0.5:
                nm = rng.choice(names_a)
                v = rng.choice(["reject", "no action", "add header", "Rewrite Subject", "greylist", "REJECT"])
            else:
                nm = rng.choice(names_s)
                v = rng.choice(["Yes", "No", "yes, score=3", "YES", "nope", "Yesterday"])
            segs = v.split(" ") if (" " in v and rng.random() < 0.4) else [v]
            if rng.random() < 0.15:
                segs = [""] + segs
            spam.append((nm, rng.choice(["", " ", "  ", "\t"]), segs, rng.choice(["", " ", "\t "])))
        df = rng.choice(["INBOX", "Archive", "Spam", "Junk"])
        raw, hs = build_message(spam, wellformed=rng.random() > 0.05)
        raws.append((raw, hs, df))
    # validate
    vcs = []
    for _ in range(1500 if big else 400):
        a = [rng.choice(["", "/run/l.sock"]), rng.choice(["", "127.0.0.1:24"]), rng.choice(["", "data"]),
             rng.choice(["", "INBOX", "X"]), rng.choice(["debug", "info", "warn", "error", "", "INFO", "trace"]),
             rng.choice(["text", "json", "", "xml", "JSON"])]
        n = [rng.choice([-1, 0, 1, 52428800]), rng.choice([-5, 0, 1, 300]), rng.choice([-1, 0, 1, 100]),
             rng.choice([0, 1]), rng.choice([-1, 0, 1, 1 << 30])]
        if rng.random() < 0.5:   # mostly-valid stream
            a = [a[0] or "/run/l.sock", a[1], "data", "INBOX", rng.choice(["debug", "info", "warn", "error"]), rng.choice(["text", "json"])]
            n = [rng.choice([1, 1000]), rng.choice([1, 300]), rng.choice([1, 100]), n[3], rng.choice([0, 1, 1 << 30])]
        vcs.append((a, n))
    ops = [
        {"op": "batch", "fn": "parseRcptTo", "cases": [{"a": [C.latin(x)]} for x in pcs + nonascii]},
        {"op": "batch", "fn": "ExtractLocalPart", "cases": [{"a": [C.latin(x)]} for x in emails]},
        {"op": "batch", "fn": "ExtractDomain", "cases": [{"a": [C.latin(x)]} for x in emails]},
        {"op": "batch", "fn": "c17_isSpam", "cases": [{"a": ["1" if ha else "0", C.latin(va), "1" if hs_ else "0", C.latin(vs)]} for (ha, va, hs_, vs) in maps]},
        {"op": "batch", "fn": "c17_folderOfRaw", "cases": [{"a": [C.latin(raw), df]} for (raw, hs, df) in raws]},
        {"op": "batch", "fn": "c17_validate", "cases": [{"a": a, "n": n} for (a, n) in vcs]},
    ]
    res = C.run_ops(ops, timeout=600)
    if res.get("crashed") or any("rs" not in o for o in res["obs"]):
        chk.broken_obligation("driver crashed on the C17 direct-call suites: %s %s" % (res.get("stderr", "")[:400], str(res.get("obs"))[:300]), {"suite": "direct"})
        return 0
    o = res["obs"]

    def opt(r):
        return "None" if (not isinstance(r, dict) or r.get("err") or "panic" in r) else "(Some %s)" % C.coq_str(C.unlatin(r["r"]))

    body = C.COQ_CASE_HEADER + "From Raven Require Import Base.Enum Model.Policy Spec.Policy.\nLocal Open Scope Z_scope.\n"
    body += "Definition ostr_eqb (a b : option str) := match a, b with Some x, Some y => str_eqb x y | None, None => true | _, _ => false end.\n"
    allp = pcs + nonascii
    body += "Definition parse_cases : list (str * option str) := [\n%s].\n" % ";\n".join(
        "(%s, %s)" % (C.coq_str(C.unlatin(x)), opt(r)) for x, r in zip(allp, o[0]["rs"]))
    body += "Definition parse_diff := Eval vm_compute in diff_positions ostr_eqb 0 (map snd parse_cases) (map (fun c => parse_rcpt_to (fst c)) parse_cases).\nPrint parse_diff.\n"
    body += "Definition split_cases : list (str * option str * option str) := [\n%s].\n" % ";\n".join(
        "(%s, %s, %s)" % (C.coq_str(C.unlatin(x)), opt(r1), opt(r2)) for x, r1, r2 in zip(emails, o[1]["rs"], o[2]["rs"]))
    body += ("Definition split_diff := Eval vm_compute in diff_positions Bool.eqb 0 (map (fun _ => true) split_cases) "
             "(map (fun '(e, l, dm) => ostr_eqb l (extract_local_part e) && ostr_eqb dm (extract_domain e)) split_cases).\nPrint split_diff.\n")
    body += "Definition mk_map (a s : option str) (k : str) : option str := if str_eqb k K_action then a else if str_eqb k K_status then s else None.\n"
    body += "Definition spam_cases : list (option str * option str * bool) := [\n%s].\n" % ";\n".join(
        "(%s, %s, %s)" % (C.coq_opt(C.coq_str(C.unlatin(va)) if ha else None), C.coq_opt(C.coq_str(C.unlatin(vs)) if hs_ else None), C.coq_bool(r is True))
        for (ha, va, hs_, vs), r in zip(maps, o[3]["rs"]))
    body += "Definition spam_diff := Eval vm_compute in diff_positions Bool.eqb 0 (map (fun '(a, s, r) => r) spam_cases) (map (fun '(a, s, r) => is_spam_by_headers (mk_map a s)) spam_cases).\nPrint spam_diff.\n"
    rawterms = []
    for (raw, hs, df), r in zip(raws, o[4]["rs"]):
        impl = "None" if (not isinstance(r, dict) or r.get("err")) else "(Some %s)" % C.coq_str(C.unlatin(r["folder"]))
        ok = any(n.lower() == "from" for n, _ in hs)
        rawterms.append("(%s, %s, %s, %s)" % (C.coq_list(["(%s, %s)" % (C.coq_str(n), C.coq_str(v)) for n, v in hs]), C.coq_str(df), C.coq_bool(ok), impl))
    body += "Definition raw_cases : list (list (str * str) * str * bool * option str) := [\n%s].\n" % ";\n".join(rawterms)
    body += ("Definition raw_model (c : list (str * str) * str * bool * option str) := let '(hs, df, ok, _) := c in "
             "if ok then Some (determine_target_folder (header_map hs) df) else None.\n"
             "Definition raw_spec (c : list (str * str) * str * bool * option str) := let '(hs, df, ok, _) := c in "
             "if ok then Some (if spec_spam hs then Spam else df) else None.\n"
             "Definition raw_diff := Eval vm_compute in diff_positions ostr_eqb 0 (map (fun c => snd c) raw_cases) (map raw_model raw_cases).\nPrint raw_diff.\n"
             "Definition rawspec_diff := Eval vm_compute in diff_positions ostr_eqb 0 (map (fun c => snd c) raw_cases) (map raw_spec raw_cases).\nPrint rawspec_diff.\n")
    body += "Definition val_cases : list (full_config * bool) := [\n%s].\n" % ";\n".join(
        "(mkFull %s %s %s %s %s %s (mkConfig %s %s %s [] false %s %s), %s)" % (
            C.coq_str(a[0]), C.coq_str(a[1]), C.coq_z(n[1]), C.coq_str(a[2]), C.coq_str(a[4]), C.coq_str(a[5]),
            C.coq_str(a[3]), C.coq_bool(n[3] != 0), C.coq_z(n[4]), C.coq_z(n[0]), C.coq_z(n[2]), C.coq_bool(r is True))
        for (a, n), r in zip(vcs, o[5]["rs"]))
    body += "Definition val_diff := Eval vm_compute in diff_positions Bool.eqb 0 (map snd val_cases) (map (fun c => validate (fst c)) val_cases).\nPrint val_diff.\n"
    rc, log = C.coq_eval_cases("C17_direct", body)
    if rc != 0:
        chk.broken_obligation("in-Coq evaluation of the C17 direct cases failed:\n" + log[-2500:], {"suite": "direct"})
        return 0
    nd = 0
    suites = [("parse_diff", allp, o[0]["rs"], "parseRcptTo"), ("split_diff", emails, list(zip(o[1]["rs"], o[2]["rs"])), "ExtractLocalPart/ExtractDomain"),
              ("spam_diff", maps, o[3]["rs"], "isSpamByHeaders"), ("raw_diff", [(r[0], r[2]) for r in raws], o[4]["rs"], "ParseMessage+determineTargetFolder"),
              ("rawspec_diff", [(r[0], r[2]) for r in raws], o[4]["rs"], "spam routing vs the documented reading"),
              ("val_diff", vcs, o[5]["rs"], "config.Validate")]
    for name, inputs, impl, what in suites:
        d = parse_nat_list(log, name)
        if d is None:
            chk.broken_obligation("could not read %s from the Coq output" % name, {"suite": name})
            continue
        for i in d[:3]:
            nd += 1
            inp = inputs[i]
            if any(ord(ch) > 127 for ch in json.dumps(inp, ensure_ascii=False)):
                chk.notes.append("domain edge (non-ASCII bytes, outside the stated model domain) in %s: %r -> %r" % (name, inp, impl[i]))
                continue
            if name == "parse_diff":
                report_parse_diff(chk, inp, impl[i])
                continue
            # model proved equal to the documented reading for these functions (c17_spam_routing,
            # c17_validate_exact; address splitting is shared by model and spec): a difference is a
            # violation of the property itself
            chk.violation("%s: implementation result %r differs from the model on %r" % (what, impl[i], inp),
                          {"suite": name, "input": inp, "impl": impl[i]})
    chk.cov["direct_parse"] = len(allp)
    chk.cov["direct_split"] = len(emails)
    chk.cov["direct_spam_maps"] = len(maps)
    chk.cov["direct_raw_messages"] = len(raws)
    chk.cov["direct_validate"] = len(vcs)
    chk.cov["raw_spam_true"] = sum(1 for r in o[4]["rs"] if isinstance(r, dict) and r.get("folder") == "Spam")
    chk.cov["validate_true"] = sum(1 for r in o[5]["rs"] if r is True)
    chk.sample({"suite": "parse", "args": allp[0], "impl": o[0]["rs"][0]})
    chk.sample({"suite": "raw", "headers": raws[0][1], "default": raws[0][2], "impl": o[4]["rs"][0]})
    chk.cov["disagreements_checked"] += nd
    return len(allp) + len(emails) + len(maps) + len(raws) + len(vcs)


def run(chk):
    n_direct = run_direct(chk)
    corpus = load_corpus()
    cells = make_cells(chk)
    sessions = make_sessions(chk)
    mixes = make_quota_mix(chk)
    flat, r = run_policy(chk, cells, corpus, mixes + sessions)
    if r is None:
        return
    model_bad, spec_bad, classes, pverdicts, sess_groups, sess_bad = r
    mb, sb = set(model_bad), set(spec_bad)
    # does the implementation itself still mis-parse the two shape lines?
    shape_lines = {t: (a, x) for (t, a, x) in rcpt_classes("x") if t in SHAPE_CLASS}
    pr = {"obs": [{"rs": []}]} if not shape_lines else C.run_ops([{"op": "batch", "fn": "parseRcptTo", "cases": [{"a": [shape_lines[t][0]]} for t in sorted(shape_lines)]}])
    shape_live = set()
    try:
        for t, r1 in zip(sorted(shape_lines), pr["obs"][0]["rs"]):
            if not (isinstance(r1, dict) and not r1.get("err") and r1.get("r") == shape_lines[t][1]):
                shape_live.add(t)
    except Exception:
        shape_live = set(shape_lines)

    def labels_of(i, cell):
        """finding classes that explain a spec violation in cell i; [] = unexplained"""
        shape = sorted(set(SHAPE_CLASS[t] for (t, _, _) in cell["lines"] if t in SHAPE_CLASS and t in shape_live))
        if not shape:
            return [CLASS_NAMES[classes[i]]] if classes[i] in CLASS_NAMES else []
        pv = pverdicts[i]
        if pv in (0, 8):                 # with the addresses as parsed, the policy holds (or a line is a 501)
            return shape
        if pv in CLASS_NAMES:
            return shape + [CLASS_NAMES[pv]]
        return []

    unclassified_spec = []
    n_known = {}
    for i in sorted(sb):
        cell, before, ob, ccls = flat[i]
        what = "policy cell: lines=%r cfg=%r -> RCPT %r, accepted %r, gains %r; the documented policy says otherwise" % (
            [a for (_, a, _) in cell["lines"]], {k: v for k, v in cell["cfg"].items()}, ob["rcpt_codes"], ob["flags"], ob["gains"])
        if cell.get("quota_mix"):
            what = "quota in a multi-recipient transaction (pattern %s, O = mailbox over quota, W = has room): DATA replies %r; " % (
                cell["quota_mix"], ob["replies"]) + what
        if cell.get("session_all"):
            k = cell["session_all"].index(cell)
            what = "transaction %d of a session (same connection, no RSET) after %r: %d DATA replies; " % (
                k + 1, [c.get("kind") for c in cell["session_all"][:k]], len(ob["replies"])) + what
        labs = labels_of(i, cell)
        if labs:
            for cls in labs:
                n_known[cls] = n_known.get(cls, 0) + 1
                chk.violation(what, payload_of(cell, before, ob), cls=cls)
        else:
            unclassified_spec.append(i)
            if len(unclassified_spec) <= 3:
                chk.violation(what, payload_of(cell, before, ob))
    n_model_only = 0
    for i in sorted(mb):
        cell, before, ob, ccls = flat[i]
        shape = [SHAPE_CLASS[t] for (t, _, _) in cell["lines"] if t in SHAPE_CLASS]
        if i in sb:
            continue            # reported above (known class or violation)
        if classes[i] != 0 or pverdicts[i] in CLASS_NAMES or shape:
            chk.notes.append("implementation differs from the model inside finding class %s (informational): lines=%r" % (
                shape[0] if shape else CLASS_NAMES.get(classes[i]), [a for (_, a, _) in cell["lines"]]))
            continue
        n_model_only += 1
        if n_model_only <= 3 and not unclassified_spec:
            # the spec is evaluated on every cell of the product: no spec-violating cell in the whole run
            chk.broken_obligation("correspondence policy no longer checks: implementation differs from the model on lines=%r cfg=%r: RCPT %r, replies %r, accepted %r, gains %r, users %r" % (
                [a for (_, a, _) in cell["lines"]], cell["cfg"], ob["rcpt_codes"], ob["replies"], ob["flags"], ob["gains"],
                [u[:3] for u in ob["users"]]), payload_of(cell, before, ob))
    # sessions the session model (run_session from the reset state) does not reproduce although every one of
    # their transactions agrees with the transaction model: only the MAIL replies / the threading can differ
    n_sess_only = 0
    for gi in sess_bad:
        g = sess_groups[gi]
        if any(i in sb or i in mb for i in g):
            continue
        n_sess_only += 1
        if n_sess_only <= 2 and not unclassified_spec:
            cell, before, ob, _ = flat[g[0]]
            chk.broken_obligation("correspondence session no longer checks: the replies of session %r (MAIL %r) differ from run_session" % (
                [flat[i][0].get("kind") for i in g], [flat[i][2]["mail_ok"] for i in g]),
                {"suite": "sessions", "cells": [payload_of(*flat[i][:3]) for i in g]})
    qm = [f for f in flat if f[0].get("quota_mix")]
    chk.cov["quota_mix_transactions"] = len(qm)
    chk.cov["quota_mix_partial"] = sum(1 for f in qm if any(f[2]["flags"]) and not all(f[2]["flags"]))
    chk.cov["quota_mix_replies_552"] = sum(f[2]["replies"].count(552) for f in qm)
    chk.cov["sessions"] = len(sess_groups)
    chk.cov["session_transactions"] = sum(len(g) for g in sess_groups)
    chk.cov["session_first_kinds"] = {k: sum(1 for g in sess_groups if flat[g[0]][0].get("kind") == k) for k in SESSION_KINDS}
    chk.cov["sessions_not_reproduced"] = len(sess_bad)
    for (cell, before, ob, _) in flat:
        if ob["lost"]:
            chk.violation("a delivery removed messages from %r" % (ob["lost"],), payload_of(cell, before, ob))
            break
    # coverage
    chk.cov["evaluations"] = n_direct + len(flat)
    chk.cov["policy_cells"] = len(flat)
    chk.cov["traces_validated_against_impl"] = len(flat)
    distinct = set()
    for (cell, before, ob, _) in flat:
        c = cell["cfgsym"] if "cfgsym" in cell else cell["cfg"]
        distinct.add((json.dumps(c, sort_keys=True), tuple(t for (t, _, _) in cell["lines"]), cell.get("spam")))
    chk.cov["distinct_nontrivial"] = len(distinct)
    chk.cov["rule"] = ("policy: one cell = one LMTP transaction (own connection and configuration) in a world with users "
                       "(enabled/disabled), role mailboxes (enabled/disabled) and earlier deliveries; distinct = distinct "
                       "(configuration symbol tuple, recipient-class tuple, spam-header variant); every cell is non-trivial "
                       "(a full RCPT+DATA dialogue whose replies, gained store/folder and user table are compared with the model "
                       "run in Coq on the database view observed before the cell, and with the documented policy). "
                       "Configuration product: default_folder{INBOX,Archive,Spam} x allowed_domains{empty,match,no-match} x "
                       "reject_unknown_user x max_recipients{1,2,100} x max_size{len-1,len,big} x quota{off,under,over,=size,=size-1} "
                       "(810; quick: seeded sample, thorough: all) x 30 recipient classes (incl. '_'/'%'/case twins of role addresses and users) x 19 spam-header variants (rotating), "
                       "plus multi-recipient transactions; plus quota transactions of 2-4 recipients mixing over-quota and "
                       "within-quota mailboxes in every order (incl. the same address twice), judged per position; plus multi-transaction sessions on one connection without RSET "
                       "(first transaction accepted / over size 552 / unparsable 554 / no accepted recipient 503 / recipient limit / "
                       "unknown user, then a second and third transaction to other recipients; every transaction compared as a "
                       "fresh transaction on the database view before it, and the whole session with run_session); direct-call suites for parseRcptTo, address splitting, isSpamByHeaders, "
                       "ParseMessage header map, config.Validate")
    chk.cov["cells_accepting"] = sum(1 for f in flat if any(f[2]["flags"]))
    chk.cov["cells_refusing_all"] = sum(1 for f in flat if not any(f[2]["flags"]))
    chk.cov["cells_in_spam"] = sum(1 for f in flat if any(g[1] == "Spam" for g in f[2]["gains"]))
    chk.cov["cells_role_store"] = sum(1 for f in flat if any(g[0][0] == "R" for g in f[2]["gains"]))
    chk.cov["known_finding_cells"] = n_known
    chk.cov["class_counts"] = {CLASS_NAMES[k]: classes.count(k) for k in CLASS_NAMES}
    chk.cov["disagreements_checked"] += len(mb | sb)
    chk.cov["corpus_witnesses"] = len(corpus)
    if flat:
        cell, before, ob, _ = flat[len(corpus)] if len(flat) > len(corpus) else flat[0]
        chk.sample({"suite": "policy", "cfg": cell["cfg"], "lines": [a for (_, a, _) in cell["lines"]], "spam": cell.get("spam"),
                    "rcpt_codes": ob["rcpt_codes"], "data_replies": ob["replies"], "gains": [list(map(str, g)) for g in ob["gains"]]})


def replay(path):
    d = json.load(open(path))
    if d.get("suite") != "policy" and "cell" not in d:
        print(json.dumps(d, indent=1))
        return 0
    cells = d.get("session") or [d["cell"]]
    ops = list(POP) + [dict(op="c17_view")]
    for i, cell in enumerate(cells):
        cell["lines"] = [tuple(x) for x in cell["lines"]]
        ops += cell_ops(i, cell)
    res = C.run_ops(ops)
    for o, b in zip(ops[len(POP):], res["obs"][len(POP):]):
        if o.get("op") == "sleep":
            continue
        print(json.dumps(o)[:160], "->", json.dumps(b)[:600])
    return 0
