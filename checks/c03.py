"""C03 — UIDs unique, ascending, never reused; UIDNEXT tells the truth.

Correspondence suite "uidhist": random histories of LMTP deliveries, APPEND,
UID COPY (and COPY when the dispatcher lets it through), UID STORE (\\Deleted,
Junk, NonJunk), EXPUNGE, CLOSE, CREATE, DELETE, RENAME (incl. RENAME INBOX)
driven through real IMAP + LMTP sessions (two IMAP sessions of one user).
After every operation the tables mailboxes / message_mailbox are dumped and
compared, inside Coq, with the state of Model/Ops.v run on the same history
(observed UIDVALIDITY values are fed to the model as its clock).  STATUS and
UID FETCH replies are compared with the dump.  An independent, observation-only
implementation of the property (ghost log of (name, validity, uid) -> message
instance) is evaluated on the dumps; its verdicts are classified by the Coq
classifier of the known finding classes."""
import glob
import json
import os
import re

import common as C

PID = "C03"
CLASS_NAMES = {}   # no finding class is left (codes 1-4: fix wave 1; 5 validity_same_second: fix wave 3)
USER = "u@example.com"
MSG = "From: a@example.com\r\nTo: u@example.com\r\nSubject: s%d\r\n\r\nbody %d\r\n"
SEL_KINDS = ("uidcopy", "copy", "uidstore", "expunge", "close")
MUTATING = ("append", "deliver", "uidcopy", "copy", "uidstore", "expunge", "close", "create", "delete", "rename")


# --------------------------------------------------------------------------
# scripts -> driver ops

def set_text(st):
    return ",".join(str(x[1]) if x[0] == "one" else "%d:%d" % (x[1], x[2]) for x in st)


def driver_ops(script):
    """Returns (ops, index) where index[i] = (first, last) positions in ops of step i."""
    ops = [{"op": "open", "conn": "c1"},
           {"op": "send", "conn": "c1", "data": "i1 LOGIN %s pw\r\n" % USER, "until": "tag:i1"},
           {"op": "open", "conn": "c2"},
           {"op": "send", "conn": "c2", "data": "i2 LOGIN %s pw\r\n" % USER, "until": "tag:i2"},
           {"op": "lmtp_open", "conn": "l0"},
           {"op": "send", "conn": "l0", "data": "LHLO x\r\n", "until": "lmtp:1"},
           {"op": "lmtp_open", "conn": "l1", "default_folder": "D"},
           {"op": "send", "conn": "l1", "data": "LHLO x\r\n", "until": "lmtp:1"},
           {"op": "dump"}]
    index = []
    for i, st in enumerate(script):
        first = len(ops)
        k = st["k"]
        tag = "t%d" % i
        s = st.get("s", "c1")

        def imap(line, until=None):
            ops.append({"op": "send", "conn": s, "data": "%s %s\r\n" % (tag, line), "until": until or ("tag:" + tag)})
        if k == "append":
            # the last body line is a command with this step's tag: if the server refused the
            # APPEND before the literal, the literal is read as commands and still ends the wait
            m = MSG % (i, i) + "%s NOOP\r\n" % tag
            fl = (" (%s)" % " ".join(st["flags"])) if st["flags"] else ""
            imap("APPEND %s%s {%d}" % (st["folder"], fl, len(m)), "cont:" + tag)
            ops.append({"op": "send", "conn": s, "data": m + "\r\n", "until": "tag:" + tag})
        elif k == "deliver":
            conn = "l1" if st["folder"] == "D" else "l0"
            m = MSG % (i, i)
            if st["folder"] == "Spam":
                m = "X-Spam-Status: Yes, score=9\r\n" + m
            ops.append({"op": "send", "conn": conn, "data": "MAIL FROM:<a@example.com>\r\n", "until": "lmtp:1"})
            ops.append({"op": "send", "conn": conn, "data": "RCPT TO:<%s>\r\n" % USER, "until": "lmtp:1"})
            ops.append({"op": "send", "conn": conn, "data": "DATA\r\n", "until": "lmtp:1"})
            ops.append({"op": "send", "conn": conn, "data": m + ".\r\n", "until": "lmtp:1"})
        elif k == "uidcopy":
            imap("UID COPY %s %s" % (set_text(st["set"]), st["dest"]))
        elif k == "copy":
            imap("COPY %s %s" % (set_text(st["set"]), st["dest"]))
        elif k == "uidstore":
            mode = {"+": "+FLAGS", "-": "-FLAGS", "=": "FLAGS"}[st["mode"]]
            imap("UID STORE %s %s (%s)" % (set_text(st["set"]), mode, " ".join(st["flags"])))
        elif k == "expunge":
            imap("EXPUNGE")
        elif k == "close":
            imap("CLOSE")
        elif k == "create":
            imap("CREATE %s" % st["name"])
        elif k == "delete":
            imap("DELETE %s" % st["name"])
        elif k == "rename":
            imap("RENAME %s %s" % (st["old"], st["new"]))
        elif k == "select":
            imap("SELECT %s" % st["name"])
        elif k == "status":
            imap("STATUS %s (UIDNEXT UIDVALIDITY MESSAGES)" % st["name"])
        elif k == "uidfetch":
            imap("UID FETCH 1:* (UID)")
        else:
            raise ValueError(k)
        if k in MUTATING:
            ops.append({"op": "dump"})
        index.append((first, len(ops) - 1))
    return ops, index


# --------------------------------------------------------------------------
# observations -> model ops, observed steps, observation-only spec

def user_store(dump):
    for name, st in sorted(dump.get("stores", {}).items()):
        if name.startswith("user_db_"):
            return st
    return {"mailboxes": [], "links": []}


def tagged(recv, tag):
    for line in recv.split("\r\n"):
        if line.startswith(tag + " "):
            return line[len(tag) + 1:]
    return ""


def reply_class(rest):
    w = rest.split(" ", 1)[0].upper()
    return w if w in ("OK", "NO", "BAD") else "?"


def coq_flags(fl):
    return C.coq_list([C.coq_str(f) for f in fl])


def coq_set(st):
    return C.coq_list(["(UOne %d)" % x[1] if x[0] == "one" else "(URange %d %d)" % (x[1], x[2]) for x in st])


class Scenario:
    """Digest of one executed script."""

    def __init__(self, script, res):
        self.script = script
        self.res = res
        self.trouble = None        # harness trouble (timeouts, crash)
        self.model_ops = []        # Coq text per model step
        self.obs_steps = []        # Coq text per model step
        self.step_of = []          # script index per model step
        self.init = None
        self.viol = []             # (model step index, kind, detail)  observation-only spec
        self.proto = []            # protocol-vs-dump disagreements
        self.adds = 0
        self.digest()

    def digest(self):
        if self.res.get("crashed"):
            self.trouble = "driver crashed: %s" % self.res.get("stderr", "")[-300:]
            return
        ops, index = driver_ops(self.script)
        obs = self.res["obs"]
        if len(obs) != len(ops):
            self.trouble = "driver returned %d observations for %d ops" % (len(obs), len(ops))
            return
        for o in obs:
            if o.get("how") in ("timeout", "eof", "write-error") or "panic" in o or "error" in o:
                self.trouble = "driver step did not complete: %s" % json.dumps(o)[:300]
                return
        dump = user_store(obs[8])
        mbs = dump.get("mailboxes") or []
        if [m[2] for m in mbs] != ["INBOX", "Sent", "Drafts", "Trash", "Spam"]:
            self.trouble = "unexpected default mailboxes: %r" % (mbs,)
            return
        self.init = "(init5 %s)" % " ".join(C.coq_z(m[3]) for m in mbs)
        sel = {"c1": 0, "c2": 0}
        # observation-only ghost state
        g_inst = {}      # (name, validity, uid) -> instance
        g_maxuid = {}    # (name, validity) -> highest uid ever seen
        g_next = {}      # (name, validity) -> last advertised uid_next
        inst_of = {}     # link row id -> (message_id, uid, instance)
        serial = [0]
        for i, st in enumerate(self.script):
            k = st["k"]
            first, last = index[i]
            s = st.get("s", "c1")
            tag = "t%d" % i
            pre = dump
            pre_m = {m[2]: m for m in (pre.get("mailboxes") or [])}
            if k == "select":
                # a SELECT first deselects; if it then fails nothing is selected (RFC 3501 6.3.1)
                sel[s] = 0
                if reply_class(tagged(obs[last]["recv"], tag)) == "OK":
                    name = "INBOX" if st["name"].upper() == "INBOX" else st["name"]
                    sel[s] = pre_m[name][0] if name in pre_m else 0
                continue
            if k == "status":
                rest = obs[last]["recv"]
                m = re.search(r"\* STATUS \S+ \(UIDNEXT (\d+) UIDVALIDITY (\d+) MESSAGES (\d+)\)", rest)
                row = pre_m.get(st["name"])
                if row is not None:
                    cnt = sum(1 for l in (pre.get("links") or []) if l[2] == row[0])
                    want = (row[4], row[3], cnt)
                    got = tuple(int(x) for x in m.groups()) if m else None
                    if got != want:
                        self.proto.append((i, "STATUS %s advertises (UIDNEXT, UIDVALIDITY, MESSAGES) = %r, the store holds %r" % (st["name"], got, want)))
                elif m:
                    self.proto.append((i, "STATUS answers for %s which is not in the store" % st["name"]))
                continue
            if k == "uidfetch":
                if sel[s] == 0:
                    continue
                got = sorted(int(x) for x in re.findall(r"\* \d+ FETCH \(UID (\d+)\)", obs[last]["recv"]))
                want = sorted(l[3] for l in (pre.get("links") or []) if l[2] == sel[s])
                if got != want:
                    self.proto.append((i, "UID FETCH 1:* lists %r, the store holds %r in mailbox row %d" % (got, want, sel[s])))
                continue
            # mutating step
            dump = user_store(obs[last])
            post_m = {m[2]: m for m in (dump.get("mailboxes") or [])}
            if k == "deliver":
                code = obs[last - 1]["recv"][:1]
                rcls = "OK" if code == "2" else "NO"
                rtxt = "ROk" if code == "2" else "RNo"
            else:
                rest = tagged(obs[last - 1]["recv"], tag)
                if k == "append" and tagged(obs[first]["recv"], tag):
                    rest = tagged(obs[first]["recv"], tag)      # refused before the literal
                rcls = reply_class(rest)
                rtxt = {"OK": "ROk", "NO": "RNo", "BAD": "RBad"}.get(rcls, "RBad")
                if k == "append" and rcls == "OK":
                    m = re.search(r"\[APPENDUID (\d+) (\d+)\]", rest)
                    rtxt = "(RAppendUid %s %s)" % (C.coq_z(int(m.group(1))), C.coq_z(int(m.group(2)))) if m else "ROk"
                    if m:
                        v, u = int(m.group(1)), int(m.group(2))
                        row = post_m.get(st["folder"])
                        top = max((l[0] for l in (dump.get("links") or [])), default=0)
                        ok = row is not None and row[3] == v and any(l[2] == row[0] and l[3] == u and l[0] == top for l in dump["links"] or [])
                        if not ok:
                            self.proto.append((i, "APPENDUID %d %d but the appended message is not found under that UID in %s" % (v, u, st["folder"])))
            if k in SEL_KINDS and sel[s] == 0:
                if rcls != "NO" or dump != pre:
                    self.proto.append((i, "%s without a selected mailbox answered %s / changed the store" % (k, rcls)))
                continue

            def newval(name):
                # the clock oracle of the op: the smallest UIDVALIDITY among the rows this op created
                # (the first stamp the allocator handed out in it); 0 when it created none
                old = set((m[0], m[3]) for m in (pre.get("mailboxes") or []))
                fresh = [m[3] for m in (dump.get("mailboxes") or []) if (m[0], m[3]) not in old]
                return min(fresh) if fresh else 0
            if k == "append":
                op = "OAppend %s %s" % (C.coq_str(st["folder"]), coq_flags(st["flags"]))
            elif k == "deliver":
                op = "ODeliver %s %s" % (C.coq_str(st["folder"]), C.coq_z(newval(st["folder"])))
            elif k == "uidcopy":
                op = "OUidCopy %d %s %s" % (sel[s], coq_set(st["set"]), C.coq_str(st["dest"]))
            elif k == "copy":
                op = "OCopy %d %s %s" % (sel[s], coq_set(st["set"]), C.coq_str(st["dest"]))
            elif k == "uidstore":
                op = "OUidStore %d %s %s %s" % (sel[s], coq_set(st["set"]), {"+": "SAdd", "-": "SDel", "=": "SSet"}[st["mode"]], coq_flags(st["flags"]))
            elif k == "expunge":
                op = "OExpunge %d" % sel[s]
            elif k == "close":
                op = "OClose %d" % sel[s]
            elif k == "create":
                op = "OCreate %s %s" % (C.coq_str(st["name"]), C.coq_z(newval(st["name"])))
            elif k == "delete":
                op = "ODelete %s" % C.coq_str(st["name"])
            elif k == "rename":
                op = "ORename %s %s %s" % (C.coq_str(st["old"]), C.coq_str(st["new"]), C.coq_z(newval(st["new"])))
            if k == "close" and rcls == "OK":
                sel[s] = 0
            mv = C.coq_list(["(%d, %s, %s, %d)" % (m[0], C.coq_str(m[2]), C.coq_z(m[3]), m[4]) for m in (dump.get("mailboxes") or [])])
            lv = C.coq_list(["(%d, %d, %d, %d, %s)" % (l[0], l[1], l[2], l[3], coq_flags(C.unlatin(l[4]).split())) for l in (dump.get("links") or [])])
            j = len(self.model_ops)
            self.model_ops.append("(" + op + ")")
            self.obs_steps.append("(%s, %s, %s)" % (rtxt, mv, lv))
            self.step_of.append(i)
            # ---- observation-only spec on the new dump
            by_id = {m[0]: m for m in (dump.get("mailboxes") or [])}
            new_inst = {}
            fresh = []
            for l in (dump.get("links") or []):
                old = inst_of.get(l[0])
                if old is not None and old[0] == l[1] and old[1] == l[3]:
                    new_inst[l[0]] = old
                else:
                    serial[0] += 1
                    new_inst[l[0]] = (l[1], l[3], serial[0])
                    fresh.append(l)
                    self.adds += 1
            for l in fresh:
                mb = by_id.get(l[2])
                if mb is None:
                    continue
                key = (mb[2], mb[3])
                if key in g_maxuid and l[3] <= g_maxuid[key]:
                    self.viol.append((j, "not_ascending", "a message added to %s (UIDVALIDITY %d) got UID %d although UID %d had been used there" % (mb[2], mb[3], l[3], g_maxuid[key])))
            inst_of = new_inst
            for l in (dump.get("links") or []):
                mb = by_id.get(l[2])
                if mb is None:
                    self.viol.append((j, "dangling", "link row %d refers to missing mailbox row %d" % (l[0], l[2])))
                    continue
                key3 = (mb[2], mb[3], l[3])
                ins = inst_of[l[0]][2]
                if key3 in g_inst and g_inst[key3] != ins:
                    self.viol.append((j, "uid_reused", "UID %d of %s (UIDVALIDITY %d) denotes a second message" % (l[3], mb[2], mb[3])))
                g_inst[key3] = ins
                key = (mb[2], mb[3])
                g_maxuid[key] = max(g_maxuid.get(key, 0), l[3])
            seen = set()
            for l in (dump.get("links") or []):
                if (l[2], l[3]) in seen:
                    self.viol.append((j, "duplicate_uid", "two rows with UID %d in mailbox row %d" % (l[3], l[2])))
                seen.add((l[2], l[3]))
            for mb in (dump.get("mailboxes") or []):
                key = (mb[2], mb[3])
                if key in g_maxuid and mb[4] <= g_maxuid[key]:
                    self.viol.append((j, "uidnext_not_above", "%s (UIDVALIDITY %d) advertises UIDNEXT %d, UID %d exists or existed" % (mb[2], mb[3], mb[4], g_maxuid[key])))
                if key in g_next and mb[4] < g_next[key]:
                    self.viol.append((j, "uidnext_decreased", "%s (UIDVALIDITY %d): UIDNEXT went from %d to %d" % (mb[2], mb[3], g_next[key], mb[4])))
                g_next[key] = mb[4]

    def coq_term(self):
        return "(%s,\n  %s,\n  %s)" % (self.init, C.coq_list(self.model_ops), C.coq_list(self.obs_steps))


# --------------------------------------------------------------------------
# generators

POOL = ["A", "B", "C"]


class Mirror:
    """Generator-side guess of which names exist / what is selected (only used
    to bias the generator towards meaningful commands)."""

    def __init__(self):
        self.names = {"INBOX", "Sent", "Drafts", "Trash", "Spam"}
        self.sel = {"c1": None, "c2": None}
        self.count = {}

    def add(self, n, k=1):
        self.count[n] = self.count.get(n, 0) + k


def gen_history(rng, n, clean, copy_ok):
    mir = Mirror()
    script = []
    fresh = [0]

    def fresh_name():
        fresh[0] += 1
        return "N%d" % fresh[0]

    def some_set():
        r = rng.random()
        if r < 0.5:
            return [["one", rng.randint(1, 4)]]
        if r < 0.8:
            a = rng.randint(1, 3)
            return [["range", a, rng.randint(a, 6)]]
        if r < 0.9:
            return [["one", rng.randint(1, 5)], ["one", rng.randint(1, 5)]]
        # a set that names a UID twice and another one after it (1,1:3 / 2,2,3): seeded C03-5
        a = rng.randint(1, 3)
        if rng.random() < 0.5:
            return [["one", a], ["range", a, rng.randint(a + 1, 5)]]
        return [["one", a], ["one", a], ["one", a + 1]]

    def existing(extra=()):
        l = sorted(mir.names - {"Sent", "Drafts"}) + list(extra)
        return rng.choice(l)

    while len(script) < n:
        s = rng.choice(["c1", "c2"])
        r = rng.random()
        if r < 0.16:
            f = existing()
            script.append({"k": "append", "s": s, "folder": f, "flags": rng.choice([[], [], ["\\Seen"], ["\\Deleted"], ["\\Flagged", "\\Seen"]])})
            mir.add(f)
        elif r < 0.28:
            f = rng.choice(["INBOX", "INBOX", "Spam", "D"])
            if clean and f in ("Spam", "D") and f not in mir.names and ("was_" + f) in mir.count:
                continue
            script.append({"k": "deliver", "folder": f})
            mir.names.add(f)
            mir.add(f)
        elif r < 0.42:
            nm = existing()
            script.append({"k": "select", "s": s, "name": nm if nm != "INBOX" or rng.random() < 0.8 else "inbox"})
            mir.sel[s] = nm
        elif r < 0.54:
            if mir.sel[s] is None:
                continue
            d = existing()
            kind = "copy" if (copy_ok and rng.random() < 0.4) else "uidcopy"
            script.append({"k": kind, "s": s, "set": some_set(), "dest": d})
            script.append({"k": "status", "s": s, "name": d})
        elif r < 0.66:
            if mir.sel[s] is None:
                continue
            fl = rng.choice([["\\Deleted"], ["\\Deleted"], ["\\Seen"], ["Junk"], ["NonJunk"], ["\\Deleted", "\\Seen"]])
            script.append({"k": "uidstore", "s": s, "set": some_set(), "mode": rng.choice(["+", "+", "+", "-", "="]), "flags": fl})
        elif r < 0.74:
            if mir.sel[s] is None:
                continue
            if rng.random() < 0.7:
                script.append({"k": "expunge", "s": s})
            else:
                script.append({"k": "close", "s": s})
                mir.sel[s] = None
        elif r < 0.82:
            nm = fresh_name() if clean else rng.choice(POOL)
            script.append({"k": "create", "s": s, "name": nm})
            mir.names.add(nm)
        elif r < 0.88:
            cands = sorted(mir.names - {"INBOX", "Sent", "Drafts", "Trash"} - ({"Spam", "D"} if clean else set()))
            if not cands:
                continue
            nm = rng.choice(cands)
            script.append({"k": "delete", "s": s, "name": nm})
            mir.names.discard(nm)
            mir.count["was_" + nm] = 1
        elif r < 0.96:
            if clean:
                cands = sorted(mir.names - {"INBOX", "Sent", "Drafts", "Trash", "Spam", "D"})
                if not cands:
                    continue
                old, new = rng.choice(cands + ["INBOX"]), fresh_name()
            else:
                old = rng.choice(sorted(mir.names - {"Sent", "Drafts"}) + ["INBOX", "inbox"])
                new = rng.choice(POOL + ["Spam"])
            script.append({"k": "rename", "s": s, "old": old, "new": new})
            if new not in mir.names:
                if old.upper() != "INBOX":
                    mir.names.discard(old)
                mir.names.add(new)
            script.append({"k": "status", "s": s, "name": new})
        elif r < 0.98:
            # RENAME INBOX onto an EXISTING name (refused by raven), then additions to both
            cands = sorted(mir.names - {"INBOX", "Sent", "Drafts"})
            if not cands:
                continue
            tgt = rng.choice(cands)
            script.append({"k": "rename", "s": s, "old": rng.choice(["INBOX", "inbox"]), "new": tgt})
            script.append({"k": "append", "s": s, "folder": tgt, "flags": []})
            script.append({"k": "deliver", "folder": "INBOX"})
            script.append({"k": "status", "s": s, "name": tgt})
            mir.add(tgt)
        else:
            nm = existing()
            script.append({"k": "status", "s": s, "name": nm})
            if mir.sel[s] is not None:
                script.append({"k": "uidfetch", "s": s})
    return script


# --------------------------------------------------------------------------
# evaluation

def evaluate(scens, name):
    """Run the model on the scenarios inside Coq. Returns list of 5-tuples or None."""
    body = C.COQ_CASE_HEADER + "From Raven Require Import Model.Store Model.Ops Spec.UidSpec Model.UidView.\nLocal Open Scope Z_scope.\n"
    for i, sc in enumerate(scens):
        body += "Definition sc_%d : store * list op * list obs_step :=\n %s.\n" % (i, sc.coq_term())
    body += "Definition res := Eval vm_compute in map eval_scenario [%s].\nPrint res.\n" % "; ".join("sc_%d" % i for i in range(len(scens)))
    rc, log = C.coq_eval_cases(name, body)
    if rc != 0:
        return None, log
    txt = C.parse_coq_list_out(log, "res")
    if txt is None:
        return None, log
    tup = re.findall(r"\(\s*(-?\d+),\s*(-?\d+),\s*(-?\d+),\s*(-?\d+),\s*(-?\d+)\)", txt.replace("%Z", ""))
    out = [tuple(int(x) for x in t) for t in tup]
    if len(out) != len(scens):
        return None, log
    return out, log


def run_scripts(scripts, workers=12):
    res = C.run_many([driver_ops(s)[0] for s in scripts], workers=workers, timeout=300)
    scens = [Scenario(s, r) for s, r in zip(scripts, res)]
    # one solo retry for harness trouble (time-outs under load)
    for i, sc in enumerate(scens):
        if sc.trouble:
            scens[i] = Scenario(scripts[i], C.run_ops(driver_ops(scripts[i])[0], timeout=300))
    return scens


# --------------------------------------------------------------------------
# suite "sched": statement-level interleavings of one APPEND with complete
# commands of other writers on the same mailbox (gate ops of harness/drv/c03.go)

SCHED_POINTS = ["U", "I", "R", "Q"]     # the tree's APPEND: allocate uid / insert link / read validity / read uid
OTHER_KINDS = ["deliver", "append", "uidcopy", "nonjunk"]


def sched_msg(i):
    return "From: a@example.com\r\nTo: u@example.com\r\nSubject: s%d\r\nMessage-ID: <m%d@verif>\r\n\r\nbody %d\r\n" % (i, i, i)


def sched_append_steps(tag, folder, i):
    m = sched_msg(i)
    return [{"data": "%s APPEND %s {%d}\r\n" % (tag, folder, len(m)), "until": "cont:" + tag},
            {"data": m + "\r\n", "until": "tag:" + tag}]


def sched_other(kind, j):
    """(thread spec, Coq model op, number of messages it adds to INBOX). c2 has Trash (row 4) selected;
    Trash holds UIDs 1..4."""
    if kind == "deliver":
        return ({"conn": "l0", "steps": [{"data": "MAIL FROM:<a@example.com>\r\n", "until": "lmtp:1"},
                                         {"data": "RCPT TO:<%s>\r\n" % USER, "until": "lmtp:1"},
                                         {"data": "DATA\r\n", "until": "lmtp:1"},
                                         {"data": sched_msg(100 + j) + ".\r\n", "until": "lmtp:1"}]},
                "(ODeliver (S_ \"INBOX\") 0)")
    if kind == "append":
        return ({"conn": "c2", "steps": sched_append_steps("o%d" % j, "INBOX", 200 + j)}, "(OAppend (S_ \"INBOX\") [])")
    if kind == "uidcopy":
        return ({"conn": "c2", "steps": [{"data": "o%d UID COPY %d INBOX\r\n" % (j, 1 + j % 2), "until": "tag:o%d" % j}]},
                "(OUidCopy 4 [(UOne %d)] (S_ \"INBOX\"))" % (1 + j % 2))
    if kind == "nonjunk":
        return ({"conn": "c2", "steps": [{"data": "o%d UID STORE %d +FLAGS (NonJunk)\r\n" % (j, 3 + j % 2), "until": "tag:o%d" % j}]},
                "(OUidStore 4 [(UOne %d)] SAdd [(S_ \"NonJunk\")])" % (3 + j % 2))
    raise ValueError(kind)


def sched_ops(plan, off=0):
    """plan: list of (hold index, [other kinds]) for ONE held APPEND to INBOX; [off]: gate
    arrivals of the command before its first statement U."""
    ops = [{"op": "open", "conn": "c1"},
           {"op": "send", "conn": "c1", "data": "i1 LOGIN %s pw\r\n" % USER, "until": "tag:i1"},
           {"op": "open", "conn": "c2"},
           {"op": "send", "conn": "c2", "data": "i2 LOGIN %s pw\r\n" % USER, "until": "tag:i2"},
           {"op": "lmtp_open", "conn": "l0"},
           {"op": "send", "conn": "l0", "data": "LHLO x\r\n", "until": "lmtp:1"}]
    for n in range(4):
        for st in sched_append_steps("p%d" % n, "Trash", 10 + n):
            ops.append(dict(st, op="send", conn="c2"))
    for st in sched_append_steps("p9", "INBOX", 19):
        ops.append(dict(st, op="send", conn="c1"))
    ops += [{"op": "send", "conn": "c2", "data": "p10 SELECT Trash\r\n", "until": "tag:p10"},
            {"op": "dump"},
            {"op": "c03_gate_install", "user": USER}]
    others, holds, envs = [], [], {k: [] for k in range(len(SCHED_POINTS))}
    j = 0
    for (k, kinds) in plan:
        run = []
        for kind in kinds:
            th, mop = sched_other(kind, j)
            others.append(th)
            envs[k].append(mop)
            run.append(j)
            j += 1
        holds.append({"at": k + off, "run": run})
    ops.append({"op": "c03_hold", "holder": {"conn": "c1", "steps": sched_append_steps("h1", "INBOX", 1)},
                "others": others, "holds": holds, "timeout_ms": 10000})
    ops += [{"op": "send", "conn": "c1", "data": "f1 SELECT INBOX\r\n", "until": "tag:f1"},
            {"op": "send", "conn": "c1", "data": "f2 UID FETCH 1:* (UID BODY.PEEK[HEADER.FIELDS (Message-ID)])\r\n", "until": "tag:f2"},
            {"op": "dump"}]
    return ops, envs


def run_sched(chk, plans, stats):
    """Run the plans, check APPENDUID against UID FETCH and the store, and tie
    the statement-level model (Model/AppendSched.v) to the outcome."""
    # where do the four statements start among the gate points of an APPEND on this tree?
    dry = C.run_ops(sched_ops([])[0], timeout=120)
    try:
        dpts = dry["obs"][-4]["points"]
        off = dpts.index("U")
    except Exception:
        chk.broken_obligation("sched: could not determine the statements of APPEND on this tree: %s" % str(dry)[-300:], {"suite": "sched"})
        return
    built = [sched_ops(p, off) for p in plans]
    res = C.run_many([b[0] for b in built], workers=12, timeout=300)
    terms = []
    ok_idx = []
    for n, (plan, (ops, envs), r) in enumerate(zip(plans, built, res)):
        payload = {"suite": "sched", "plan": plan, "points": SCHED_POINTS}
        if r.get("crashed") or len(r.get("obs", [])) != len(ops):
            r = C.run_ops(ops, timeout=300)          # one solo retry
        if r.get("crashed") or len(r.get("obs", [])) != len(ops):
            chk.broken_obligation("sched scenario could not be run: %s" % str(r.get("stderr", ""))[-300:], payload)
            continue
        obs = r["obs"]
        hold = obs[-4]
        if hold.get("error") or any(o.get("how") in ("timeout", "eof", "write-error") for o in obs if isinstance(o, dict)):
            r2 = C.run_ops(ops, timeout=300)
            if not r2.get("crashed") and len(r2.get("obs", [])) == len(ops):
                obs = r2["obs"]
                hold = obs[-4]
        if hold.get("error"):
            chk.broken_obligation("sched scenario did not complete: %s" % hold.get("error"), payload)
            continue
        stats["sched"] = stats.get("sched", 0) + 1
        pts = (hold.get("points") or [])[off:]
        if pts != SCHED_POINTS:
            stats.setdefault("sched_points", set()).add(" ".join(pts))
        reached = set(x - off for x in (hold.get("reached") or []))
        rest = tagged(hold["holder"][-1]["recv"], "h1")
        m = re.search(r"\[APPENDUID (\d+) (\d+)\]", rest)
        dump0, dump = user_store(obs[-6]), user_store(obs[-1])
        inbox = [x for x in (dump.get("mailboxes") or []) if x[2] == "INBOX"][0]
        pairs = re.findall(r"FETCH \(UID (\d+) BODY\[HEADER\.FIELDS \(MESSAGE-ID\)\] \{\d+\}\r\nMessage-ID: <(m\d+)@verif>", obs[-2]["recv"], re.I)
        fetched = dict((mid, int(u)) for u, mid in pairs)
        sched_txt = "; ".join("hold APPEND before statement %d (%s): run %s" % (k, SCHED_POINTS[k] if k < len(SCHED_POINTS) else "?", "+".join(kinds)) for k, kinds in plan)
        if reply_class(rest) == "OK" and m:
            v, u = int(m.group(1)), int(m.group(2))
            actual = fetched.get("m1")
            if actual != u or v != inbox[3]:
                chk.violation("APPENDUID announces (%d, %d) but the appended message <m1@verif> is found under UID %s of INBOX (UIDVALIDITY %d); UID %d is %s  [schedule: %s; statements reached: %s]"
                              % (v, u, actual, inbox[3], u, [k for k, x in fetched.items() if x == u] or "no message", sched_txt, pts), payload)
                stats["real"] = stats.get("real", 0) + 1
            rtxt = "(RAppendUid %s %s)" % (C.coq_z(v), C.coq_z(u))
        else:
            rtxt = {"OK": "ROk", "NO": "RNo", "BAD": "RBad"}.get(reply_class(rest), "RBad")
        # uniqueness / UIDNEXT on the result
        links = dump.get("links") or []
        seen = set()
        for l in links:
            if (l[2], l[3]) in seen:
                chk.violation("two rows with UID %d in mailbox row %d after schedule %s" % (l[3], l[2], sched_txt), payload)
            seen.add((l[2], l[3]))
        for mb in (dump.get("mailboxes") or []):
            top = max([l[3] for l in links if l[2] == mb[0]], default=0)
            if mb[4] <= top:
                chk.violation("%s advertises UIDNEXT %d with UID %d present after schedule %s" % (mb[2], mb[4], top, sched_txt), payload)
        before = max([l[3] for l in (dump0.get("links") or []) if l[2] == inbox[0]], default=0)
        added = sorted(l[3] for l in links if l[2] == inbox[0] and l[3] > before)
        if len(set(added)) != len(added) or sorted(int(u) for u, _ in pairs) != sorted(l[3] for l in links if l[2] == inbox[0]):
            chk.violation("UID FETCH and the store disagree about INBOX after schedule %s" % sched_txt, payload)
        # model term: only the hold points that were really reached take part in the schedule
        mbs = dump0.get("mailboxes") or []
        e = [C.coq_list(envs[k]) if k in reached else "[]" for k in range(4)]
        late = [x for k in range(4) if k not in reached for x in envs[k]]
        mv = C.coq_list(["(%d, %s, %s, %d)" % (x[0], C.coq_str(x[2]), C.coq_z(x[3]), x[4]) for x in (dump.get("mailboxes") or [])])
        lv = C.coq_list(["(%d, %d, %d, %d, %s)" % (l[0], l[1], l[2], l[3], coq_flags(C.unlatin(l[4]).split())) for l in links])
        terms.append("((init5 %s), %s, %s, %s, %s, %s, (%s, %s, %s))" % (" ".join(C.coq_z(x[3]) for x in mbs), e[0], e[1], e[2], e[3], C.coq_list(late), rtxt, mv, lv))
        ok_idx.append(n)
    if not terms:
        return
    body = C.COQ_CASE_HEADER + "From Raven Require Import Model.Store Model.Ops Spec.UidSpec Model.UidView Model.AppendSched.\nLocal Open Scope Z_scope.\n"
    body += "Definition cases : list (store * list op * list op * list op * list op * list op * obs_step) := [\n%s].\n" % ";\n".join(terms)
    body += "Definition res := Eval vm_compute in map eval_sched cases.\nPrint res.\n"
    rc, log = C.coq_eval_cases(PID + "_sched", body)
    txt = C.parse_coq_list_out(log, "res") if rc == 0 else None
    if txt is None:
        chk.broken_obligation("in-Coq evaluation of the C03 sched cases failed:\n" + log[-2000:])
        return
    vals = re.findall(r"true|false", txt)
    for n, val in zip(ok_idx, vals):
        if val != "true":
            stats["diff"] += 1
            if not stats.get("real"):
                chk.broken_obligation("correspondence sched no longer checks: the statement-level model of APPEND (Model/AppendSched.v) and the implementation differ under schedule %r" % (plans[n],),
                                      {"suite": "sched", "plan": plans[n], "points": SCHED_POINTS})


# --------------------------------------------------------------------------
# suite "sched2": the Junk move and UID COPY held before the statements around
# their BEGIN while a SEQUENCE of other complete writers runs on the destination

SPAM_SEQS = {
    # the seeded C03-4 schedule: two deliveries allocate UIDs 3 and 4 in Spam, another session expunges UID 3
    "deliver,deliver,expunge3": [("deliver_spam",), ("deliver_spam",), ("expunge", 3)],
    "append,uidcopy,expunge4": [("append_spam",), ("uidcopy_spam", 1), ("expunge", 4)],
    "junkmove,deliver": [("junk_move", 2), ("deliver_spam",)],
}
INBOX_SEQS = {
    # the seeded C08-5 window: a writer adds to INBOX between RENAME INBOX's reads and its transaction
    "deliver": [("deliver_inbox",)],
    "deliver,deliver,expunge3": [("deliver_inbox",), ("deliver_inbox",), ("expunge_inbox", 3)],
    "append,uidcopy": [("append_inbox",), ("uidcopy_inbox", 2)],
}
HOLDERS2 = {"move": "UID STORE 1 +FLAGS (Junk)", "uidcopy": "UID COPY 1:2 Spam", "rename_inbox": "RENAME INBOX R1"}
SEQS_OF = {"move": "SPAM", "uidcopy": "SPAM", "rename_inbox": "INBOX"}
SLOTS2 = ["before_lookup", "before_begin", "first_tx_statement"]     # positions iB-1, iB, iB+1 around BEGIN


def other2(spec, j):
    kind = spec[0]
    if kind == "deliver_spam":
        return ([{"conn": "l0", "steps": [{"data": "MAIL FROM:<a@example.com>\r\n", "until": "lmtp:1"},
                                          {"data": "RCPT TO:<%s>\r\n" % USER, "until": "lmtp:1"},
                                          {"data": "DATA\r\n", "until": "lmtp:1"},
                                          {"data": "X-Spam-Status: Yes, score=9\r\n" + sched_msg(300 + j) + ".\r\n", "until": "lmtp:1"}]}],
                ["(ODeliver SPAM 0)"])
    if kind == "append_spam":
        return ([{"conn": "c2", "steps": sched_append_steps("o%d" % j, "Spam", 400 + j)}], ["(OAppend SPAM [])"])
    if kind == "uidcopy_spam":
        return ([{"conn": "c2", "steps": [{"data": "o%d UID COPY %d Spam\r\n" % (j, spec[1]), "until": "tag:o%d" % j}]}],
                ["(OUidCopy 4 [(UOne %d)] SPAM)" % spec[1]])
    if kind == "junk_move":
        return ([{"conn": "c2", "steps": [{"data": "o%d UID STORE %d +FLAGS (Junk)\r\n" % (j, spec[1]), "until": "tag:o%d" % j}]}],
                ["(OUidStore 4 [(UOne %d)] SAdd [JUNK])" % spec[1]])
    if kind == "deliver_inbox":
        return ([{"conn": "l0", "steps": [{"data": "MAIL FROM:<a@example.com>\r\n", "until": "lmtp:1"},
                                          {"data": "RCPT TO:<%s>\r\n" % USER, "until": "lmtp:1"},
                                          {"data": "DATA\r\n", "until": "lmtp:1"},
                                          {"data": sched_msg(500 + j) + ".\r\n", "until": "lmtp:1"}]}],
                ["(ODeliver INBOX 0)"])
    if kind == "append_inbox":
        return ([{"conn": "c2", "steps": sched_append_steps("o%d" % j, "INBOX", 600 + j)}], ["(OAppend INBOX [])"])
    if kind == "uidcopy_inbox":
        return ([{"conn": "c2", "steps": [{"data": "o%d UID COPY %d INBOX\r\n" % (j, spec[1]), "until": "tag:o%d" % j}]}],
                ["(OUidCopy 4 [(UOne %d)] INBOX)" % spec[1]])
    if kind == "expunge_inbox":      # c3 has INBOX selected in the RENAME INBOX scenarios
        return ([{"conn": "c3", "steps": [{"data": "o%d UID STORE %d +FLAGS (\\Deleted)\r\n" % (j, spec[1]), "until": "tag:o%d" % j},
                                          {"data": "x%d EXPUNGE\r\n" % j, "until": "tag:x%d" % j}]}],
                ["(OUidStore 1 [(UOne %d)] SAdd [(S_ \"\\Deleted\")])" % spec[1], "(OExpunge 1)"])
    if kind == "expunge":
        return ([{"conn": "c3", "steps": [{"data": "o%d UID STORE %d +FLAGS (\\Deleted)\r\n" % (j, spec[1]), "until": "tag:o%d" % j},
                                          {"data": "x%d EXPUNGE\r\n" % j, "until": "tag:x%d" % j}]}],
                ["(OUidStore 5 [(UOne %d)] SAdd [(S_ \"\\Deleted\")])" % spec[1], "(OExpunge 5)"])
    raise ValueError(kind)


def sched2_prefix(c3_folder="Spam"):
    ops = []
    for c in ("c1", "c2", "c3"):
        ops += [{"op": "open", "conn": c}, {"op": "send", "conn": c, "data": "i%s LOGIN %s pw\r\n" % (c, USER), "until": "tag:i" + c}]
    ops += [{"op": "lmtp_open", "conn": "l0"}, {"op": "send", "conn": "l0", "data": "LHLO x\r\n", "until": "lmtp:1"}]
    n = 0
    for folder, conn, cnt in (("INBOX", "c1", 2), ("Trash", "c2", 4), ("Spam", "c2", 2)):
        for _ in range(cnt):
            for st in sched_append_steps("p%d" % n, folder, 10 + n):
                ops.append(dict(st, op="send", conn=conn))
            n += 1
    ops += [{"op": "send", "conn": "c1", "data": "s1 SELECT INBOX\r\n", "until": "tag:s1"},
            {"op": "send", "conn": "c2", "data": "s2 SELECT Trash\r\n", "until": "tag:s2"},
            {"op": "send", "conn": "c3", "data": "s3 SELECT %s\r\n" % c3_folder, "until": "tag:s3"},
            {"op": "dump"},
            {"op": "c03_gate_install", "user": USER}]
    return ops


def sched2_ops(holder, at, seq):
    ops = sched2_prefix("INBOX" if holder == "rename_inbox" else "Spam")
    others, mops = [], []
    for j, spec in enumerate(seq):
        ths, mo = other2(spec, j)
        others += ths
        mops += mo
    ops.append({"op": "c03_hold", "dumps": True, "timeout_ms": 10000,
                "holder": {"conn": "c1", "steps": [{"data": "h1 %s\r\n" % HOLDERS2[holder], "until": "tag:h1"}]},
                "others": others, "holds": ([{"at": at, "run": list(range(len(others)))}] if at is not None else [])})
    ops.append({"op": "dump"})
    return ops, mops


class GhostLog:
    """Observation-only log of ever-assigned (mailbox name, UIDVALIDITY, UID) -> message instance
    over a series of dumps of the user's store; returns the violations each new dump shows."""

    def __init__(self):
        self.inst_of, self.g_inst, self.g_maxuid, self.g_next, self.serial = {}, {}, {}, {}, 0

    def step(self, dump):
        out = []
        by_id = {m[0]: m for m in (dump.get("mailboxes") or [])}
        links = dump.get("links") or []
        new_inst, fresh = {}, []
        for l in links:
            old = self.inst_of.get(l[0])
            if old is not None and old[0] == l[1] and old[1] == l[3] and old[3] == l[2]:
                new_inst[l[0]] = old
            else:
                self.serial += 1
                new_inst[l[0]] = (l[1], l[3], self.serial, l[2])
                fresh.append(l)
        for l in fresh:
            mb = by_id.get(l[2])
            if mb is not None:
                key = (mb[2], mb[3])
                if key in self.g_maxuid and l[3] <= self.g_maxuid[key]:
                    out.append("a message added to %s (UIDVALIDITY %d) got UID %d although UID %d had been used there" % (mb[2], mb[3], l[3], self.g_maxuid[key]))
        self.inst_of = new_inst
        seen = set()
        for l in links:
            mb = by_id.get(l[2])
            if mb is None:
                continue
            key3 = (mb[2], mb[3], l[3])
            ins = new_inst[l[0]][2]
            if key3 in self.g_inst and self.g_inst[key3] != ins:
                out.append("UID %d of %s (UIDVALIDITY %d) was given to a second message (message row %d)" % (l[3], mb[2], mb[3], l[1]))
            self.g_inst[key3] = ins
            self.g_maxuid[(mb[2], mb[3])] = max(self.g_maxuid.get((mb[2], mb[3]), 0), l[3])
            if (l[2], l[3]) in seen:
                out.append("two rows with UID %d in %s" % (l[3], mb[2]))
            seen.add((l[2], l[3]))
        for mb in (dump.get("mailboxes") or []):
            key = (mb[2], mb[3])
            if key in self.g_maxuid and mb[4] <= self.g_maxuid[key]:
                out.append("%s (UIDVALIDITY %d) advertises UIDNEXT %d, UID %d exists or existed" % (mb[2], mb[3], mb[4], self.g_maxuid[key]))
            if key in self.g_next and mb[4] < self.g_next[key]:
                out.append("UIDNEXT of %s (UIDVALIDITY %d) went back from %d to %d" % (mb[2], mb[3], self.g_next[key], mb[4]))
            self.g_next[key] = mb[4]
        return out


def probe_rename_window(chk):
    """RENAME INBOX R1 held at its BEGIN while another session writes to the just created R1.
    (a) INBOX empty, APPEND R1: regression of raven 8552cfb (the target's counter was overwritten
        downward) — must pass.
    (b) INBOX holds UID 1; APPEND R1, STORE 1 \\Deleted, EXPUNGE: known finding
        rename_inbox_target_uid_reused_in_window (no row is left for UNIQUE to refuse)."""
    for variant in ("a", "b"):
        ops = []
        for c in ("c1", "c2"):
            ops += [{"op": "open", "conn": c}, {"op": "send", "conn": c, "data": "i%s LOGIN %s pw\r\n" % (c, USER), "until": "tag:i" + c}]
        if variant == "b":
            for st in sched_append_steps("p1", "INBOX", 10):
                ops.append(dict(st, op="send", conn="c1"))
        ops += [{"op": "dump"}, {"op": "c03_gate_install", "user": USER}]
        dry = C.run_ops(ops + [{"op": "c03_hold", "holder": {"conn": "c1", "steps": [{"data": "h1 RENAME INBOX R1\r\n", "until": "tag:h1"}]}, "others": [], "holds": []}], timeout=120)
        try:
            at = dry["obs"][-1]["points"].index("B")
        except Exception:
            continue
        others = [{"conn": "c2", "steps": sched_append_steps("o1", "R1", 700)}]
        if variant == "b":
            others.append({"conn": "c2", "steps": [{"data": "o2 SELECT R1\r\n", "until": "tag:o2"},
                                                   {"data": "o3 UID STORE 1 +FLAGS (\\Deleted)\r\n", "until": "tag:o3"},
                                                   {"data": "o4 EXPUNGE\r\n", "until": "tag:o4"}]})
        ops.append({"op": "c03_hold", "dumps": True,
                    "holder": {"conn": "c1", "steps": [{"data": "h1 RENAME INBOX R1\r\n", "until": "tag:h1"}]},
                    "others": others, "holds": [{"at": at, "run": list(range(len(others)))}]})
        ops.append({"op": "dump"})
        r = C.run_ops(ops, timeout=120)
        if r.get("crashed") or len(r.get("obs", [])) != len(ops):
            continue
        ghost = GhostLog()
        viols = ghost.step(user_store(r["obs"][-4]))
        for st in (r["obs"][-2].get("dumps") or []):
            viols += ghost.step(user_store({"stores": st}))
        viols += ghost.step(user_store(r["obs"][-1]))
        if viols and variant == "a":
            chk.violation("RENAME INBOX R1 (INBOX empty) held at BEGIN while another session runs APPEND R1: %s" % viols[0],
                          {"suite": "rename_window", "variant": "a"})
        elif viols:
            chk.violation("RENAME INBOX R1 (INBOX holds UID 1) held at BEGIN while another session runs APPEND R1; STORE 1 \\Deleted; EXPUNGE: %s" % viols[-1],
                          {"suite": "rename_window", "variant": "b"}, cls="rename_inbox_target_uid_reused_in_window")


def seq_specs(h, seq):
    if not isinstance(seq, str):
        return seq
    return (INBOX_SEQS if SEQS_OF[h] == "INBOX" else SPAM_SEQS)[seq]


def run_sched2(chk, cases, stats):
    """cases: list of (holder, slot name, sequence name or list of specs)."""
    # where is BEGIN among the gate points of each held command on THIS tree?
    dry = C.run_many([sched2_ops(h, None, [])[0] for h in HOLDERS2], workers=4, timeout=120)
    ib = {}
    for h, r in zip(HOLDERS2, dry):
        try:
            pts = r["obs"][-2]["points"]
            ib[h] = (pts.index("B"), pts)
        except Exception:
            chk.broken_obligation("sched2: could not determine the statements of %s on this tree: %s" % (HOLDERS2[h], str(r)[-300:]), {"suite": "sched2"})
            return
    built = []
    for (h, slot, seq) in cases:
        specs = seq_specs(h, seq)
        at = ib[h][0] - 1 + SLOTS2.index(slot)
        built.append(sched2_ops(h, at, specs))
    res = C.run_many([b[0] for b in built], workers=12, timeout=300)
    terms, ok_idx = [], []
    for n, ((h, slot, seq), (ops, mops), r) in enumerate(zip(cases, built, res)):
        specs = seq_specs(h, seq)
        payload = {"suite": "sched2", "holder": h, "slot": slot, "sequence": [list(x) for x in specs], "gate_points": ib[h][1]}
        if r.get("crashed") or len(r.get("obs", [])) != len(ops) or r["obs"][-2].get("error"):
            r = C.run_ops(ops, timeout=300)
        if r.get("crashed") or len(r.get("obs", [])) != len(ops) or r["obs"][-2].get("error"):
            chk.broken_obligation("sched2 scenario could not be run: %s" % str(r.get("obs", [{}])[-2:])[-300:], payload)
            continue
        obs = r["obs"]
        hold = obs[-2]
        stats["sched2"] = stats.get("sched2", 0) + 1
        txt = "%s held at %s (gate %d of %s) while [%s] run" % (HOLDERS2[h], slot, ib[h][0] - 1 + SLOTS2.index(slot), " ".join(ib[h][1]), "; ".join(" ".join(str(y) for y in x) for x in specs))
        ghost = GhostLog()
        viols = ghost.step(user_store(obs[-4]))
        for st in (hold.get("dumps") or []):
            viols += ghost.step(user_store({"stores": st}))
        final = user_store(obs[-1])
        viols += ghost.step(final)
        if viols:
            chk.violation("%s  [schedule: %s]" % (viols[0], txt), dict(payload, all=viols[:6]))
            stats["real"] = stats.get("real", 0) + 1
        replies = [reply_class(tagged(hold["holder"][-1]["recv"], "h1"))]
        reached = bool(hold.get("reached"))
        mbs = user_store(obs[-4]).get("mailboxes") or []
        env = C.coq_list(mops) if reached else "[]"
        late = "[]" if reached else C.coq_list(mops)
        mv = C.coq_list(["(%d, %s, %s, %d)" % (x[0], C.coq_str(x[2]), C.coq_z(x[3]), x[4]) for x in (final.get("mailboxes") or [])])
        lv = C.coq_list(["(%d, %d, %d, %d, %s)" % (l[0], l[1], l[2], l[3], coq_flags(C.unlatin(l[4]).split())) for l in (final.get("links") or [])])
        newrow = [x for x in (final.get("mailboxes") or []) if x[2] == "R1"]
        hterm = {"move": "HMove", "uidcopy": "HUidCopy", "rename_inbox": "(HRenameInbox %s)" % C.coq_z(newrow[0][3] if newrow else 0)}[h]
        terms.append("((init5 %s), %s, %d, %s, %s, %s, %s)" % (" ".join(C.coq_z(x[3]) for x in mbs[:5]), hterm,
                                                               0 if slot == "before_lookup" else 1, env, late, mv, lv))
        ok_idx.append(n)
    if not terms:
        return
    body = C.COQ_CASE_HEADER + "From Raven Require Import Model.Store Model.Ops Spec.UidSpec Model.UidView Model.MoveSched.\nLocal Open Scope Z_scope.\n"
    body += "Definition cases : list (store * holder * Z * list op * list op * list mview * list lview) := [\n%s].\n" % ";\n".join(terms)
    body += "Definition res := Eval vm_compute in map eval_sched2 cases.\nPrint res.\n"
    rc, log = C.coq_eval_cases(PID + "_sched2", body)
    txt = C.parse_coq_list_out(log, "res") if rc == 0 else None
    if txt is None:
        chk.broken_obligation("in-Coq evaluation of the C03 sched2 cases failed:\n" + log[-2000:])
        return
    for n, val in zip(ok_idx, re.findall(r"true|false", txt)):
        if val != "true":
            stats["diff"] += 1
            if not stats.get("real"):
                h, slot, seq = cases[n]
                chk.broken_obligation("correspondence sched2 no longer checks: the statement-level model (Model/MoveSched.v) and the implementation differ for %s held at %s with other writers %r" % (HOLDERS2[h], slot, seq),
                                      {"suite": "sched2", "holder": h, "slot": slot, "sequence": [list(x) for x in seq_specs(h, seq)]})


def rename_inbox_family():
    """RENAME INBOX onto an EXISTING name, in every relation between the two
    mailboxes that matters for UIDs: target never used / used and emptied
    (STORE \\Deleted + EXPUNGE) / non-empty, with k messages ever added to it, and
    i messages in INBOX (so uid_next of INBOX is below, equal to or above the
    target's), followed by APPEND / delivery into both and a look at both.
    raven refuses such a RENAME; a change that lets it through must keep the
    target's UIDs and UIDNEXT intact. Returns [(label, script)]."""
    out = []
    for target in ("A", "Trash"):
        for tstate, k in (("fresh", 0), ("emptied", 1), ("emptied", 3), ("nonempty", 1), ("nonempty", 3)):
            for i in (0, 1, 2, 4):
                sc = []
                if target == "A":
                    sc.append({"k": "create", "s": "c1", "name": "A"})
                for _ in range(k):
                    sc.append({"k": "append", "s": "c2", "folder": target, "flags": []})
                if tstate == "emptied":
                    sc += [{"k": "select", "s": "c2", "name": target},
                           {"k": "uidstore", "s": "c2", "set": [["range", 1, k]], "mode": "+", "flags": ["\\Deleted"]},
                           {"k": "expunge", "s": "c2"},
                           {"k": "status", "s": "c2", "name": target}]
                for n in range(i):
                    sc.append({"k": "append", "s": "c1", "folder": "INBOX", "flags": []} if n % 2 == 0 else {"k": "deliver", "folder": "INBOX"})
                sc += [{"k": "rename", "s": "c1", "old": "INBOX" if (i + k) % 2 == 0 else "inbox", "new": target},
                       {"k": "status", "s": "c1", "name": target},
                       {"k": "status", "s": "c1", "name": "INBOX"},
                       {"k": "append", "s": "c1", "folder": target, "flags": []},
                       {"k": "deliver", "folder": "INBOX"},
                       {"k": "append", "s": "c2", "folder": "INBOX", "flags": []},
                       {"k": "append", "s": "c2", "folder": target, "flags": []},
                       {"k": "status", "s": "c1", "name": target},
                       {"k": "select", "s": "c1", "name": target},
                       {"k": "uidfetch", "s": "c1"},
                       {"k": "select", "s": "c2", "name": "INBOX"},
                       {"k": "uidfetch", "s": "c2"}]
                out.append(("rename_inbox_onto_existing:%s:%s:k=%d:i=%d" % (target, tstate, k, i), sc))
    return out


def hier_family():
    """Mailbox hierarchies (outside the scope of the C03 theorems, inside the shared
    model): implied parents of CREATE and RENAME (created inside the RENAME
    transaction), children renamed with their parent, RENAME a a/b, RENAME INBOX
    x/y, the Roles namespace, case variants of INBOX as parents, DELETE of a
    mailbox with children.  Only the correspondence with the model is checked
    on them (and the observation-only spec)."""
    def c(k, **kw):
        return dict(kw, k=k, s="c1")
    return [
        ("hier:create_parents", [c("create", name="a/b/c"), c("append", folder="a/b", flags=[]), c("status", name="a/b"),
                                 c("create", name="a/b/d/"), c("delete", name="a/b"), c("delete", name="a/b/c"), c("create", name="a/b/c")]),
        ("hier:rename_children", [c("create", name="a"), c("create", name="a/x"), c("append", folder="a/x", flags=[]), c("append", folder="a", flags=[]),
                                  c("rename", old="a", new="p/q"), c("status", name="p/q/x"), c("append", folder="p/q/x", flags=[]),
                                  c("append", folder="p", flags=[]), c("rename", old="p/q", new="a"), c("append", folder="a/x", flags=[])]),
        ("hier:rename_into_child", [c("create", name="a"), c("create", name="a/x"), c("append", folder="a", flags=[]),
                                    c("rename", old="a", new="a/b"), c("append", folder="a/b", flags=[]), c("status", name="a/b")]),
        ("hier:rename_inbox_parents", [c("append", folder="INBOX", flags=[]), c("rename", old="INBOX", new="x/y"), c("status", name="x/y"),
                                       c("append", folder="x/y", flags=[]), c("append", folder="x", flags=[]), c("append", folder="INBOX", flags=[])]),
        ("hier:roles_and_inbox_parent", [c("create", name="Roles/x"), c("create", name="Roles"), c("rename", old="Trash", new="Roles/t"),
                                         c("create", name="inbox/sub"), c("append", folder="inbox/sub", flags=[]), c("create", name="/lead"),
                                         c("rename", old="Spam", new="/y")]),
        ("hier:delete_defaults", [c("delete", name="sent"), c("delete", name="Sent"), c("create", name="sent"), c("delete", name="sent"),
                                  c("delete", name="Spam"), c("deliver", folder="Spam"), c("status", name="Spam")]),
    ]


def unclassified_violation(sc, ev):
    """First observed violation of the property in an evaluated scenario that no
    listed class accounts for: text, or None."""
    d, ci, cc, flat, mspec = ev
    if sc.viol:
        j, kind, detail = sc.viol[0]
        if not (ci >= 0 and ci <= j and CLASS_NAMES.get(cc)):
            return "%s after step %d (%s): %s" % (kind, j, json.dumps(sc.script[sc.step_of[j]]), detail)
    if sc.proto:
        return "protocol answer disagrees with the store at script step %d: %s" % sc.proto[0]
    return None


_family_cache = {}


def search_failing_input(sc, d):
    """After a model/implementation difference without an observed violation:
    look (implementation + observation-only spec) for a history that violates
    the property itself. Neighbourhood: the differing history cut after the
    differing step and continued with APPEND/delivery into every mailbox it
    names, and the structured families. Returns (script, text, label) or None."""
    cands = []
    cut = sc.step_of[d] + 1 if d < len(sc.step_of) else len(sc.script)
    prefix = [st for st in sc.script[:cut]]
    names = ["INBOX"]
    for st in prefix:
        for key in ("folder", "dest", "name", "new", "old"):
            v = st.get(key)
            if v and v.upper() != "INBOX" and v not in names and v not in ("Sent", "Drafts"):
                names.append(v)
    follow = []
    for rnd in range(2):
        for nm in names:
            follow.append({"k": "append", "s": "c1", "folder": nm, "flags": []})
        follow.append({"k": "deliver", "folder": "INBOX"})
    for nm in names:
        follow.append({"k": "status", "s": "c1", "name": nm})
    cands.append(("continuation of the differing history", prefix + follow))
    if "family" not in _family_cache:
        _family_cache["family"] = rename_inbox_family()
    cands += _family_cache["family"]
    scens = run_scripts([s for _, s in cands])
    ok = [(lab, x) for (lab, _), x in zip(cands, scens) if not x.trouble]
    if not ok:
        return None
    evs, log = evaluate([x for _, x in ok], PID + "_search")
    if evs is None:
        return None
    for (lab, x), ev in zip(ok, evs):
        what = unclassified_violation(x, ev)
        if what:
            return x.script, what, lab
    return None


def judge(chk, sc, ev, origin, stats):
    """Apply the decision rule to one evaluated scenario."""
    d, ci, cc, flat, mspec = ev
    cname = CLASS_NAMES.get(cc)
    if len(chk.violations) >= 6:          # enough replay files for one run; keep counting
        if sc.viol and not (ci >= 0 and ci <= sc.viol[0][0] and cname):
            stats["more"] = stats.get("more", 0) + 1
        if d >= 0:
            stats["diff"] += 1
            stats["more"] = stats.get("more", 0) + 1
        return
    payload = {"suite": "uidhist", "origin": origin, "script": sc.script}
    first_v = sc.viol[0] if sc.viol else None
    if first_v is not None:
        j, kind, detail = first_v
        step = sc.script[sc.step_of[j]]
        what = "%s after step %d (%s): %s" % (kind, j, json.dumps(step), detail)
        if ci >= 0 and ci <= j and cname:
            cstep = sc.script[sc.step_of[ci]]
            chk.violation("history with %s at step %d: %s" % (cstep["k"], ci, detail), payload, cls=cname)
            stats["known"][cname] = stats["known"].get(cname, 0) + 1
        else:
            chk.violation(what, payload)
            stats["real"] = stats.get("real", 0) + 1
    for (i, detail) in sc.proto[:2]:
        chk.violation("protocol answer disagrees with the store at script step %d: %s" % (i, detail), payload)
        stats["real"] = stats.get("real", 0) + 1
    if d >= 0:
        stats["diff"] += 1
        unclassified = first_v is not None and not (ci >= 0 and ci <= first_v[0])
        if not unclassified and not sc.proto:
            step = sc.script[sc.step_of[d]] if d < len(sc.step_of) else None
            if stats.get("real"):
                # a failing input of the property itself is already written out in this run
                stats["more"] = stats.get("more", 0) + 1
                return
            found = None if stats.get("searches", 0) >= 3 else search_failing_input(sc, d)
            stats["searches"] = stats.get("searches", 0) + 1
            if found:
                fscript, fwhat, flabel = found
                chk.violation("%s  [failing input found by the search (%s) after model and implementation differed at step %d %s]" % (fwhat, flabel, d, json.dumps(step)),
                              {"suite": "uidhist", "origin": "search:" + flabel, "script": fscript, "differing_history": sc.script})
                stats["real"] = stats.get("real", 0) + 1
                return
            chk.broken_obligation("correspondence uidhist no longer checks: model (Model/Ops.v) and implementation differ after step %d %s (tables mailboxes/message_mailbox or reply class); no violation of the property itself was observed in this history" % (d, json.dumps(step)),
                                  dict(payload, model_step=d, model_op=sc.model_ops[d] if d < len(sc.model_ops) else None,
                                       observed=sc.obs_steps[d] if d < len(sc.obs_steps) else None))
    else:
        # model == implementation on every step: the two implementations of the
        # spec (Coq spec_b on the model's ghost log, Python on the dumps) should agree
        ov = first_v[0] if first_v else -1
        if (ov >= 0) != (mspec >= 0):
            stats["spec_disagree"] += 1
            chk.notes.append("spec implementations disagree on %s history (coq first=%d, observed first=%d)" % (origin, mspec, ov))
        if ci < 0 and flat == 1:
            stats["clean"] += 1
            if first_v is None:
                stats["clean_ok"] += 1


def probe_copy():
    r = C.run_ops(driver_ops([{"k": "append", "s": "c1", "folder": "INBOX", "flags": []},
                              {"k": "select", "s": "c1", "name": "INBOX"},
                              {"k": "copy", "s": "c1", "set": [["one", 1]], "dest": "Trash"}])[0])
    try:
        return reply_class(tagged(r["obs"][-2]["recv"], "t2")) == "OK"
    except Exception:
        return False


def corpus_scripts():
    out = []
    for f in sorted(glob.glob(os.path.join(C.VERIF, "corpus", PID, "*.json"))):
        d = json.load(open(f))
        out.append((os.path.basename(f), d))
    return out


def run(chk):
    quick = chk.tier == "quick"
    copy_ok = probe_copy()
    stats = {"known": {}, "diff": 0, "clean": 0, "clean_ok": 0, "spec_disagree": 0}
    # ---- 1. corpus witnesses
    corp = corpus_scripts()
    scens = run_scripts([d["script"] for _, d in corp])
    bad = [sc for sc in scens if sc.trouble]
    if bad:
        chk.broken_obligation("corpus witness could not be replayed: " + bad[0].trouble, {"suite": "corpus"})
        return
    evs, log = evaluate(scens, PID + "_corpus")
    if evs is None:
        chk.broken_obligation("in-Coq evaluation of the C03 corpus failed:\n" + log[-2000:])
        return
    for (fname, d), sc, ev in zip(corp, scens, evs):
        judge(chk, sc, ev, "corpus/" + fname, stats)
    n_eval = sum(len(sc.model_ops) for sc in scens)
    # ---- 1b. statement-level schedules of APPEND against other writers
    plans = [[(k, [kind])] for k in range(len(SCHED_POINTS)) for kind in OTHER_KINDS]
    if not quick:
        for _ in range(80):
            ks = sorted(chk.rng.sample(range(len(SCHED_POINTS)), chk.rng.randint(1, 3)))
            plans.append([(k, [chk.rng.choice(OTHER_KINDS) for _ in range(chk.rng.randint(1, 2))]) for k in ks])
    plans = [[(k, list(kinds)) for k, kinds in p] for p in plans]
    run_sched(chk, plans, stats)
    cases2 = [(h, slot, seq) for h in HOLDERS2 for slot in SLOTS2 for seq in (INBOX_SEQS if SEQS_OF[h] == "INBOX" else SPAM_SEQS)]
    if not quick:
        kinds2 = [("deliver_spam",), ("append_spam",), ("uidcopy_spam", 1), ("uidcopy_spam", 2), ("junk_move", 3), ("junk_move", 4),
                  ("expunge", 1), ("expunge", 3), ("expunge", 4), ("expunge", 5)]
        for _ in range(60):
            cases2.append((chk.rng.choice(["move", "uidcopy"]), chk.rng.choice(SLOTS2), [chk.rng.choice(kinds2) for _ in range(chk.rng.randint(2, 5))]))
        kinds3 = [("deliver_inbox",), ("append_inbox",), ("uidcopy_inbox", 1), ("uidcopy_inbox", 3), ("expunge_inbox", 1), ("expunge_inbox", 3), ("expunge_inbox", 4)]
        for _ in range(30):
            cases2.append(("rename_inbox", chk.rng.choice(SLOTS2), [chk.rng.choice(kinds3) for _ in range(chk.rng.randint(1, 4))]))
    run_sched2(chk, cases2, stats)
    probe_rename_window(chk)
    # ---- 2. random histories
    n_rand, n_clean, length = (40, 24, 22) if quick else (700, 300, 40)
    fam = rename_inbox_family()
    scripts = list(fam) if not quick else chk.rng.sample(fam, 10)       # structured family first
    scripts += hier_family()
    scripts += [("random", gen_history(chk.rng, length, False, copy_ok)) for _ in range(n_rand)]
    scripts += [("clean", gen_history(chk.rng, length, True, copy_ok)) for _ in range(n_clean)]
    kinds = {}
    adds = 0
    batch = 64
    sample_done = False
    for b in range(0, len(scripts), batch):
        part = scripts[b:b + batch]
        scens = run_scripts([s for _, s in part])
        good = []
        for (origin, s), sc in zip(part, scens):
            if sc.trouble:
                chk.broken_obligation("scenario could not be run: " + sc.trouble, {"suite": "uidhist", "script": s})
            else:
                good.append((origin, sc))
        if not good:
            continue
        evs, log = evaluate([sc for _, sc in good], "%s_%d" % (PID, b))
        if evs is None:
            chk.broken_obligation("in-Coq evaluation of the C03 cases failed:\n" + log[-2000:])
            return
        for (origin, sc), ev in zip(good, evs):
            judge(chk, sc, ev, origin, stats)
            n_eval += len(sc.model_ops)
            adds += sc.adds
            for i in sc.step_of:
                kk = sc.script[i]["k"]
                kinds[kk] = kinds.get(kk, 0) + 1
            if not sample_done:
                chk.sample({"history": [sc.script[i] for i in sc.step_of][:8], "model_vs_impl_first_difference": ev[0],
                            "first_class_step": ev[1], "class": CLASS_NAMES.get(ev[2])})
                sample_done = True
    chk.cov["evaluations"] = n_eval
    chk.cov["histories"] = len(scripts) + len(corp)
    chk.cov["distinct_nontrivial"] = adds
    chk.cov["rule"] = ("one evaluation = one operation of a history executed on the implementation through IMAP/LMTP and on Model/Ops.v inside Coq (vm_compute), "
                       "with the full tables mailboxes(id,name,uid_validity,uid_next) and message_mailbox(id,message_id,mailbox_id,uid,flags as a set) and the reply class/APPENDUID compared after the operation; "
                       "distinct_nontrivial = number of message instances added (link insertions observed) over all histories")
    chk.cov["traces_validated_against_impl"] = n_eval
    chk.cov["disagreements_checked"] = stats["diff"]
    chk.cov["ops_by_kind"] = kinds
    chk.cov["plain_copy_reachable"] = copy_ok
    chk.cov["append_schedules_run"] = stats.get("sched", 0)
    chk.cov["append_statement_points"] = SCHED_POINTS
    chk.cov["move_copy_schedules_run"] = stats.get("sched2", 0)
    if stats.get("sched_points"):
        chk.notes.append("APPEND reached its gate points in an order other than %s: %s" % (SCHED_POINTS, sorted(stats["sched_points"])))
    chk.cov["rename_inbox_onto_existing_histories"] = len(fam) if not quick else 10
    chk.cov["clean_histories"] = stats["clean"]
    chk.cov["clean_histories_spec_holds_on_impl"] = stats["clean_ok"]
    chk.cov["known_class_hits"] = stats["known"]
    chk.cov["spec_impl_disagreements"] = stats["spec_disagree"]
    if stats.get("more"):
        chk.notes.append("%d further histories with a violation or a model/implementation difference were not written out" % stats["more"])
    if stats["clean"] == 0:
        chk.broken_obligation("no generated history was in the scope of the positive theorems (generator or classifier broken)", {"suite": "uidhist"})


def replay(path):
    d = json.load(open(path))
    if d.get("suite") == "sched2":
        chk = C.Check(PID, "quick", 1)
        C.pregen_all()
        C.coq_make()
        stats = {"diff": 0}
        run_sched2(chk, [(d["holder"], d["slot"], [tuple(x) for x in d["sequence"]])], stats)
        for path, what, nofail in chk.violations:
            print("VIOLATION:", what)
        return 1 if chk.violations else 0
    if d.get("suite") == "sched":
        chk = C.Check(PID, "quick", 1)
        C.pregen_all()
        C.coq_make()
        stats = {"diff": 0}
        run_sched(chk, [[(k, list(kinds)) for k, kinds in d["plan"]]], stats)
        for path, what, nofail in chk.violations:
            print("VIOLATION:", what)
        return 1 if chk.violations else 0
    script = d.get("script")
    if not script:
        print(json.dumps(d, indent=1))
        return 0
    sc = run_scripts([script])[0]
    if sc.trouble:
        print("trouble:", sc.trouble)
        return 2
    rc, log = C.coq_make()
    evs, log = evaluate([sc], PID + "_replay")
    print("model-vs-impl first difference, first class step, class, flat, model spec first violation:", evs[0] if evs else log[-1500:])
    for j, op in enumerate(sc.model_ops):
        print("%2d %s" % (j, op))
    for v in sc.viol[:10]:
        print("observed violation:", v)
    for p in sc.proto[:10]:
        print("protocol:", p)
    return 1 if (sc.viol or sc.proto or (evs and evs[0][0] >= 0)) else 0
