"""C02 — stored messages are returned as they were submitted.

Correspondence of Model/MimeStore.v (+ MimeHeaders.v) with raven's parse /
store / rebuild path, observed where the property says: messages of the
grammar are serialised, submitted through IMAP APPEND and LMTP DATA, fetched
with BODY.PEEK[] twice (two sessions), parsed back by the strict parser below
and compared (inside Coq, vm_compute) with the model's prediction and with the
property's equivalence msg_equiv.  Independence is tested by submitting the
same messages in two worlds with different histories."""
import base64
import glob
import json
import os
import re

import common as C

A = "alice@example.com"
B = "bob@example.com"
CRLF = b"\r\n"

CLASSES = []   # every class of the first build was repaired (fixes/C02-1..6); nothing is excused


# ---------------------------------------------------------------------------
# message trees (python twin of Spec/Mime.v)
#   leaf : {"k":"leaf","type","charset","ctname","cte","disp","filename","cid","body"}   (values: bytes)
#   multi: {"k":"multi","subtype":bytes,"kids":[...]}
#   msg  : {"hdrs":[(name,value)], "body": ("single", bytes) | ("multi", subtype, kids)}

LEAF_FIELDS = ["type", "charset", "ctname", "cte", "disp", "filename", "cid", "body"]


def q(s):
    return b'"' + s + b'"'


def hdr_line(n, v):
    return n + b":" + v + CRLF


def leaf_headers(l):
    out = b""
    if l["type"]:
        v = b" " + l["type"]
        if l["charset"]:
            v += b"; charset=" + l["charset"]
        if l["ctname"]:
            v += b"; name=" + q(l["ctname"])
        out += hdr_line(b"Content-Type", v)
    if l["cte"]:
        out += hdr_line(b"Content-Transfer-Encoding", b" " + l["cte"])
    if l["disp"]:
        out += hdr_line(b"Content-Disposition", b" " + l["disp"])
    if l["cid"]:
        out += hdr_line(b"Content-ID", b" " + l["cid"])
    return out


def ser_mime(t, bds):
    if t["k"] == "leaf":
        return leaf_headers(t) + CRLF + t["body"]
    b = bds.pop(0)
    inner = b""
    for k in t["kids"]:
        inner += b"--" + b + CRLF + ser_mime(k, bds) + CRLF
    return (hdr_line(b"Content-Type", b" multipart/" + t["subtype"] + b"; boundary=" + q(b))
            + CRLF + inner + b"--" + b + b"--" + CRLF)


def serialize(m, bds):
    h = b"".join(hdr_line(n, v) for (n, v) in m["hdrs"])
    if m["body"][0] == "single":
        return h + CRLF + m["body"][1]
    return h + ser_mime({"k": "multi", "subtype": m["body"][1], "kids": m["body"][2]}, list(bds))


def count_containers(t):
    if t["k"] == "leaf":
        return 0
    return 1 + sum(count_containers(k) for k in t["kids"])


# ---------------------------------------------------------------------------
# strict parser (independent of raven and of the model)

class ParseError(Exception):
    pass


def parse_headers(block):
    """block: octets of the header section, each line CRLF-terminated."""
    hs = []
    if block == b"":
        return hs
    if not block.endswith(CRLF):
        raise ParseError("header block not CRLF terminated")
    lines = block[:-2].split(CRLF)
    for ln in lines:
        if b"\r" in ln or b"\n" in ln:
            raise ParseError("bare CR/LF in header")
        if ln[:1] in (b" ", b"\t"):
            if not hs:
                raise ParseError("continuation without field")
            hs[-1] = (hs[-1][0], hs[-1][1] + CRLF + ln)
        else:
            i = ln.find(b":")
            if i <= 0:
                raise ParseError("no field name: %r" % ln[:40])
            hs.append((ln[:i], ln[i + 1:]))
    return hs


def split_entity(octets):
    """-> (header list, body octets)"""
    if octets.startswith(CRLF):
        return [], octets[2:]
    i = octets.find(CRLF + CRLF)
    if i < 0:
        raise ParseError("no blank line after the header section")
    return parse_headers(octets[:i + 2]), octets[i + 4:]


def unfold(v):
    return re.sub(rb"\r\n([ \t])", rb"\1", v).strip(b" \t\r\n")


def params(v):
    """'type; k=v; k="v"' -> (type, {k: v})"""
    parts = []
    cur = b""
    inq = False
    for ch in [v[i:i + 1] for i in range(len(v))]:
        if ch == b'"':
            inq = not inq
            cur += ch
        elif ch == b";" and not inq:
            parts.append(cur)
            cur = b""
        else:
            cur += ch
    parts.append(cur)
    head = parts[0].strip()
    d = {}
    for p in parts[1:]:
        if b"=" not in p:
            if p.strip() == b"":
                continue
            raise ParseError("bad parameter %r" % p)
        k, val = p.split(b"=", 1)
        val = val.strip()
        if val.startswith(b'"') and val.endswith(b'"') and len(val) >= 2:
            val = val[1:-1]
        k = k.strip().lower()
        if k not in d:
            d[k] = val
    return head, d


def get(hs, lname):
    for (n, v) in hs:
        if n.strip().lower() == lname:
            return unfold(v)
    return None


def split_multipart(body, boundary):
    """RFC 2046 5.1.1: delimiter = CRLF "--" boundary, at the start of a line;
    the CRLF belongs to the delimiter. Returns the list of part octets."""
    delim = b"--" + boundary
    text = CRLF + body
    pos = 0
    marks = []
    closed = False
    while True:
        i = text.find(CRLF + delim, pos)
        if i < 0:
            break
        j = i + 2 + len(delim)
        rest_end = text.find(CRLF, j)
        tail = text[j:rest_end if rest_end >= 0 else len(text)]
        if tail.strip(b" \t") == b"":
            if rest_end < 0:
                raise ParseError("delimiter line not terminated")
            marks.append((i, rest_end + 2, False))
            pos = rest_end   # the CRLF ending this line may start the next delimiter
        elif tail.startswith(b"--") and tail[2:].strip(b" \t") == b"":
            marks.append((i, (rest_end + 2) if rest_end >= 0 else len(text), True))
            closed = True
            break
        else:
            pos = i + 2
    if not marks or not closed:
        raise ParseError("multipart without %s delimiter" % ("closing" if marks else "any"))
    parts = []
    for a, b in zip(marks, marks[1:]):
        parts.append(text[a[1]:b[0]])
    return parts


def parse_part(octets):
    hs, body = split_entity(octets)
    ct = get(hs, b"content-type")
    if ct is not None:
        mt, ps = params(ct)
        if mt.lower().startswith(b"multipart/") and ps.get(b"boundary"):
            kids = [parse_part(p) for p in split_multipart(body, ps[b"boundary"])]
            return {"k": "multi", "subtype": mt[len(b"multipart/"):], "kids": kids}
    else:
        mt, ps = b"", {}
    disp = get(hs, b"content-disposition") or b""
    fname = b""
    if disp:
        _, dps = params(disp)
        fname = dps.get(b"filename", b"")
    return {"k": "leaf", "type": mt, "charset": ps.get(b"charset", b""), "ctname": ps.get(b"name", b""),
            "cte": get(hs, b"content-transfer-encoding") or b"", "disp": disp, "filename": fname,
            "cid": get(hs, b"content-id") or b"", "body": body}


def parse_message(octets):
    hs, body = split_entity(octets)
    for idx, (n, v) in enumerate(hs):
        if n.strip().lower() == b"content-type":
            mt, ps = params(unfold(v))
            if mt.lower().startswith(b"multipart/") and ps.get(b"boundary"):
                kids = [parse_part(p) for p in split_multipart(body, ps[b"boundary"])]
                return {"hdrs": hs[:idx] + hs[idx + 1:], "body": ("multi", mt[len(b"multipart/"):], kids)}
            break
    return {"hdrs": hs, "body": ("single", body)}


# ---------------------------------------------------------------------------
# generator

def qp_encode(data, rng):
    out = b""
    line = b""
    width = rng.choice([40, 60, 73])
    i = 0
    while i < len(data):
        if data[i:i + 2] == CRLF:
            if line[-1:] in (b" ", b"\t"):
                line = line[:-1] + b"=%02X" % line[-1]
            out += line + CRLF
            line = b""
            i += 2
            continue
        c = data[i]
        if 33 <= c <= 126 and c != 61 or c == 32:
            tok = bytes([c])
        else:
            tok = b"=%02X" % c
        if len(line) + len(tok) > width:
            out += line + b"=" + CRLF
            line = b""
        line += tok
        i += 1
    if line[-1:] in (b" ", b"\t"):
        line = line[:-1] + b"=%02X" % line[-1]
    return out + line


def b64_encode(data, rng):
    raw = base64.b64encode(data)
    style = rng.choice(["76", "76", "60", "one", "76nl"])
    if style == "one":
        return raw
    w = 60 if style == "60" else 76
    lines = [raw[i:i + w] for i in range(0, len(raw), w)] or [b""]
    s = CRLF.join(lines)
    if style == "76nl":
        s += CRLF
    return s


WORDS = [b"alpha", b"beta", b"gamma", b"delta", b".dot", b"..two", b"caf\xc3\xa9", b"\xe9t\xe9", b"x=y", b"--dash",
         b"From here", b"tab\there", b"a  b", b"z"]


def gen_text(rng, size, weird=True, final_nl=None):
    """lines of text, CRLF separated, about [size] octets"""
    out = b""
    while len(out) < size:
        n = rng.randint(0, 8)
        ln = b" ".join(rng.choice(WORDS) for _ in range(n))
        if weird and rng.random() < 0.08:
            ln += b"\x00" + bytes([rng.randint(128, 255)])
        if rng.random() < 0.1:
            ln = b"." + ln
        if rng.random() < 0.03:
            ln = b"."
        out += ln[:size - len(out) if size - len(out) > 0 else 0] + CRLF
    if final_nl is None:
        final_nl = rng.random() < 0.6
    if not final_nl:
        out = out[:-2]
        if rng.random() < 0.5 and out:
            out += b"end"
    return out


def gen_size(rng):
    r = rng.random()
    if r < 0.55:
        return rng.randint(0, 120)
    if r < 0.85:
        return rng.randint(1000, 1050)
    return rng.randint(1200, 2200)


POOL_SEED = [b"shared payload one\r\nwith two lines\r\n", b"\x89PNG\r\n\x1a\n\x00\x00binary\xff\xfe", b"QUJD", b"plain words only"]


def gen_payload(rng, pool):
    if rng.random() < 0.3:
        return rng.choice(pool)
    p = gen_text(rng, gen_size(rng))
    if rng.random() < 0.3:
        pool.append(p)
    return p


def encode_payload(rng, payload, cte):
    c = cte.lower()
    if c == b"base64":
        return b64_encode(payload, rng)
    if c == b"quoted-printable":
        return qp_encode(payload, rng)
    return payload


def gen_leaf(rng, pool):
    l = {"k": "leaf", "ctname": b"", "disp": b"", "filename": b"", "cid": b"", "charset": b""}
    kind = rng.random()
    if kind < 0.5:
        l["type"] = rng.choice([b"text/plain", b"text/plain", b"text/html", b"Text/Plain", b""])
        if l["type"]:
            l["charset"] = rng.choice([b"utf-8", b"us-ascii", b"ISO-8859-1", b""])
        l["cte"] = rng.choice([b"", b"7bit", b"8bit", b"quoted-printable", b"base64", b"Quoted-Printable"])
    else:
        l["type"] = rng.choice([b"application/octet-stream", b"image/png", b"application/pdf", b"Application/ZIP"])
        l["cte"] = rng.choice([b"base64", b"base64", b"BASE64", b"binary", b"8bit", b""])
        r = rng.random()
        fn = rng.choice([b"f.bin", b"report.pdf", b"a b.txt", b"x.png"])
        if r < 0.45:
            l["disp"] = rng.choice([b"attachment; filename=" + q(fn), b"inline; filename=" + q(fn)]) if b" " in fn else \
                rng.choice([b"attachment; filename=" + q(fn), b"attachment; filename=" + fn, b"inline; filename=" + q(fn)])
            l["filename"] = fn
            if rng.random() < 0.4:
                l["ctname"] = fn
        elif r < 0.6:
            l["disp"] = rng.choice([b"attachment", b"inline"])
        elif r < 0.68:
            l["ctname"] = fn            # name only in Content-Type: class CtNameDropped
    if rng.random() < 0.2:
        l["cid"] = b"<part%d@example.org>" % rng.randint(1, 99)
    payload = gen_payload(rng, pool)
    if l["cte"].lower() in (b"", b"7bit", b"8bit", b"binary"):
        # raw leaves: no bare CR/LF, no line that could be a delimiter
        payload = payload.replace(b"\x1a\n", b"\x1a").replace(b"\r\n--", b"\r\n-")
    l["decoded"] = payload
    l["body"] = encode_payload(rng, payload, l["cte"])
    if l["disp"] and b"\r\n" in l["disp"]:
        pass
    return l


def gen_mime(rng, pool, depth):
    if depth >= 4 or rng.random() < (0.55 if depth > 1 else 0.0):
        return gen_leaf(rng, pool)
    n = rng.choice([1, 2, 2, 3])
    return {"k": "multi", "subtype": rng.choice([b"mixed", b"alternative", b"related", b"Mixed"]),
            "kids": [gen_mime(rng, pool, depth + 1) if rng.random() < 0.35 else gen_leaf(rng, pool) for _ in range(n)]}


def fold_value(rng, words, ws_before_fold):
    v = rng.choice([b" ", b"", b"  ", b" "])
    for i, w in enumerate(words):
        if i > 0:
            if rng.random() < 0.3:
                v += (b" " if ws_before_fold and b"\r\n" not in v else b"") + CRLF + rng.choice([b" ", b"\t", b"  "])
            else:
                v += b" "
        v += w
    if rng.random() < 0.15:
        v += b" "
    return v


def gen_headers(rng, idx, allow_fold_ws):
    hs = [(b"From", b" a%d@x.org" % idx), (b"To", b" b@y.org")]
    extra = []
    if rng.random() < 0.8:
        extra.append((b"Subject", fold_value(rng, [rng.choice(WORDS[:8]) for _ in range(rng.randint(1, 6))],
                                           allow_fold_ws and rng.random() < 0.5)))
    if rng.random() < 0.5:
        extra.append((b"Date", b" Mon, 01 Jan 2024 10:00:%02d +0000" % rng.randint(0, 59)))
    if rng.random() < 0.5:
        extra.append((b"Message-ID", b" <m%d.%d@x.org>" % (idx, rng.randint(0, 999))))
    for _ in range(rng.choice([0, 0, 1, 2, 3])):
        extra.append((b"Received", fold_value(rng, [b"from", b"mx%d.example" % rng.randint(1, 9), b"by", b"y.org;", b"1 Jan 2024"], False)))
    for _ in range(rng.choice([0, 1, 2])):
        name = rng.choice([b"X-Unknown", b"X-unknown", b"X-Tag", b"List-Id", b"X-Unknown "])
        extra.append((name, fold_value(rng, [rng.choice(WORDS) for _ in range(rng.randint(0, 4))], False)))
    rng.shuffle(extra)
    k = rng.randint(0, len(extra))
    return extra[:k] + hs + extra[k:]


def gen_message(rng, idx, pool):
    r = rng.random()
    m = {}
    if r < 0.45:
        hs = gen_headers(rng, idx, allow_fold_ws=rng.random() < 0.06)
        cte = rng.choice([b"", b"", b"7bit", b"8bit", b"base64", b"quoted-printable"])
        payload = gen_payload(rng, pool) if rng.random() < 0.3 else gen_text(rng, gen_size(rng))
        body = encode_payload(rng, payload, cte)
        mh = []
        have_ct = rng.random() < 0.6
        if rng.random() < 0.5:
            mh.append((b"MIME-Version", b" 1.0"))
        if have_ct:
            mh.append((rng.choice([b"Content-Type", b"content-type", b"Content-type"]),
                       rng.choice([b" text/plain; charset=utf-8", b" text/plain", b" text/html; charset=\"us-ascii\"",
                                   b" application/octet-stream", b" text/plain;\r\n charset=utf-8"])))
        if cte and (have_ct or rng.random() < 0.15):
            mh.append((b"Content-Transfer-Encoding", b" " + cte))
        elif cte:
            body = payload
        pos = rng.randint(0, len(hs))
        m["hdrs"] = hs[:pos] + mh + hs[pos:]
        m["body"] = ("single", body)
        m["decoded"] = [payload]
    else:
        hs = gen_headers(rng, idx, allow_fold_ws=False)
        if rng.random() < 0.7:
            hs.insert(rng.randint(0, len(hs)), (b"MIME-Version", b" 1.0"))
        t = gen_mime(rng, pool, 1)
        m["hdrs"] = hs
        m["body"] = ("multi", t["subtype"], t["kids"])
    return m


def boundaries_for(m, idx):
    if m["body"][0] == "single":
        return []
    n = count_containers({"k": "multi", "subtype": m["body"][1], "kids": m["body"][2]})
    return [b"=_bd%d_%d_x7Q" % (idx, i) for i in range(n)]


def strip_gen(t):
    """drop generator-only keys so that trees can be compared"""
    if isinstance(t, dict):
        return {k: strip_gen(v) for k, v in t.items() if k != "decoded"}
    if isinstance(t, (list, tuple)):
        return [strip_gen(x) for x in t]
    return t


def all_leaves(m):
    out = []

    def walk(t):
        if t["k"] == "leaf":
            out.append(t)
        else:
            for k in t["kids"]:
                walk(k)
    if m["body"][0] == "multi":
        for k in m["body"][2]:
            walk(k)
    return out


def decoded_list(m):
    if m["body"][0] == "single":
        return m.get("decoded")
    ls = all_leaves(m)
    if all("decoded" in l for l in ls):
        return [l["decoded"] for l in ls]
    return None


# ---------------------------------------------------------------------------
# Coq terms

def cstr(b):
    if b == b"":
        return "[]"
    out = []
    i = 0
    n = len(b)
    while i < n:
        if b[i:i + 2] == CRLF:
            out.append("crlf")
            i += 2
            continue
        j = i
        while j < n and 32 <= b[j] < 127 and b[j:j + 2] != CRLF:
            j += 1
        if j > i:
            out.append('S_ "%s"' % b[i:j].decode("ascii").replace('"', '""'))
            i = j
            continue
        j = i
        while j < n and not (32 <= b[j] < 127) and b[j:j + 2] != CRLF:
            j += 1
        out.append("bs [%s]" % ";".join(str(c) for c in b[i:j]))
        i = j
    return "(" + " ++ ".join(out) + ")"


def cleaf(l):
    return "(mk_leaf %s)" % " ".join(cstr(l[f]) for f in LEAF_FIELDS)


def cmime(t):
    if t["k"] == "leaf":
        return "(Leaf %s)" % cleaf(t)
    return "(Multi %s [%s])" % (cstr(t["subtype"]), "; ".join(cmime(k) for k in t["kids"]))


def cmsg(m):
    hs = "[%s]" % "; ".join("(%s, %s)" % (cstr(n), cstr(v)) for (n, v) in m["hdrs"])
    if m["body"][0] == "single":
        return "(mk_msg %s (Single %s))" % (hs, cstr(m["body"][1]))
    return "(mk_msg %s (Multipart %s [%s]))" % (hs, cstr(m["body"][1]), "; ".join(cmime(k) for k in m["body"][2]))


def comsg(o):
    return "None" if o is None else "(Some %s)" % cmsg(o)


COQ_HEAD = C.COQ_CASE_HEADER + ("From Raven Require Import Base.GoStrMime Spec.Mime Model.MimeHeaders Model.MimeStore Spec.MimeCheck Proof.MimeRoundtrip.\n"
                                "Local Open Scope nat_scope.\nLocal Open Scope list_scope.\n")


# ---------------------------------------------------------------------------
# scenarios on the implementation

def ops_login(conn, user):
    return [{"op": "open", "conn": conn, "kind": "tls"},
            {"op": "send", "conn": conn, "data": "s1 LOGIN %s pw\r\n" % user, "until": "tag:s1"}]


def ops_append(conn, tag, raw):
    return [{"op": "send", "conn": conn, "data": "%s APPEND INBOX {%d}\r\n" % (tag, len(raw)), "until": "cont:%s" % tag, "kind": "append1"},
            {"op": "send", "conn": conn, "data": C.latin(raw + CRLF), "until": "tag:%s" % tag, "only_if_cont": True, "kind": "append2", "timeout_ms": 15000}]


def lmtp_wire(raw):
    """what an LMTP client transmits: dot-stuffed lines, final CRLF"""
    if not raw.endswith(CRLF):
        raw += CRLF
    lines = raw[:-2].split(CRLF)
    return raw, CRLF.join((b"." + l if l.startswith(b".") else l) for l in lines) + CRLF + b"." + CRLF


def ops_lmtp(conn, rcpt, wire):
    return [{"op": "send", "conn": conn, "data": "MAIL FROM:<sender@example.com>\r\n", "until": "lmtp:1"},
            {"op": "send", "conn": conn, "data": "RCPT TO:<%s>\r\n" % rcpt, "until": "lmtp:1"},
            {"op": "send", "conn": conn, "data": "DATA\r\n", "until": "lmtp:1"},
            {"op": "send", "conn": conn, "data": C.latin(wire), "until": "lmtp:1", "kind": "lmtpdata", "timeout_ms": 15000}]


def ops_fetch_all(conn, user, n, prefix):
    ops = ops_login(conn, user) + [{"op": "send", "conn": conn, "data": "x1 SELECT INBOX\r\n", "until": "tag:x1"}]
    for i in range(n):
        ops.append({"op": "send", "conn": conn, "data": "%s%d FETCH %d BODY.PEEK[]\r\n" % (prefix, i, i + 1),
                    "until": "tag:%s%d" % (prefix, i), "kind": "fetch", "user": user, "seq": i, "timeout_ms": 15000})
    ops.append({"op": "send", "conn": conn, "data": "x9 LOGOUT\r\n", "until": "tag:x9"})
    return ops


LIT = re.compile(rb"BODY\[\] \{(\d+)\}\r\n")


def literal_of(recv):
    m = LIT.search(recv)
    if not m:
        return None
    n = int(m.group(1))
    return recv[m.end():m.end() + n]


BOUND = re.compile(rb"----=_Part_([A-Za-z0-9\-]*)_(\d+)(?:_(\d+))?")


def canon_boundaries(octets):
    seen = {}

    def rep(mo):
        k = mo.group(0)
        if k not in seen:
            seen[k] = len(seen)
        return b"----=_Part_" + mo.group(1) + b"_#%d" % seen[k]
    return BOUND.sub(rep, octets)


def run_world(items):
    """items: list of (raw octets, via) with via in {"append","lmtp"}.
    Returns per item: dict(stored, submitted, f1, f2) (f1/f2 = fetched octets, None = no literal)."""
    ops = ops_login("a", A) + [{"op": "send", "conn": "a", "data": "s2 NOOP\r\n", "until": "tag:s2"}]
    ops += [{"op": "lmtp_open", "conn": "l1"}, {"op": "send", "conn": "l1", "data": "LHLO x\r\n", "until": "lmtp:1"}]
    marks = []
    for i, (raw, via) in enumerate(items):
        if via == "append":
            o = ops_append("a", "ap%d" % i, raw)
            marks.append((len(ops) + 1, "append", raw))
        else:
            sub, wire = lmtp_wire(raw)
            o = ops_lmtp("l1", B, wire)
            marks.append((len(ops) + 3, "lmtp", sub))
        ops += o
    # fetch generously (as many as were submitted per user); refused submissions are mapped out afterwards
    na = sum(1 for (_, v) in items if v == "append")
    nb = len(items) - na
    ops += ops_fetch_all("fa1", A, na, "fa") + ops_fetch_all("fb1", B, nb, "fb")
    ops += ops_fetch_all("fa2", A, na, "ga") + ops_fetch_all("fb2", B, nb, "gb")
    res = C.run_ops(ops, timeout=900)
    if res.get("crashed"):
        return None, res.get("stderr", "")[:800]
    obs = res["obs"]
    out = []
    seq = {"append": 0, "lmtp": 0}
    fetched = {}
    for op, o in zip(ops, obs):
        if op.get("kind") == "fetch":
            tagp = op["data"][:2]
            fetched[(tagp, op["seq"])] = literal_of(C.unlatin(o.get("recv", "")))
    for (pos, via, sub) in marks:
        o = obs[pos]
        recv = C.unlatin(o.get("recv", "")) if "recv" in o else b""
        if via == "append":
            ok = (not o.get("skipped")) and re.search(rb"^ap\d+ OK", recv, re.M) is not None
        else:
            ok = recv.startswith(b"250")
        d = {"stored": ok, "submitted": sub, "via": via, "reply": recv[:200]}
        if ok:
            s = seq[via]
            seq[via] += 1
            p1, p2 = ("fa", "ga") if via == "append" else ("fb", "gb")
            d["f1"] = fetched.get((p1, s))
            d["f2"] = fetched.get((p2, s))
        out.append(d)
    return out, None


def run_fault_world(sc):
    """Writes to the blobs table of shared.db fail (a second connection holds BEGIN
    IMMEDIATE past raven's 5 s busy timeout: driver ops db_lock / db_unlock) while the
    per-user stores stay writable; messages with blob-sized parts are stored by LMTP
    and by APPEND meanwhile. They must be accepted AND come back as submitted."""
    L, Ap = sc["L"], sc["Ap"]       # lists of (msg, locked?)
    ops = ops_login("a", A) + [{"op": "lmtp_open", "conn": "l1"}, {"op": "send", "conn": "l1", "data": "LHLO x\r\n", "until": "lmtp:1"}]
    marks = []
    locked = False

    def lock(want):
        nonlocal locked
        if want != locked:
            ops.append({"op": "db_lock" if want else "db_unlock"})
            locked = want
    n = max(len(L), len(Ap))
    for i in range(n):
        if i < len(L):
            m, lk = L[i]
            lock(lk)
            sub, wire = lmtp_wire(m["_raw"])
            marks.append((len(ops) + 3, "lmtp", sub, ("L", i)))
            ops.extend(ops_lmtp("l1", B, wire))
        if i < len(Ap):
            m, lk = Ap[i]
            lock(lk)
            marks.append((len(ops) + 1, "append", m["_raw"], ("A", i)))
            ops.extend(ops_append("a", "ap%d" % i, m["_raw"]))
    lock(False)
    ops.extend(ops_fetch_all("fa1", A, len(Ap), "fa") + ops_fetch_all("fb1", B, len(L), "fb"))
    ops.extend(ops_fetch_all("fa2", A, len(Ap), "ga") + ops_fetch_all("fb2", B, len(L), "gb"))
    res = C.run_ops(ops, timeout=900)
    if res.get("crashed"):
        return None, res.get("stderr", "")[:800]
    obs = res["obs"]
    fetched = {}
    for op, o in zip(ops, obs):
        if op.get("kind") == "fetch":
            fetched[(op["data"][:2], op["seq"])] = literal_of(C.unlatin(o.get("recv", "")))
    out = {}
    for (pos, via, sub, key) in marks:
        o = obs[pos]
        recv = C.unlatin(o.get("recv", "")) if "recv" in o else b""
        ok = (recv.startswith(b"250") if via == "lmtp" else ((not o.get("skipped")) and re.search(rb"^ap\d+ OK", recv, re.M) is not None))
        p1, p2 = ("fb", "gb") if via == "lmtp" else ("fa", "ga")
        out[key] = {"stored": ok, "submitted": sub, "via": via + "/blob-table-write-fails", "reply": recv[:200],
                    "f1": fetched.get((p1, key[1])), "f2": fetched.get((p2, key[1]))}
    return out, None


def observe_fault(chk, sc, res):
    out, err = res
    if out is None:
        chk.broken_obligation("driver crashed in scenario %s: %s" % (sc["tag"], err), {"suite": "world"})
        return False
    if not all(d["stored"] for d in out.values()):
        # a refused message is outside C02 (C01 / C15 judge refusals); sequence numbers would shift
        chk.notes.append("blob-fault scenario skipped: a submission was refused (%r)" % [d["reply"][:80] for d in out.values() if not d["stored"]][:1])
        return False
    worlds = []
    base = 0
    for (tagk, lst) in (("L", sc["L"]), ("A", sc["Ap"])):
        items = []
        for i, (m, lk) in enumerate(lst):
            d = out[(tagk, i)]
            sub = d["submitted"]
            mm = m
            if sub != m["_raw"]:
                try:
                    mm = parse_message(sub)
                except ParseError:
                    mm = m
            items.append({"msg": mm, "obs": try_parse(d.get("f1")), "idx": base + i, "d": d, "faulty": True,
                          "raw": sub if sub == m["_raw"] else None, "bds": m["_bds"], "eah": None})
            chk.cov["stores_with_failing_blob_table"] = chk.cov.get("stores_with_failing_blob_table", 0) + (1 if lk else 0)
        base += len(lst)
        worlds.append(items)
    sc["worlds"] = worlds
    sc["refused"] = []
    return True


def prepare_fault(chk, rng, tag):
    """LMTP: warm-up (creates the recipient's store), an attachment message under the lock,
    a large text part under the lock, the same attachment again without lock.
    APPEND: a single-part body over 1024 octets under the lock, a small one without."""
    H = lambda i: [(b"From", b" f%d@x.org" % i), (b"To", b" b@y.org"), (b"Subject", b" blob table fault %d" % i)]
    payload = bytes(rng.randrange(256) for _ in range(rng.randint(300, 700)))
    att = {"k": "leaf", "type": b"application/octet-stream", "charset": b"", "ctname": b"", "cte": b"base64",
           "disp": b'attachment; filename="report.bin"', "filename": b"report.bin", "cid": b"",
           "body": CRLF.join([base64.b64encode(payload)[i:i + 76] for i in range(0, len(base64.b64encode(payload)), 76)])}
    txt = {"k": "leaf", "type": b"text/plain", "charset": b"utf-8", "ctname": b"", "cte": b"", "disp": b"", "filename": b"", "cid": b"",
           "body": b"see the attachment"}
    big = {"k": "leaf", "type": b"text/plain", "charset": b"utf-8", "ctname": b"", "cte": b"8bit", "disp": b"", "filename": b"", "cid": b"",
           "body": gen_text(rng, rng.randint(1100, 1600), final_nl=False)}
    warm = {"hdrs": H(0), "body": ("single", b"warm-up\r\n")}
    m1 = {"hdrs": H(1) + [(b"MIME-Version", b" 1.0")], "body": ("multi", b"mixed", [dict(txt), dict(att)])}
    m2 = {"hdrs": H(2), "body": ("multi", b"alternative", [dict(big)])}
    m3 = {"hdrs": H(3), "body": ("multi", b"mixed", [dict(att), dict(txt)])}
    a1 = {"hdrs": H(4) + [(b"Content-Type", b" text/plain; charset=utf-8")], "body": ("single", gen_text(rng, rng.randint(1100, 1800)))}
    a2 = {"hdrs": H(5), "body": ("single", b"small body\r\n")}
    msgs = [warm, m1, m2, m3, a1, a2]
    sc = prepare(chk, msgs, ["lmtp"] * 4 + ["append"] * 2, tag)
    if sc is None:
        return None
    sc["fault"] = True
    sc["L"] = [(warm, False), (m1, True), (m2, True), (m3, False)]
    sc["Ap"] = [(a1, True), (a2, False)]
    return sc


CAROL = "carol@example.com"


def run_multircpt_world(sc):
    """LMTP transactions with several RCPT TO (distinct users, a user + a role address, the
    same address twice) for messages with blob-sized parts; EVERY recipient's copy is read back."""
    txs = sc["txs"]                     # list of (msg index, [recipient addresses])
    msgs = sc["msgs"]
    ops = ops_login("s", A) + [{"op": "send", "conn": "s", "data": "s2 LOGOUT\r\n", "until": "tag:s2"},
                               {"op": "role_create", "email": ROLE}, {"op": "role_assign", "user": A, "role": 1},
                               {"op": "lmtp_open", "conn": "l1"}, {"op": "send", "conn": "l1", "data": "LHLO x\r\n", "until": "lmtp:1"}]
    data_pos = []
    for (mi, rcpts) in txs:
        sub, wire = lmtp_wire(msgs[mi]["_raw"])
        ops.append({"op": "send", "conn": "l1", "data": "MAIL FROM:<sender@example.com>\r\n", "until": "lmtp:1"})
        for r in rcpts:
            ops.append({"op": "send", "conn": "l1", "data": "RCPT TO:<%s>\r\n" % r, "until": "lmtp:1"})
        ops.append({"op": "send", "conn": "l1", "data": "DATA\r\n", "until": "lmtp:1"})
        data_pos.append((len(ops), sub))
        ops.append({"op": "send", "conn": "l1", "data": C.latin(wire), "until": "lmtp:%d" % len(rcpts), "timeout_ms": 20000})
    # what every store should hold, in delivery order
    stores = {}
    for ti, (mi, rcpts) in enumerate(txs):
        for ri, r in enumerate(rcpts):
            stores.setdefault(r, []).append((ti, ri, mi))
    fetch_pos = {}
    for rnd in (1, 2):
        for r in sorted(stores):
            conn = "f%d%s" % (rnd, r[:3])
            user = A if r == ROLE else r
            box = ROLE_BOX if r == ROLE else "INBOX"
            ops.extend(ops_login(conn, user) + [{"op": "send", "conn": conn, "data": "x1 SELECT %s\r\n" % box, "until": "tag:x1"}])
            for k in range(len(stores[r])):
                fetch_pos[(rnd, r, k)] = len(ops)
                ops.append({"op": "send", "conn": conn, "data": "y%d FETCH %d BODY.PEEK[]\r\n" % (k, k + 1), "until": "tag:y%d" % k, "timeout_ms": 15000})
            ops.append({"op": "send", "conn": conn, "data": "x9 LOGOUT\r\n", "until": "tag:x9"})
    res = C.run_ops(ops, timeout=900)
    if res.get("crashed"):
        return None, res.get("stderr", "")[:800]
    obs = res["obs"]
    replies = []
    for (pos, sub) in data_pos:
        recv = C.unlatin(obs[pos].get("recv", ""))
        replies.append(([l for l in recv.split(b"\r\n") if l], sub))
    out = {}
    for r, lst in stores.items():
        out[r] = []
        for k, (ti, ri, mi) in enumerate(lst):
            lines, sub = replies[ti]
            ok = ri < len(lines) and lines[ri].startswith(b"250")
            out[r].append({"stored": ok, "submitted": sub, "via": "lmtp/%d-rcpt-transaction(recipient %d: %s)" % (len(txs[ti][1]), ri + 1, r),
                           "reply": (lines[ri] if ri < len(lines) else b"")[:200], "mi": mi,
                           "f1": literal_of(C.unlatin(obs[fetch_pos[(1, r, k)]].get("recv", ""))),
                           "f2": literal_of(C.unlatin(obs[fetch_pos[(2, r, k)]].get("recv", "")))})
    return out, None


def observe_multircpt(chk, sc, res):
    out, err = res
    if out is None:
        chk.broken_obligation("driver crashed in scenario %s: %s" % (sc["tag"], err), {"suite": "world"})
        return False
    if not all(d["stored"] for lst in out.values() for d in lst):
        chk.notes.append("multi-recipient scenario skipped: a recipient was refused (%r)" % [d["reply"][:80] for lst in out.values() for d in lst if not d["stored"]][:1])
        return False
    worlds = []
    for r in sorted(out):
        items = []
        for d in out[r]:
            m = sc["msgs"][d["mi"]]
            sub = d["submitted"]
            mm = m
            if sub != m["_raw"]:
                try:
                    mm = parse_message(sub)
                except ParseError:
                    mm = m
            items.append({"msg": mm, "obs": try_parse(d.get("f1")), "idx": d["mi"], "d": d,
                          "raw": sub if sub == m["_raw"] else None, "bds": m["_bds"], "eah": None})
            chk.cov["recipient_copies_read_back"] = chk.cov.get("recipient_copies_read_back", 0) + 1
        worlds.append(items)
    sc["worlds"] = worlds
    sc["refused"] = []
    return True


def prepare_multircpt(chk, rng, tag):
    H = lambda i: [(b"From", b" g%d@x.org" % i), (b"To", b" list@y.org"), (b"Subject", b" several recipients %d" % i)]

    def att(name):
        payload = bytes(rng.randrange(256) for _ in range(rng.randint(200, 900)))
        enc = base64.b64encode(payload)
        return {"k": "leaf", "type": b"application/octet-stream", "charset": b"", "ctname": b"", "cte": b"base64",
                "disp": b'attachment; filename="' + name + b'"', "filename": name, "cid": b"",
                "body": CRLF.join([enc[i:i + 76] for i in range(0, len(enc), 76)])}

    def text(n):
        return {"k": "leaf", "type": b"text/plain", "charset": b"utf-8", "ctname": b"", "cte": b"8bit" if n > 100 else b"", "disp": b"",
                "filename": b"", "cid": b"", "body": gen_text(rng, n, final_nl=False) if n > 100 else b"short text"}
    msgs = [{"hdrs": H(1) + [(b"MIME-Version", b" 1.0")], "body": ("multi", b"mixed", [text(10), att(b"one.bin")])},
            {"hdrs": H(2), "body": ("multi", b"alternative", [text(rng.randint(1100, 1500))])},
            {"hdrs": H(3) + [(b"Content-Type", b" text/plain; charset=utf-8")], "body": ("single", gen_text(rng, rng.randint(1100, 1700)))},
            {"hdrs": H(4), "body": ("multi", b"mixed", [att(b"four.bin"), {"k": "multi", "subtype": b"related", "kids": [text(rng.randint(1100, 1400)), text(10)]}])}]
    sc = prepare(chk, msgs, ["lmtp"] * len(msgs), tag)
    if sc is None:
        return None
    sc["multircpt"] = True
    sc["txs"] = [(0, [A, B, CAROL]), (1, [B, ROLE]), (2, [CAROL, CAROL]), (3, [ROLE, A, CAROL, B])]
    return sc


ROLE = "sales@example.com"
ROLE_BOX = "Roles/%s/INBOX" % ROLE


def run_role_world(sc):
    """One user with a role mailbox: DIFFERENT messages under the SAME message ids /
    sequence numbers in the personal store and in the role store. One connection
    alternates between the two stores (both orders); fresh connections fetch again."""
    P, R = sc["P"], sc["R"]
    K = len(P)
    ops = ops_login("s", A) + [{"op": "send", "conn": "s", "data": "s2 LOGOUT\r\n", "until": "tag:s2"},
                               {"op": "role_create", "email": ROLE}, {"op": "role_assign", "user": A, "role": 1},
                               {"op": "lmtp_open", "conn": "l1"}, {"op": "send", "conn": "l1", "data": "LHLO x\r\n", "until": "lmtp:1"}]
    subs = {}
    pos_data = {}
    for k in range(K):
        for (store, m, rcpt) in (("P", P[k], A), ("R", R[k], ROLE)):
            sub, wire = lmtp_wire(m["_raw"])
            subs[(store, k)] = sub
            pos_data[(store, k)] = len(ops) + 3
            ops += ops_lmtp("l1", rcpt, wire)
    ops += ops_login("c", A)
    sel = {"P": "INBOX", "R": ROLE_BOX}
    fetches = []   # (op position, store, k)
    tagn = [0]

    def do(store, k):
        tagn[0] += 1
        ops.append({"op": "send", "conn": "c", "data": "q%d SELECT %s\r\n" % (tagn[0], sel[store]), "until": "tag:q%d" % tagn[0]})
        tagn[0] += 1
        fetches.append((len(ops), store, k))
        ops.append({"op": "send", "conn": "c", "data": "q%d FETCH %d BODY.PEEK[]\r\n" % (tagn[0], k + 1), "until": "tag:q%d" % tagn[0], "timeout_ms": 15000})
    for k in range(K):
        order = ["P", "R"] if k % 2 == 0 else ["R", "P"]
        for st in order + order[:1]:
            do(st, k)
    # fresh connections, one per store
    fresh = []
    for store in ("P", "R"):
        conn = "f" + store
        ops += ops_login(conn, A) + [{"op": "send", "conn": conn, "data": "x1 SELECT %s\r\n" % sel[store], "until": "tag:x1"}]
        for k in range(K):
            fresh.append((len(ops), store, k))
            ops.append({"op": "send", "conn": conn, "data": "y%d FETCH %d BODY.PEEK[]\r\n" % (k, k + 1), "until": "tag:y%d" % k, "timeout_ms": 15000})
    res = C.run_ops(ops, timeout=900)
    if res.get("crashed"):
        return None, res.get("stderr", "")[:800]
    obs = res["obs"]
    out = {}
    for key, pos in pos_data.items():
        recv = C.unlatin(obs[pos].get("recv", ""))
        out[key] = {"stored": recv.startswith(b"250"), "submitted": subs[key], "via": "lmtp/" + ("personal" if key[0] == "P" else "role"),
                    "reply": recv[:200], "alt": []}
    for (pos, store, k) in fetches:
        out[(store, k)]["alt"].append(literal_of(C.unlatin(obs[pos].get("recv", ""))))
    for (pos, store, k) in fresh:
        out[(store, k)]["f2"] = literal_of(C.unlatin(obs[pos].get("recv", "")))
    return out, None


def observe_role(chk, sc, res):
    out, err = res
    if out is None:
        chk.broken_obligation("driver crashed in scenario %s: %s" % (sc["tag"], err), {"suite": "world"})
        return False
    if not all(d["stored"] for d in out.values()):
        chk.notes.append("role-store scenario skipped: a delivery was refused (%r)" % [d["reply"][:60] for d in out.values() if not d["stored"]][:1])
        return False
    K = len(sc["P"])
    worlds = []
    for wi, (store, ms) in enumerate((("P", sc["P"]), ("R", sc["R"]))):
        items = []
        for k, m in enumerate(ms):
            d = out[(store, k)]
            alts = d["alt"]
            d["f1"] = alts[0] if alts else None
            # every fetch on the alternating connection must return the same octets
            for a in alts[1:]:
                if a != d["f1"]:
                    d["f2"] = a
            sub = d["submitted"]
            mm = m
            if sub != m["_raw"]:
                try:
                    mm = parse_message(sub)
                except ParseError:
                    mm = m
            items.append({"msg": mm, "obs": try_parse(d.get("f1")), "idx": wi * K + k, "d": d,
                          "raw": sub if sub == m["_raw"] else None, "bds": m["_bds"], "eah": None})
        worlds.append(items)
    sc["worlds"] = worlds
    sc["refused"] = []
    return True


# ---------------------------------------------------------------------------
# evaluation of one batch of worlds in Coq

def try_parse(octets):
    if octets is None or octets == b"":
        return None
    try:
        return parse_message(octets)
    except (ParseError, RecursionError, ValueError):
        return None


def coq_eval(worlds):
    """worlds: list of list of dict(msg, obs (parsed or None), raw, bds, eah). Returns per world dict of lists."""
    body = COQ_HEAD + "Definition dflt := mk_msg [] (Single []).\n"
    for w, items in enumerate(worlds):
        body += "Definition ms%d : list msg := [\n%s].\n" % (w, ";\n".join(cmsg(it["msg"]) for it in items))
        body += "Definition os%d : list (option msg) := [\n%s].\n" % (w, ";\n".join(comsg(it["obs"]) for it in items))
        rf = "results_faulty" if (items and items[0].get("faulty")) else "results"
        body += "Definition pred%d := Eval vm_compute in false_positions 0 (zip_with omsg_eqb (%s ms%d) os%d).\nPrint pred%d.\n" % (w, rf, w, w, w)
        body += "Definition spec%d := Eval vm_compute in false_positions 0 (zip_with spec_ok ms%d os%d).\nPrint spec%d.\n" % (w, w, w, w)
        body += "Definition mspec%d := Eval vm_compute in false_positions 0 (zip_with spec_ok ms%d (%s ms%d)).\nPrint mspec%d.\n" % (w, w, rf, w, w)
        body += "Definition wf%d := Eval vm_compute in false_positions 0 (map wf_msg ms%d).\nPrint wf%d.\n" % (w, w, w)
        # cross-checks: serialisation twin, decoders, extractAllHeaders (string level)
        rawpos = [k for k, it in enumerate(items) if it.get("raw") is not None]
        body += "Definition raws%d : list str := [\n%s].\n" % (w, ";\n".join(cstr(items[k]["raw"]) for k in rawpos))
        body += "Definition ser%d := Eval vm_compute in false_positions 0 [\n%s].\nPrint ser%d.\n" % (
            w, ";\n".join("str_eqb (serialize (nth %d ms%d dflt) [%s]) (nth %d raws%d [])" % (k, w, "; ".join(cstr(b) for b in items[k]["bds"]), j, w)
                          for j, k in enumerate(rawpos)), w)
        dec = [(k, decoded_list(it["msg"])) for k, it in enumerate(items)]
        dec = [(k, d) for (k, d) in dec if d is not None]
        body += "Definition dec%d := Eval vm_compute in false_positions 0 [\n%s].\nPrint dec%d.\n" % (
            w, ";\n".join("list_eqb str_eqb (msg_decodes (nth %d ms%d dflt)) [%s]" % (k, w, "; ".join(cstr(x) for x in d)) for (k, d) in dec), w)
        hd = [(j, k) for j, k in enumerate(rawpos) if items[k].get("eah") is not None]
        body += "Definition eah%d := Eval vm_compute in false_positions 0 [\n%s].\nPrint eah%d.\n" % (
            w, ";\n".join("(let e := extract_all_headers (nth %d raws%d []) in list_eqb hdr_eqb e [%s] && list_eqb hdr_eqb e (map hdr_store (m_hdrs (nth %d ms%d dflt) ++ %s)))" % (
                j, w, "; ".join("(%s, %s)" % (cstr(n), cstr(v)) for (n, v) in items[k]["eah"]), k, w,
                ("[]" if items[k]["msg"]["body"][0] == "single" else "[(S_ \"Content-Type\", %s)]" % cstr(b" multipart/" + items[k]["msg"]["body"][1] + b"; boundary=" + q(items[k]["bds"][0]))))
                          for (j, k) in hd), w)
    rc, log = C.coq_eval_cases("C02", body, timeout=1500)
    if rc != 0:
        return None, log

    def nums(name):
        txt = C.parse_coq_list_out(log, name)
        if txt is None:
            return None
        txt = txt.strip()
        if txt == "[]":
            return []
        return [int(x) for x in txt.strip("[]").replace("%nat", "").split(";") if x.strip()]
    out = []
    for w, items in enumerate(worlds):
        d = {k: nums("%s%d" % (k, w)) for k in ("pred", "spec", "mspec", "ser", "dec", "eah", "wf")}
        if any(v is None for v in d.values()):
            return None, log
        d["cls"] = [None] * len(items)
        out.append(d)
    return out, log


def tree_json(x):
    if isinstance(x, bytes):
        return C.latin(x)
    if isinstance(x, dict):
        return {k: tree_json(v) for k, v in x.items()}
    if isinstance(x, (list, tuple)):
        return [tree_json(v) for v in x]
    return x


def tree_unjson(x):
    if isinstance(x, str):
        return C.unlatin(x)
    if isinstance(x, dict):
        return {k: (v if k == "k" else tree_unjson(v)) for k, v in x.items()}
    if isinstance(x, list):
        return [tree_unjson(v) for v in x]
    return x


def msg_unjson(d):
    m = tree_unjson(d)
    m["hdrs"] = [tuple(h) for h in m["hdrs"]]
    b = m["body"]
    m["body"] = (d["body"][0], b[1]) if d["body"][0] == "single" else ("multi", b[1], b[2])
    return m


# ---------------------------------------------------------------------------
# the check

def eah_calls(raws):
    r = C.run_ops([{"op": "batch", "fn": "extractAllHeaders", "cases": [{"a": [C.latin(x)]} for x in raws]}])
    if r.get("crashed"):
        return None
    out = []
    for x in r["obs"][0]["rs"]:
        if isinstance(x, dict):
            out.append(None)
        else:
            out.append([(C.unlatin(a), C.unlatin(b)) for (a, b) in (x or [])])
    return out


def make_world(msgs, vias, order):
    """items for run_world in the given order + bookkeeping"""
    items = []
    for i in order:
        m = msgs[i]
        items.append((m["_raw"], vias[i]))
    return items


def prepare(chk, msgs, vias, tag, expected=None):
    """Serialises the messages, self-checks the harness parser and returns the
    scenario (two worlds: given order / reversed order with the other transport)."""
    n = len(msgs)
    for i, m in enumerate(msgs):
        m["_bds"] = boundaries_for(m, i)
        m["_raw"] = serialize(m, m["_bds"])
    # harness self-check: the strict parser inverts the serialiser
    for i, m in enumerate(msgs):
        try:
            back = parse_message(m["_raw"])
        except ParseError as e:
            back = {"error": str(e)}
        want = strip_gen({"hdrs": [list(h) for h in m["hdrs"]], "body": list(m["body"])})
        got = strip_gen({"hdrs": [list(h) for h in back.get("hdrs", [])], "body": list(back.get("body", []))})
        if want != got and not m.get("_malformed"):
            chk.broken_obligation("harness self-check: strict parser does not invert the serialiser (%s #%d)" % (tag, i),
                                  {"suite": "selfcheck", "msg": tree_json(strip_gen(m["body"])), "raw": C.latin(m["_raw"])})
            return None
    orderA = list(range(n))
    orderB = list(reversed(range(n)))
    viasB = ["lmtp" if v == "append" else "append" for v in vias]
    return {"msgs": msgs, "tag": tag, "expected": expected, "orders": [orderA, orderB],
            "scen": [make_world(msgs, vias, orderA), make_world(msgs, viasB, orderB)]}


def observe(chk, sc, rs, eah):
    """rs: the two run_world results. Builds the per-world item lists."""
    msgs, tag = sc["msgs"], sc["tag"]
    for (r, err) in rs:
        if r is None:
            chk.broken_obligation("driver crashed in scenario %s: %s" % (tag, err), {"suite": "world"})
            return False
    orderA, orderB = sc["orders"]
    worlds = []
    for wi, (order, (r, _)) in enumerate(zip([orderA, orderB], rs)):
        items = []
        for pos, i in enumerate(order):
            d = r[pos]
            m = msgs[i]
            sub = d["submitted"]
            mm = m
            if sub != m["_raw"]:
                # LMTP appended the final CRLF: the submitted message is what went over the wire
                try:
                    mm = parse_message(sub)
                    for (a, b2) in zip(all_leaves(mm), all_leaves(m)):
                        if "decoded" in b2 and a["body"] == b2["body"]:
                            a["decoded"] = b2["decoded"]
                except ParseError:
                    mm = m
            obs = try_parse(d.get("f1")) if d["stored"] else None
            items.append({"msg": mm, "obs": obs, "idx": i, "d": d, "raw": sub if sub == m["_raw"] else None,
                          "bds": m["_bds"], "eah": eah[i] if (eah and sub == m["_raw"]) else None})
        worlds.append(items)
    # messages refused at submission are outside the property (nothing was stored): drop them from the model run
    refused = []
    for wi in range(2):
        keep = []
        for it in worlds[wi]:
            if it["d"]["stored"]:
                keep.append(it)
            else:
                refused.append((wi, it))
        worlds[wi] = keep
    sc["worlds"] = worlds
    sc["refused"] = refused
    return True


def judge(chk, sc, ev):
    """ev: the Coq results of this scenario's two worlds."""
    msgs, tag, expected, worlds, refused = sc["msgs"], sc["tag"], sc["expected"], sc["worlds"], sc["refused"]
    cov = chk.cov
    unclassified_violation = False
    mismatches = []
    per_msg = {}
    for wi, items in enumerate(worlds):
        e = ev[wi]
        for name in ("ser", "dec", "eah"):
            if e[name]:
                what = {"ser": "python serialiser differs from Spec.Mime.serialize",
                        "dec": "Spec.Mime.decode differs from the generator's independent encoders",
                        "eah": "parser.extractAllHeaders differs from Model.MimeHeaders.extract_all_headers / hdr_store"}[name]
                if name == "eah":
                    mismatches.append((wi, e[name][0], "eah"))
                else:
                    chk.broken_obligation("harness cross-check failed: %s (%s world %d case %d)" % (what, tag, wi, e[name][0]), {"suite": name})
                    return False
        for pos, it in enumerate(items):
            cov["evaluations"] += 1
            cls = e["cls"][pos]
            d = it["d"]
            info = per_msg.setdefault(it["idx"], {"cls": set(), "canon": {}})
            if cls:
                info["cls"].add(cls)
            if d.get("f1") is not None:
                info["canon"][wi] = canon_boundaries(d["f1"])
            payload = {"suite": "roundtrip", "tag": tag, "world": wi, "via": d["via"],
                       "history": [tree_json(strip_gen({"hdrs": x["msg"]["hdrs"], "body": x["msg"]["body"]})) for x in items[:pos + 1]],
                       "submitted": C.latin(d["submitted"]), "fetched": C.latin(d.get("f1") or b""), "model_class": cls}
            if pos in e["spec"]:
                if cls in CLASSES:
                    chk.violation("%s: a message of class %s is not returned as submitted (via %s): %r -> %r" % (
                        tag, cls, d["via"], d["submitted"][:120], (d.get("f1") or b"")[:160]), payload, cls=cls)
                    if cls not in chk.findings:
                        unclassified_violation = True
                else:
                    unclassified_violation = True
                    chk.violation("%s: message not returned as submitted (via %s, msg_equiv false, no finding class applies): submitted %r fetched %r" % (
                        tag, d["via"], d["submitted"][:160], (d.get("f1") or b"")[:200]), payload)
            elif pos in e["pred"]:
                mismatches.append((wi, pos, "pred"))
            if pos in e["wf"]:
                cov["outside_wf_msg"] = cov.get("outside_wf_msg", 0) + 1
                if not it["msg"].get("_malformed") and not msgs[it["idx"]].get("_malformed"):
                    chk.notes.append("a generated message does not satisfy wf_msg (hypothesis of c02_roundtrip): %r" % d["submitted"][:120])
            elif pos in e["mspec"]:
                chk.broken_obligation("model violates msg_equiv on a well-formed message (contradicts c02_roundtrip: harness encoding error): %r" % d["submitted"][:200], payload)
            # repeated fetch
            f1, f2 = d.get("f1"), d.get("f2")
            cov["traces_validated_against_impl"] += 1
            if f1 != f2:
                unclassified_violation = True
                same = f1 is not None and f2 is not None and canon_boundaries(f1) == canon_boundaries(f2)
                chk.violation("%s: two fetches of the same message return different octets%s: %r vs %r" % (
                    tag, " (only the generated boundaries differ)" if same else "", (f1 or b"")[:120], (f2 or b"")[:120]),
                    dict(payload, fetched2=C.latin(f2 or b"")))
            # generated boundaries: shape of Model/MimeBoundary.v and pairwise distinct within the message
            if f1:
                bl = re.findall(rb'boundary="(----=_Part_[^"]*)"', f1)
                cov["boundaries_seen"] = cov.get("boundaries_seen", 0) + len(bl)
                if len(set(bl)) != len(bl) or any(not re.fullmatch(rb"----=_Part_[A-Za-z0-9\-]*_\d+_\d+", b) for b in bl):
                    unclassified_violation = True
                    chk.violation("%s: regenerated boundaries collide or do not have the modelled shape: %r" % (tag, bl[:6]), payload)
    # independence: the same message in two worlds with different histories
    for i, info in per_msg.items():
        c = info["canon"]
        if 0 in c and 1 in c:
            cov["independence_pairs"] = cov.get("independence_pairs", 0) + 1
            a, b = c[0], c[1]
            # LMTP adds the final CRLF to the submission; compare only when both worlds got the same octets
            sa = [it for it in worlds[0] if it["idx"] == i][0]["d"]["submitted"]
            sb = [it for it in worlds[1] if it["idx"] == i][0]["d"]["submitted"]
            if sa == sb and a != b:
                payload = {"suite": "independence", "tag": tag, "submitted": C.latin(sa), "fetched_world0": C.latin(a), "fetched_world1": C.latin(b),
                           "history0": [C.latin(x["d"]["submitted"]) for x in worlds[0]], "history1": [C.latin(x["d"]["submitted"]) for x in worlds[1]]}
                unclassified_violation = True
                chk.violation("%s: the same message is returned differently under two histories: %r vs %r" % (tag, a[:160], b[:160]), payload)
    cov["disagreements_checked"] += len(mismatches)
    st = chk.__dict__.setdefault("_c02", {"unclassified": False, "mismatch": []})
    st["unclassified"] = st["unclassified"] or unclassified_violation
    for (wi, pos, kind) in mismatches[:2]:
        it = worlds[wi][min(pos, len(worlds[wi]) - 1)]
        if kind == "pred" and ev[wi]["cls"][pos] in chk.findings:
            chk.notes.append("model/implementation mismatch inside finding class %s (informational)" % ev[wi]["cls"][pos])
        else:
            st["mismatch"].append((kind, tag, it["d"]["submitted"], it["d"].get("f1") or b""))
    for (wi, it) in refused:
        cov["refused_at_submission"] = cov.get("refused_at_submission", 0) + 1
        if not it["msg"].get("_malformed") and not msgs[it["idx"]].get("_malformed"):
            chk.notes.append("a message of the grammar was refused at submission (%s): %r -> %r" % (it["d"]["via"], it["d"]["submitted"][:80], it["d"]["reply"][:80]))
    return True




def evaluate_all(chk, scenarios):
    """run every world of every scenario (in parallel), evaluate in Coq in chunks, judge."""
    scenarios = [sc for sc in scenarios if sc is not None]
    if not scenarios:
        return
    role_scs = [sc for sc in scenarios if sc.get("role")]
    fault_scs = [sc for sc in scenarios if sc.get("fault")]
    multi_scs = [sc for sc in scenarios if sc.get("multircpt")]
    scenarios = [sc for sc in scenarios if not sc.get("role") and not sc.get("fault") and not sc.get("multircpt")]
    flat = [w for sc in scenarios for w in sc["scen"]]
    from concurrent.futures import ThreadPoolExecutor
    C.build_driver()
    with ThreadPoolExecutor(max_workers=8) as ex:
        ffut = [ex.submit(run_fault_world, sc) for sc in fault_scs]     # first: each waits for SQLite's busy timeout
        rfut = [ex.submit(run_role_world, sc) for sc in role_scs]
        mfut = [ex.submit(run_multircpt_world, sc) for sc in multi_scs]
        rs = list(ex.map(run_world, flat))
        eahs = list(ex.map(lambda sc: eah_calls([m["_raw"] for m in sc["msgs"]]), scenarios))
        frs = [f.result() for f in ffut]
        rrs = [f.result() for f in rfut]
        mrs = [f.result() for f in mfut]
    ok = []
    for k, sc in enumerate(scenarios):
        if observe(chk, sc, rs[2 * k:2 * k + 2], eahs[k]):
            ok.append(sc)
    for sc, res in zip(fault_scs, frs):
        if observe_fault(chk, sc, res):
            ok.append(sc)
    for sc, res in zip(multi_scs, mrs):
        if observe_multircpt(chk, sc, res):
            ok.append(sc)
    for sc, res in zip(role_scs, rrs):
        if observe_role(chk, sc, res):
            ok.append(sc)
            chk.cov["role_store_fetches"] = chk.cov.get("role_store_fetches", 0) + sum(len(it["d"]["alt"]) for w in sc["worlds"] for it in w)
    # chunks of at most ~160 messages per Coq file
    chunk, size = [], 0
    chunks = []
    for sc in ok:
        n = sum(len(w) for w in sc["worlds"])
        if chunk and size + n > 160:
            chunks.append(chunk)
            chunk, size = [], 0
        chunk.append(sc)
        size += n
    if chunk:
        chunks.append(chunk)
    for ch in chunks:
        worlds = [w for sc in ch for w in sc["worlds"]]
        ev, log = coq_eval(worlds)
        if ev is None:
            chk.broken_obligation("in-Coq evaluation of the C02 cases failed (%s):\n%s" % (",".join(sc["tag"] for sc in ch), (log or "")[-1800:]), {"suite": "coq"})
            return
        off = 0
        for sc in ch:
            nw = len(sc["worlds"])
            judge(chk, sc, ev[off:off + nw])
            off += nw
    st = chk.__dict__.get("_c02", {"unclassified": False, "mismatch": []})
    if st["mismatch"] and not st["unclassified"]:
        # implementation != model although no message violates msg_equiv outside the listed classes:
        # the theorems no longer speak about this code
        kind, tag, sub, got = st["mismatch"][0]
        chk.broken_obligation("correspondence %s no longer checks: implementation output differs from the model's prediction although msg_equiv still holds (%s, %d cases): submitted %r fetched %r" % (
            kind, tag, len(st["mismatch"]), sub[:160], got[:200]),
            {"suite": "mismatch", "kind": kind, "submitted": C.latin(sub), "fetched": C.latin(got)})


def prepare_role(chk, rng, tag, K):
    """K personal + K role messages of the grammar (all different)"""
    pool = list(POOL_SEED)
    msgs = [gen_message(rng, i, pool) for i in range(2 * K)]
    sc = prepare(chk, msgs, ["lmtp"] * (2 * K), tag)
    if sc is None:
        return None
    sc["role"] = True
    sc["P"], sc["R"] = msgs[:K], msgs[K:]
    return sc


def corpus_cases():
    out = []
    for f in sorted(glob.glob(os.path.join(C.VERIF, "corpus", "C02", "*.json"))):
        d = json.load(open(f))
        out.append((os.path.basename(f), d))
    return out


def run(chk):
    rng = chk.rng
    cov = chk.cov
    cov["rule"] = ("messages drawn from the grammar of the property (header folding, repeated/unknown headers, 8-bit and NUL octets, dot lines, +/- final newline, "
                   "nesting depth <= 4, 7bit/8bit/binary/base64/quoted-printable leaves, leaf sizes around 1024, attachments with file names, payload pool so that parts collide "
                   "under decoding); each message submitted by APPEND and by LMTP in two worlds with different histories, fetched twice with BODY.PEEK[], parsed by the strict "
                   "harness parser; model prediction (results), oracle (msg_equiv) and classify evaluated by vm_compute; non-trivial = multipart, or single-part with a folded "
                   "header, a body over 1024 octets or a transfer encoding")
    # 1. corpus witnesses of the listed findings
    scenarios = []
    for name, d in corpus_cases():
        msgs = [msg_unjson(x) for x in d["messages"]]
        for m in msgs:
            if d.get("malformed"):
                m["_malformed"] = True
        exp = {int(k): v for k, v in d.get("expect", {}).items()}
        scenarios.append(prepare(chk, msgs, d.get("vias", ["append"] * len(msgs)), "corpus/" + name, expected=exp))
    # 2. generated histories
    nworlds, per = (3, 12) if chk.tier == "quick" else (24, 22)
    nontrivial = set()
    for w in range(nworlds):
        pool = list(POOL_SEED)
        msgs = [gen_message(rng, i, pool) for i in range(per)]
        vias = [rng.choice(["append", "lmtp"]) for _ in msgs]
        for m in msgs:
            raw_b = m["body"]
            nt = raw_b[0] == "multi" or any(b"\r\n" in v for (_, v) in m["hdrs"]) or len(raw_b[1]) > 1024 or any(n.lower() == b"content-transfer-encoding" for (n, _) in m["hdrs"])
            if nt:
                nontrivial.add(json.dumps(tree_json(strip_gen({"h": m["hdrs"], "b": m["body"]})), sort_keys=True))
        if w == 0:
            chk.sample({"submitted_octets": C.latin(serialize(msgs[0], boundaries_for(msgs[0], 0)))[:600]})
        scenarios.append(prepare(chk, msgs, vias, "gen%d" % w))
    # one connection alternating between the personal store and a role store that hold
    # different messages under the same message ids (a message is a message OF A STORE)
    for w in range(1 if chk.tier == "quick" else 6):
        scenarios.append(prepare_role(chk, rng, "role%d" % w, 4 if chk.tier == "quick" else 6))
    # several recipients in one LMTP transaction: every recipient's copy is read back
    scenarios.append(prepare_multircpt(chk, rng, "multircpt0"))
    # writes to the blobs table fail while messages with blob-sized parts are stored
    for w in range(1 if chk.tier == "quick" else 2):
        scenarios.append(prepare_fault(chk, rng, "blobfault%d" % w))
    evaluate_all(chk, scenarios)
    cov["distinct_nontrivial"] = len(nontrivial)
    cov["worlds"] = nworlds * 2
    cov["messages_per_world"] = per


def replay(path):
    d = json.load(open(path))
    print(json.dumps({k: (v if not isinstance(v, str) or len(v) < 400 else v[:400] + "...") for k, v in d.items() if k != "history"}, indent=1))
    sub = d.get("submitted")
    if not sub:
        return 0
    raw = C.unlatin(sub)
    via = d.get("via", "append")
    if "blob-table-write-fails" in via:
        # same fault as in the run: the blobs table of shared.db is locked while the message is stored
        m = {"_raw": raw}
        warm = {"_raw": b"From: w@x.org\r\nTo: b@y.org\r\n\r\nwarm-up\r\n"}
        sc = {"L": [(warm, False)] + ([(m, True)] if via.startswith("lmtp") else []),
              "Ap": [(m, True)] if via.startswith("append") else []}
        out, err = run_fault_world(sc)
        if out:
            r = out[("L", 1)] if via.startswith("lmtp") else out[("A", 0)]
            print("re-run with the blobs table locked: stored=%s fetched=%r" % (r["stored"], r.get("f1")))
        return 0
    if "rcpt-transaction" in via:
        # one LMTP transaction with three recipients (two users and the role address); every copy is read back
        out, err = run_multircpt_world({"txs": [(0, [B, CAROL, ROLE])], "msgs": [{"_raw": raw}]})
        if out:
            for r in sorted(out):
                print("re-run, copy of %s: stored=%s fetched=%r" % (r, out[r][0]["stored"], out[r][0].get("f1")))
        return 0
    r, err = run_world([(raw, "lmtp" if via.startswith("lmtp") else "append")])
    if r:
        print("re-run on the implementation: stored=%s fetched=%r" % (r[0]["stored"], r[0].get("f1")))
    return 0
