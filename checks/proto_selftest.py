"""Self-test of the translator (harness/extract): structural mutants of the
server code must break the obligations c05_facts_ok / the C06 conjunction when
the facts table is regenerated from the mutated tree. Thorough tier of C05/C06.
A mutant that compiles but is NOT flagged is reported in the evidence (it
lowers the trust in the translator; it is not a violation of the property)."""
import os
import re
import shutil
import subprocess
import tempfile
import common as C
import proto_common as P

# (name, file, old text, new text, which obligation must break: "c05" | "c06")
MUTANTS = [
    ("store drops its authentication guard", "internal/server/message/message.go",
     'func HandleStore(deps ServerDeps, conn net.Conn, tag string, parts []string, state *models.ClientState) {\n\t// RFC 3501: STORE requires authentication and selected mailbox\n\tif !state.Authenticated {',
     'func HandleStore(deps ServerDeps, conn net.Conn, tag string, parts []string, state *models.ClientState) {\n\t// RFC 3501: STORE requires authentication and selected mailbox\n\tif false {', "c06"),
    ("expunge drops its selected-mailbox guard", "internal/server/message/message.go",
     '\t// Per RFC 3501: EXPUNGE is only valid in Selected state\n\tif state.SelectedMailboxID == 0 {',
     '\t// Per RFC 3501: EXPUNGE is only valid in Selected state\n\tif false {', "c06"),
    ("LOGIN accepted without TLS", "internal/server/auth/auth.go",
     '\tif !isTLS {\n\t\tdeps.SendResponse(conn, fmt.Sprintf("%s NO [PRIVACYREQUIRED] LOGIN is disabled',
     '\tif !isTLS && false {\n\t\tdeps.SendResponse(conn, fmt.Sprintf("%s NO [PRIVACYREQUIRED] LOGIN is disabled', "c06"),
    ("tag-only line answered untagged", "internal/server/connection.go",
     's.sendResponse(conn, fmt.Sprintf("%s BAD Invalid command format", parts[0]))',
     's.sendResponse(conn, "* BAD Invalid command format")', "c06"),
    ("role SELECT without the assignment check", "internal/server/selection/selection.go",
     'if err != nil || !isAssigned {', 'if err != nil || (!isAssigned && false) {', "c05"),
    ("EXPUNGE opens the personal store", "internal/server/message/message.go",
     None, None, "c05"),          # filled in below: first GetSelectedDB call inside HandleExpunge
    ("STARTTLS continues with the old session state", "internal/server/auth/auth.go",
     'clientHandler(tlsConn, &models.ClientState{})', 'clientHandler(tlsConn, &models.ClientState{Authenticated: true})', "c06"),
    ("SELECT no longer deselects first", "internal/server/selection/selection.go",
     "\tstate.SelectedMailboxID = 0\n\tstate.ReadOnly = false\n\tstate.IsRoleMailbox = false", "\tstate.ReadOnly = false\n\tstate.IsRoleMailbox = false", "c06"),
    ("LOGIN accepted on an authenticated session", "internal/server/auth/auth.go",
     '\t// RFC 3501 section 6.2: LOGIN is only valid in the not authenticated state\n\tif state.Authenticated {',
     '\t// RFC 3501 section 6.2: LOGIN is only valid in the not authenticated state\n\tif state.Authenticated && false {', "c05"),
    ("a handler answers twice", "internal/server/extension/extension.go",
     '\tdeps.SendResponse(conn, `* NAMESPACE (("" "/")) NIL NIL`)\n',
     '\tdeps.SendResponse(conn, `* NAMESPACE (("" "/")) NIL NIL`)\n\tdeps.SendResponse(conn, fmt.Sprintf("%s OK NAMESPACE completed", tag))\n', "c06"),
]

EVAL = """
Eval vm_compute in (c05_facts_ok table, guards_ok table && restart_ok table && replies_ok table && f_select_clears table && f_auth_final table && f_short_tagged table).
"""


def facts_verdict(tree):
    """-> (c05_ok, c06_ok) of the table regenerated from `tree`, or None"""
    exe = P.build_extract()
    p = subprocess.run([exe, tree], stdout=subprocess.PIPE, stderr=subprocess.PIPE, text=True, timeout=180)
    if p.returncode != 0 or "Definition table" not in p.stdout:
        return ("translator-refused", p.stderr.strip()[:200])
    body = p.stdout + "\nFrom Raven Require Import Model.Protocol.\n" + EVAL
    rc, log = C.coq_eval_cases("ProtoMut", body)
    m = re.search(r"=\s*\((true|false),\s*(true|false)\)", log)
    if rc != 0 or not m:
        return None
    return (m.group(1) == "true", m.group(2) == "true")


def run(chk):
    d = tempfile.mkdtemp(prefix="protomut.", dir="/var/tmp")
    results = []
    try:
        tree = os.path.join(d, "repo")
        shutil.copytree(C.REPO, tree, symlinks=True, ignore=shutil.ignore_patterns(".git"))
        base = facts_verdict(tree)
        results.append({"mutant": "(none)", "verdict": base})
        for (name, rel, old, new, which) in MUTANTS:
            path = os.path.join(tree, rel)
            src = open(path).read()
            if old is None:
                i = src.find("func HandleExpunge(")
                j = src.find("deps.GetSelectedDB(state)", i)
                if i < 0 or j < 0:
                    results.append({"mutant": name, "verdict": "site not found"})
                    continue
                mut = src[:j] + "deps.GetUserDB(state.UserID)" + src[j + len("deps.GetSelectedDB(state)"):]
                # GetUserDB returns two values: adapt the assignment on that line
                line_start = mut.rfind("\n", 0, j) + 1
                line_end = mut.find("\n", j)
                line = mut[line_start:line_end]
                mut = mut[:line_start] + re.sub(r"^(\s*)(\w+), (\w+), err :=", r"\1\2, err :=", line) + mut[line_end:]
            else:
                if old not in src:
                    results.append({"mutant": name, "verdict": "site not found"})
                    continue
                mut = src.replace(old, new, 1)
            open(path, "w").write(mut)
            rc, log = C.sh([C.GO, "build", "./internal/..."], cwd=tree, env=C.go_env(), timeout=600)
            if rc != 0:
                results.append({"mutant": name, "verdict": "does not compile"})
            else:
                v = facts_verdict(tree)
                flagged = (v is not None) and (v[0] == "translator-refused" or (which == "c05" and v[0] is False) or (which == "c06" and v[1] is False))
                results.append({"mutant": name, "expects": which, "verdict": v, "flagged": flagged})
            open(path, "w").write(src)
    finally:
        shutil.rmtree(d, ignore_errors=True)
    tried = [r for r in results if "flagged" in r]
    chk.cov["translator_selftest"] = {"mutants_tried": len(tried), "flagged": sum(1 for r in tried if r["flagged"]), "details": results}
    for r in tried:
        if not r["flagged"]:
            chk.notes.append("translator self-test: mutant '%s' compiles and does NOT break the %s obligation" % (r["mutant"], r["expects"]))
    if results and results[0]["verdict"] not in ((True, True),):
        chk.notes.append("translator self-test: the unmutated copy does not satisfy the obligations: %r" % (results[0]["verdict"],))
