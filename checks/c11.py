"""C11 -- mailbox names form an exact set.

Correspondence of Model/Names.v (+ Base/Like.v) with the mailbox handlers of
/repo and judgement of the implementation's observed behaviour by Spec/Names.v.

Suites
  (the exhaustive SQLite-LIKE suite was retired with the fix of the child query: the handlers no
   longer use LIKE; like_suite() is kept for replaying the old behaviour by hand)
  names   : histories of CREATE/DELETE/RENAME/SUBSCRIBE/UNSUBSCRIBE/APPEND/STATUS/SELECT/
            LIST/LSUB over an alphabet of colliding names, atoms and quoted forms; after
            every command the store is dumped; every step (state before, command, state
            after, tagged result, names shown) is evaluated inside Coq:
            model agrees exactly?  spec agrees?  finding class?  in the property's domain?
  corpus  : witnesses of the listed findings, replayed first
"""
import glob
import json
import os
import re
import common as C

CLS = [None] + ["retired_%d" % k for k in range(1, 16)]      # no finding class is left

KINDS = {"CREATE": "CCreate", "DELETE": "CDelete", "RENAME": "CRename", "SUBSCRIBE": "CSubscribe",
         "UNSUBSCRIBE": "CUnsubscribe", "LIST": "CList", "LSUB": "CLsub", "STATUS": "CStatus",
         "SELECT": "CSelect", "APPEND": "CAppend"}
# environment steps (no command line): restart of the IMAP side + login, LMTP delivery through the
# delivery side's own DBManager (ham -> INBOX, spam -> Spam)
ENV = ("RESTART", "DELIVER", "DELIVERSPAM")
LMTP_MSG = "From: a@example.com\r\nTo: u@example.com\r\nSubject: d\r\n%s\r\nbody\r\n.\r\n"

# names without any colliding feature: no LIKE wildcard, no case twins, no blanks/quotes
CLEAN = ["Work", "Work/sub", "Work/sub/deep/er", "archive", "archive/2024", "b", "b/c", "b/c/d/e",
         "p.q", "p-q", "z", "lists/dev", "lists/dev/null", "k/", "x]y", "Spam/old", "INBOX/in", "Trash/t",
         # bytes next to '/' (0x2f): '.' and '0' are the edges of db.childNameRange
         "Work0", "Work.", "Work0/x", "b0", "b.c", "b/",
         # an ancestor's name recurring inside a descendant's path: whole later segment, tail of a
         # segment, prefix of a sibling segment (a child's new name must be computed from the PREFIX only)
         "Work/Work/reports", "Work/MyWork/notes", "Work/Workshop", "Work/Workshop/deep", "Workshop/x",
         "b/b/c", "b/xb/c", "b/bc", "archive/archive/archive",
         # names only a quoted string can carry (tokenizer fix 2599345): blanks, double quotes, backslashes
         "My Folder", "My Folder/sub folder", "q\"uote", "back\\slash", "x y/z w", " lead", "trail ", "two  blanks",
         "a\\", "\"q\"", "a \\\" b", "Work/My Work/notes", "tab\there"]
# names built to collide
DIRTY = ["a_b", "axb", "axb/child", "a_b/k", "foo", "FOO", "FOO/kid", "foo/kid", "a%", "ab", "abc/d",
         "My Folder", "My", "q\"uote", "back\\slash", "Inbox/sub", "inbox", "INBOX", "Inbox", "sent", "Sent",
         "Trash", "Drafts", "DRAFTS", "Spam", "trailing/", "a/b/c/d", "a", "a/b", "a/b/b", "x y/z", "/lead",
         "a//b", "Roles/r@x/INBOX", "Archive", "%", "_", "a_", "A_B", "*star", "a/B", "A/b"]
ATOM_BAD = set(b'(){ %*"\\')
MSG = b"From: a@example.com\r\nTo: b@example.com\r\nSubject: s\r\n\r\n"
MSG = MSG + b"x" * (64 - len(MSG) - 2) + b"\r\n"
assert len(MSG) == 64


def is_atom(n):
    return len(n) > 0 and all(32 < c < 127 and c not in ATOM_BAD for c in n)


# the trailing-separator dimension: special names and their case variants with one or more '/' at the end
SLASHED = ["inbox/", "Inbox/", "INBOX/", "INBOX//", "inbox//", "Roles/", "roles/", "Roles//", "Sent/", "sent/", "Trash/",
           "Spam//", "/", "//", "Work/", "Work//", "Work/sub/", "nop/arent/", "My Folder/", "q\"uote/", "Inbox/sub/", "b/"]
SLASH_P = 0.0


def encode(rng, name):
    """raw astring for a decoded name: atom when possible (half of the time), else quoted;
    with probability SLASH_P (set per history family) one or two '/' are appended first"""
    if SLASH_P and rng.random() < SLASH_P:
        name = (name if isinstance(name, str) else name.decode("latin-1")) + rng.choice(["/", "/", "//"])
    b = name.encode("latin-1") if isinstance(name, str) else name
    if is_atom(b) and rng.random() < 0.5:
        return b
    return b'"' + b.replace(b"\\", b"\\\\").replace(b'"', b'\\"') + b'"'


def wire(cmd):
    k = cmd[0]
    if k in ENV:
        return ("<" + k + ">").encode()
    a = [x if isinstance(x, bytes) else x.encode("latin-1") for x in cmd[1:]]
    if k == "LIST" or k == "LSUB":
        return k.encode() + b' "" "*"'
    if k == "STATUS":
        return b"STATUS " + a[0] + b" (MESSAGES)"
    if k == "APPEND":
        return b"APPEND " + a[0] + b" {64}"
    return k.encode() + b" " + b" ".join(a)


def gen_history(rng, mode, length):
    """mode: clean | mixed | malformed | nonascii"""
    pool = list(CLEAN) if mode == "clean" else CLEAN + DIRTY + DIRTY
    used = []
    h = []

    def pick(existing_bias=0.7):
        if used and rng.random() < existing_bias:
            n = rng.choice(used)
            if rng.random() < 0.15 and "/" in n:
                n = n[:n.rindex("/")]
            return n
        return rng.choice(pool)

    for _ in range(length):
        r = rng.random()
        if mode in ("clean", "mixed") and rng.random() < 0.07:
            h.append((rng.choice(ENV),))
            continue
        if r < 0.26:
            n = rng.choice(pool)
            h.append(("CREATE", encode(rng, n)))
            used.append(n.rstrip("/") if n.endswith("/") else n)
        elif r < 0.38:
            h.append(("DELETE", encode(rng, pick())))
        elif r < 0.58:
            o = pick(0.85)
            n = rng.choice(pool)
            if rng.random() < 0.15:
                o = "INBOX" if mode == "clean" else rng.choice(["INBOX", "inbox"])
            h.append(("RENAME", encode(rng, o), encode(rng, n)))
            used.append(n)
        elif r < 0.66:
            h.append(("SUBSCRIBE", encode(rng, rng.choice(pool + ["INBOX"]))))
        elif r < 0.71:
            h.append(("UNSUBSCRIBE", encode(rng, rng.choice(pool + ["INBOX"]))))
        elif r < 0.83:
            n = pick(0.8) if rng.random() < 0.7 else "INBOX"
            if any(ch in n for ch in "(){}"):
                n = "INBOX"
            h.append(("APPEND", encode(rng, n)))
        elif r < 0.89:
            h.append(("STATUS", encode(rng, pick(0.85))))
        elif r < 0.93:
            h.append(("SELECT", encode(rng, pick(0.85))))
        elif r < 0.97:
            h.append(("LIST",))
        else:
            h.append(("LSUB",))
    if mode == "malformed":
        bad = [b'"abc', b'abc"', b'"a\\x"', b'a(b', b'', b'"a"b"', b'""', b'"', b'a\\b', b'"a" "b"']
        for i in range(len(h)):
            if rng.random() < 0.4 and h[i][0] not in ("LIST", "LSUB", "APPEND"):
                h[i] = (h[i][0],) + tuple(rng.choice(bad) for _ in h[i][1:])
    if mode == "nonascii":
        na = [b"caf\xc3\xa9", b"CAF\xc3\x89", b"caf\xc3\xa9/x", b"\xe9", b"a\xff_"]
        for i in range(len(h)):
            if rng.random() < 0.5 and h[i][0] in ("CREATE", "RENAME", "DELETE"):
                h[i] = (h[i][0],) + tuple(b'"' + rng.choice(na) + b'"' for _ in h[i][1:])
    h.append(("LIST",))
    return h


def gen_recur(rng):
    """>= 3-level hierarchies in which the ancestor's name recurs in its descendants; messages in
    every mailbox; RENAME / DELETE of the ancestor (or of a middle node); STATUS of every name after it"""
    anc = rng.choice(["Work", "b", "lists", "Ab"])
    fam = [anc + "/" + anc + "/reports", anc + "/My" + anc + "/notes", anc + "/" + anc + "shop",
           anc + "/" + anc + "shop/deep/" + anc, anc + "/x/" + anc, anc + "shop/" + anc, anc + "/" + anc + "/" + anc]
    rng.shuffle(fam)
    fam = fam[:rng.randint(3, len(fam))]
    h = [("CREATE", encode(rng, n)) for n in fam]
    known = set([anc])
    for n in fam:
        parts = n.split("/")
        for i in range(1, len(parts) + 1):
            known.add("/".join(parts[:i]))
    for n in sorted(known):
        for _ in range(rng.randint(0, 2)):
            h.append(("APPEND", encode(rng, n)))
    tail = h[len(fam):]
    rng.shuffle(tail)
    h[len(fam):] = tail
    for rnd in range(rng.randint(1, 2)):
        r = rng.random()
        src = anc if r < 0.7 else rng.choice(sorted(k for k in known if "/" in k) or [anc])
        if rng.random() < 0.2:
            h.append(("DELETE", encode(rng, src)))
        dst = rng.choice(["z", "Arch/2024", src + "s", "x/" + anc, "My" + anc, anc.lower() + "2"])
        h.append(("RENAME", encode(rng, src), encode(rng, dst)))
        moved = set()
        for k in known:
            moved.add(dst + k[len(src):] if (k == src or k.startswith(src + "/")) else k)
        for k in sorted(moved | known):
            h.append(("STATUS", encode(rng, k)))
        known = moved
        h.append(("LIST",))
        if known:
            k = rng.choice(sorted(known))
            h.append(("APPEND", encode(rng, k)))
            h.append(("STATUS", encode(rng, k)))
    leaf = max(known, key=len) if known else anc
    h.append(("DELETE", encode(rng, leaf)))
    h.append(("LIST",))
    return h


def gen_slash(rng):
    """names with trailing hierarchy separators in every command that takes a name: CREATE of the special
    names / case variants / existing names / names with a missing parent + '/', then DELETE, RENAME (either
    argument), SUBSCRIBE, STATUS, SELECT, APPEND on the slashed and the bare forms, LIST after each round"""
    h = []
    seen = []
    for rnd in range(rng.randint(2, 3)):
        for _ in range(rng.randint(2, 4)):
            n = rng.choice(SLASHED)
            h.append(("CREATE", encode(rng, n)))
            seen.append(n)
        h.append(("LIST",))
        for _ in range(rng.randint(3, 5)):
            n = rng.choice(seen + SLASHED[:8])
            bare = n.rstrip("/") or "/"
            arg = rng.choice([n, bare, bare + "/", bare.lower(), bare.upper()])
            k = rng.choice(["DELETE", "RENAME", "RENAME2", "SUBSCRIBE", "STATUS", "SELECT", "APPEND", "UNSUBSCRIBE"])
            if k == "RENAME":
                h.append(("RENAME", encode(rng, arg), encode(rng, "moved%d" % len(h))))
            elif k == "RENAME2":
                h.append(("RENAME", encode(rng, rng.choice(["Spam", "Trash", "Work", "INBOX"])), encode(rng, arg)))
            elif k == "APPEND" and any(ch in arg for ch in "(){}"):
                continue
            else:
                h.append((k, encode(rng, arg)))
        h.append(("LIST",))
        h.append(("LSUB",))
    return h


def gen_env(rng):
    """a default name is removed (DELETE Spam, RENAME of Sent/Drafts/Trash/Spam) or kept, then the store
    is opened afresh -- first delivery through the delivery side's manager, IMAP restart + login --
    interleaved with naming commands; LIST and STATUS of the removed names after every fresh open"""
    h = []
    gone = []
    pool = ["Work", "Drafts-2023", "old/Sent", "x y", "b"]
    for _ in range(rng.randint(1, 3)):
        r = rng.random()
        if r < 0.35 and "Spam" not in gone:
            h.append(("DELETE", encode(rng, "Spam")))
            gone.append("Spam")
        elif r < 0.85:
            d = rng.choice([x for x in ("Sent", "Drafts", "Trash", "Spam") if x not in gone] or ["Work"])
            h.append(("RENAME", encode(rng, d), encode(rng, rng.choice(pool) + str(len(h)))))
            gone.append(d)
        else:
            h.append(("CREATE", encode(rng, rng.choice(pool))))
        if rng.random() < 0.4:
            h.append(("APPEND", encode(rng, "INBOX")))
    for rnd in range(rng.randint(2, 4)):
        h.append((rng.choice(["DELIVER", "RESTART", "DELIVER", "DELIVERSPAM"]),))
        h.append(("LIST",))
        for g in gone[:2]:
            h.append(("STATUS", encode(rng, g)))
        r = rng.random()
        if r < 0.3 and gone:
            h.append(("CREATE", encode(rng, rng.choice(gone))))
        elif r < 0.5:
            h.append(("RENAME", encode(rng, "INBOX"), encode(rng, "moved%d" % rnd)))
        elif r < 0.7:
            h.append(("SUBSCRIBE", encode(rng, rng.choice(["INBOX", "Work"]))))
            h.append(("LSUB",))
    h.append(("RESTART",))
    h.append(("LIST",))
    return h


def scenario(h, slow=False):
    """timing is never what C11 judges: every wait is generous (tagged replies within 20 s, 60 s
    on a retry); a wait that still runs out makes the scenario a HARNESS failure (see observe)"""
    T = 60000 if slow else 20000
    ops = [{"op": "open", "conn": "c"},
           {"op": "send", "conn": "c", "data": "a0 LOGIN u@example.com pw\r\n", "until": "tag:a0", "timeout_ms": T},
           {"op": "dump"}]
    for i, cmd in enumerate(h):
        tag = "t%d" % i
        line = tag.encode() + b" " + wire(cmd)
        if cmd[0] == "RESTART":
            # new DBManagers on the same directory (the delivery side's one is dropped too), then
            # the first login: GetUserDB opens the user's store again
            ops.append({"op": "restart"})
            ops.append({"op": "open", "conn": "c"})
            ops.append({"op": "send", "conn": "c", "data": "%s LOGIN u@example.com pw\r\n" % tag, "until": "tag:" + tag, "timeout_ms": T})
            ops.append({"op": "dump"})
            continue
        if cmd[0] in ("DELIVER", "DELIVERSPAM"):
            l = "l%d" % i
            ops.append({"op": "lmtp_open", "conn": l, "separate_mgr": True})
            for data in ("LHLO x\r\n", "MAIL FROM:<a@example.com>\r\n", "RCPT TO:<u@example.com>\r\n", "DATA\r\n"):
                ops.append({"op": "send", "conn": l, "data": data, "until": "lmtp:1", "timeout_ms": T})
            ops.append({"op": "send", "conn": l, "data": LMTP_MSG % ("X-Spam-Status: Yes, score=9\r\n" if cmd[0] == "DELIVERSPAM" else ""), "until": "lmtp:1", "timeout_ms": T})
            ops.append({"op": "send", "conn": l, "data": "QUIT\r\n", "until": "lmtp:1", "timeout_ms": T})
            ops.append({"op": "dump"})
            continue
        if cmd[0] == "APPEND":
            ops.append({"op": "c11_append", "conn": "c", "tag": tag, "line": C.latin(line), "literal": C.latin(MSG), "timeout_ms": T})
        else:
            ops.append({"op": "send", "conn": "c", "data": C.latin(line + b"\r\n"), "until": "tag:" + tag, "timeout_ms": T})
        ops.append({"op": "dump"})
    return ops


def state_of_dump(d):
    stores = [v for k, v in sorted(d.get("stores", {}).items()) if k != "shared"]
    if len(stores) != 1:
        return None
    v = stores[0]
    msgs = sorted(m[0] for m in (v.get("messages") or []))
    rank = {m: i for i, m in enumerate(msgs)}
    boxes = []
    for mb in (v.get("mailboxes") or []):
        links = [(l[3], rank.get(l[1], -1)) for l in (v.get("links") or []) if l[2] == mb[0]]
        boxes.append((C.unlatin(mb[2]), links, mb[4]))
    subs = [C.unlatin(s[1]) for s in (v.get("subs") or [])]
    return (boxes, subs, len(msgs))


# the mailbox-name token exactly as written (utils.QuoteString); decoded inside Coq (decode_astring)
LINE_RE = re.compile(rb'^\* (?:LIST|LSUB) \(.*?\) "/" (.*)$')
STATUS_RE = re.compile(rb'^\* STATUS ".*" \(MESSAGES (\d+)\)$')


def parse_reply(recv, how, tag):
    b = C.unlatin(recv)
    if b"\x00PANIC" in b:
        return "RPanic", []
    view = []
    rc = None
    for ln in b.split(b"\r\n"):
        if ln.startswith(tag.encode() + b" "):
            w = ln.split(b" ")[1:2]
            rc = {b"OK": "ROk", b"NO": "RNo", b"BAD": "RBad"}.get(w[0] if w else b"", None)
        m = LINE_RE.match(ln)
        if m:
            view.append(m.group(1))
        m = STATUS_RE.match(ln)
        if m:
            view.append(m.group(1))
    return rc, view


def step_positions(h):
    """index of (reply op, dump op) of every step in scenario(h)"""
    pos = []
    j = 3
    for cmd in h:
        if cmd[0] == "RESTART":
            pos.append((j + 2, j + 3))
            j += 4
        elif cmd[0] in ("DELIVER", "DELIVERSPAM"):
            pos.append((j + 5, j + 7))
            j += 8
        else:
            pos.append((j, j + 1))
            j += 2
    return pos


class HarnessFailure(Exception):
    """the scenario could not be run as intended (setup not completed, a wait ran out, the driver
    died): nothing about raven can be concluded from it"""


def _ok(o):
    return o.get("how") in ("ok", None) and "error" not in o


def observe(h, res):
    """-> (initial state, [ostep...]); raises HarnessFailure when the run is not a valid observation"""
    obs = res.get("obs") or []
    if res.get("crashed") or len(obs) < 3:
        raise HarnessFailure("driver run unusable: %s" % (res.get("stderr", "") or "")[:200])
    # setup: greeting, LOGIN answered OK, the account's store exists and has INBOX
    if not _ok(obs[0]) or not C.unlatin(obs[0].get("recv", "")).startswith(b"* OK"):
        raise HarnessFailure("no greeting (%s)" % obs[0].get("how"))
    if not _ok(obs[1]) or b"a0 OK" not in C.unlatin(obs[1].get("recv", "")):
        raise HarnessFailure("setup LOGIN not answered OK (%s)" % obs[1].get("how"))
    init = state_of_dump(obs[2])
    if init is None or b"INBOX" not in [b[0] for b in init[0]]:
        raise HarnessFailure("first observation has no store with INBOX")
    steps = []
    pos = step_positions(h)
    for i, (cmd, (jr, jd)) in enumerate(zip(h, pos)):
        if jd >= len(obs):
            raise HarnessFailure("driver output ends before step %d" % i)
        first = pos[i - 1][1] + 1 if i else 3
        # every auxiliary op of the step (restart, open, lmtp dialogue) must have completed
        for j in range(first, jr):
            o = obs[j]
            if not _ok(o) or o.get("how") == "timeout":
                raise HarnessFailure("step %d (%s): auxiliary op %d did not complete (%s)" % (i, cmd[0], j - first, o.get("how") or o.get("error")))
        how = obs[jr].get("how")
        if how in ("timeout", "write-error") and b"\x00PANIC" not in C.unlatin(obs[jr].get("recv", "")):
            raise HarnessFailure("step %d (%s): no reply within the wait (%s)" % (i, show_cmd(cmd), how))
        if cmd[0] in ("DELIVER", "DELIVERSPAM"):
            if not C.unlatin(obs[jr - 5].get("recv", "")).startswith(b"220") or not C.unlatin(obs[jr - 1].get("recv", "")).startswith(b"354"):
                raise HarnessFailure("step %d: LMTP dialogue did not reach DATA" % i)
            rep = C.unlatin(obs[jr].get("recv", ""))
            rc, view = ("ROk" if rep.startswith(b"250") else "RNo" if rep[:1] in (b"4", b"5") else None), []
        else:
            rc, view = parse_reply(obs[jr].get("recv", ""), how, "t%d" % i)
            if cmd[0] == "RESTART" and rc != "ROk":
                raise HarnessFailure("step %d: LOGIN after the restart not answered OK" % i)
        st = state_of_dump(obs[jd])
        if st is None:
            raise HarnessFailure("step %d: store dump unusable" % i)
        if rc is None:
            steps.append((st, "RBad", view, "noreply:" + str(how)))
            break
        steps.append((st, rc, view, None))
        if rc == "RPanic":
            break
    return init, steps


def execute(hs, stats):
    """run the histories, each in a fresh driver; a harness failure is retried twice on a fresh
    driver with longer waits and fewer drivers side by side. -> list of (h, init, steps) | None"""
    out = [None] * len(hs)
    todo = list(range(len(hs)))
    for attempt in range(3):
        if not todo:
            break
        slow = attempt > 0
        results = C.run_many([scenario(hs[i], slow=slow) for i in todo], workers=12 if attempt == 0 else 4, timeout=1800)
        failed = []
        for i, r in zip(todo, results):
            try:
                init, steps = observe(hs[i], r)
                out[i] = (hs[i], init, steps)
            except HarnessFailure as e:
                failed.append(i)
                stats["harness_retries"].append("attempt %d: %s" % (attempt + 1, e))
        todo = failed
    stats["not_set_up"] += len(todo)
    stats["scenarios"] += len(hs)
    return out


def coq_box(b):
    n, links, nx = b
    return "(%s, [%s], %s)" % (C.coq_str(n), "; ".join("(%s, %s)" % (C.coq_z(u), C.coq_z(t)) for u, t in links), C.coq_z(nx))


def coq_cmd(cmd):
    if cmd[0] == "RESTART":
        return "ERestart"
    if cmd[0] in ("DELIVER", "DELIVERSPAM"):
        return "(EDeliver %s)" % ("true" if cmd[0] == "DELIVERSPAM" else "false")
    return "(ECmd " + coq_cmd_imap(cmd) + ")"


def coq_cmd_imap(cmd):
    return "(" + " ".join([KINDS[cmd[0]]] + [C.coq_str(a if isinstance(a, bytes) else a.encode("latin-1")) for a in cmd[1:]]) + ")"


def coq_state(st):
    boxes, subs, nm = st
    return "(store_of [%s] [%s] %s)" % ("; ".join(coq_box(b) for b in boxes), "; ".join(C.coq_str(s) for s in subs), C.coq_z(nm))


def coq_ostep(s):
    (boxes, subs, nm), rc, view, _ = s
    return "([%s], [%s], %s, %s, [%s])" % ("; ".join(coq_box(b) for b in boxes), "; ".join(C.coq_str(x) for x in subs),
                                          C.coq_z(nm), rc, "; ".join(C.coq_str(v) for v in view))


HEADER = C.COQ_CASE_HEADER + "From Raven Require Import Base.Enum Base.Like Model.Pattern Model.Names Spec.Names Spec.NamesEval.\n"


def judge_all(pid, items):
    """items: list of (h, init, steps). Returns list of code lists (or None on failure, log)."""
    body = HEADER
    for i, (h, init, steps) in enumerate(items):
        k = len(steps)
        body += "Definition r%d := Eval vm_compute in judge_trace %s [%s] [%s].\nPrint r%d.\n" % (
            i, coq_state(init), "; ".join(coq_cmd(c) for c in h[:k]), ";\n ".join(coq_ostep(s) for s in steps), i)
    rc, log = C.coq_eval_cases(pid, body)
    if rc != 0:
        return None, log
    out = []
    for i in range(len(items)):
        txt = C.parse_coq_list_out(log, "r%d" % i)
        if txt is None:
            return None, log
        txt = txt.strip()
        out.append([] if txt == "[]" else [int(x) for x in txt.strip("[]").replace("%nat", "").split(";") if x.strip()])
    return out, log


def show_cmd(cmd):
    return wire(cmd).decode("latin-1")


def payload_of(h, k, steps, init, extra=None):
    p = {"suite": "names", "history": [[c[0]] + [C.latin(a) for a in c[1:]] for c in h[:k + 1]], "step": k,
         "command": show_cmd(h[k]),
         "names_before": [C.latin(b[0]) for b in (steps[k - 1][0][0] if k > 0 else init[0])],
         "names_after": [C.latin(b[0]) for b in steps[k][0][0]],
         "result": steps[k][1], "shown": [C.latin(v) for v in steps[k][2]],
         "replay": "bin/check C11 replay <this file>"}
    if extra:
        p.update(extra)
    return p


def verdicts(h, steps, cl, k):
    code = cl[k]
    return bool(code & 1), bool(code & 2), CLS[(code >> 2) & 15], bool(code & 64)


def decide(chk, items, codes, stats, confirm=True):
    """the decision rule of CONVENTIONS.md on every judged step. Nothing is reported directly: a
    candidate is re-run ALONE on a fresh driver first and reported only if it reproduces."""
    cands = []   # (kind, what, payload, cls, h, k, predicate name)
    for (h, init, steps), cl in zip(items, codes):
        for k, code in enumerate(cl):
            m_ok, s_ok, cls, valid = verdicts(h, steps, cl, k)
            stats["steps"] += 1
            nonascii = any(any(c > 127 for c in (a if isinstance(a, bytes) else a.encode("latin-1"))) for a in h[k][1:])
            if steps[k][3]:
                cands.append(("broken", "no tagged reply to %r (%s)" % (show_cmd(h[k]), steps[k][3]), payload_of(h, k, steps, init), None, h, k, "noreply"))
                continue
            if valid and not nonascii:
                stats["valid_steps"] += 1
                if cls is None:
                    stats["clean_steps"] += 1
                    stats["clean_kinds"].add(h[k][0] + ":" + steps[k][1])
                else:
                    stats["class_steps"][cls] = stats["class_steps"].get(cls, 0) + 1
                if not s_ok:
                    if cls is not None:
                        chk.violation("%s: after %r the implementation's state/result differs from the set semantics (names before: %s; after: %s; result %s)"
                                      % (cls, show_cmd(h[k]), payload_of(h, k, steps, init)["names_before"][5:], payload_of(h, k, steps, init)["names_after"][5:], steps[k][1]),
                                      payload_of(h, k, steps, init), cls=cls)
                        if not m_ok:
                            stats["model_diff_in_class"] += 1
                    else:
                        cands.append(("violation", "after %r the implementation's state/result differs from the set semantics of C11 outside every listed finding class (model agrees: %s)"
                                      % (show_cmd(h[k]), m_ok), payload_of(h, k, steps, init, {"model_agrees": m_ok}), None, h, k, "spec"))
                elif not m_ok:
                    if cls is None:
                        cands.append(("broken", "correspondence names no longer checks: implementation and model differ on %r (spec not violated: row order or cargo)" % show_cmd(h[k]),
                                      payload_of(h, k, steps, init), None, h, k, "model"))
                    else:
                        stats["model_diff_in_class"] += 1
            else:
                stats["outside_domain_steps"] += 1
                if not m_ok:
                    if nonascii:
                        chk.notes.append("domain edge (non-ASCII bytes): model and implementation differ on %r" % show_cmd(h[k]))
                    else:
                        cands.append(("broken", "correspondence names no longer checks: implementation and model differ on the malformed command %r" % show_cmd(h[k]),
                                      payload_of(h, k, steps, init), None, h, k, "model"))
    if not cands:
        return
    stats["candidates"] += len(cands)
    cands = cands[:200]
    if confirm:
        prefixes = [list(c[4][:c[5] + 1]) for c in cands]
        again = execute(prefixes, stats)
        ok_items = [(i, it) for i, it in enumerate(again) if it is not None and len(it[2]) == len(prefixes[i])]
        codes2 = {}
        for j in range(0, len(ok_items), 60):
            chunk = ok_items[j:j + 60]
            cs, log = judge_all("C11confirm", [it for _, it in chunk])
            if cs is None:
                chk.broken_obligation("in-Coq evaluation of the C11 confirmation runs failed:\n" + log[-1500:])
                return
            for (i, it), cl in zip(chunk, cs):
                codes2[i] = (it, cl)
    for i, (kind, what, payload, cls, h, k, pred) in enumerate(cands):
        if confirm:
            if i not in codes2:
                stats["not_reproduced"] += 1      # could not even be re-run: nothing is concluded
                continue
            (h2, init2, steps2), cl2 = codes2[i]
            m2, s2, _, _ = verdicts(h2, steps2, cl2, k)
            still = {"spec": not s2, "model": not m2, "noreply": bool(steps2[k][3])}[pred]
            if not still:
                stats["not_reproduced"] += 1
                continue
            payload = payload_of(h2, k, steps2, init2, {"model_agrees": m2, "reproduced_alone_on_a_fresh_driver": True})
        stats["disagreements"] += 1
        if kind == "violation":
            chk.violation(what, payload, cls=cls)
        else:
            chk.broken_obligation(what, payload)


def run_histories(chk, hs, stats, pid_suffix=""):
    items = [it for it in execute(hs, stats) if it is not None]
    out = []
    for i in range(0, len(items), 60):
        chunk = items[i:i + 60]
        codes, log = judge_all("C11" + pid_suffix, chunk)
        if codes is None:
            chk.broken_obligation("in-Coq evaluation of the C11 cases failed:\n" + log[-2000:])
            return items, None
        out += codes
    return items, out


def like_suite(chk):
    L = 6 if chk.tier == "quick" else 7
    alpha = "aB_%/"
    r = C.run_ops([{"op": "enum_like", "alpha": alpha, "L": L}], timeout=600)
    if r.get("crashed") or "words" not in (r["obs"][0] if r["obs"] else {}):
        chk.broken_obligation("driver failed on the LIKE enumeration: %s %s" % (r.get("stderr", "")[:300], r.get("obs")))
        return 0
    words, count = r["obs"][0]["words"], r["obs"][0]["count"]
    body = HEADER + "Definition alpha := %s.\n" % C.coq_str(alpha)
    body += "Definition impl_words : list N := [%s]%%N.\n" % ";".join(words)
    body += "Definition model_words := Eval vm_compute in pack 60 (map (fun '(p,n) => like p n) (pairs_upto alpha %d)).\n" % L
    body += "Definition like_diff := Eval vm_compute in diff_positions N.eqb 0 impl_words model_words.\nPrint like_diff.\n"
    rc, log = C.coq_eval_cases("C11like", body)
    txt = C.parse_coq_list_out(log, "like_diff") if rc == 0 else None
    if txt is None:
        chk.broken_obligation("in-Coq evaluation of the LIKE enumeration failed:\n" + log[-1500:])
        return 0
    if txt.strip() != "[]":
        w = int(txt.strip("[]").replace("%nat", "").split(";")[0])
        chk.broken_obligation("correspondence like no longer checks: SQLite's LIKE differs from Base/Like.v within word %d of the enumeration (|p|+|n|<=%d over %s)" % (w, L, alpha),
                              {"suite": "like", "word": w, "L": L, "alpha": alpha})
    chk.cov["like_pairs_exhaustive"] = count
    return count


def load_corpus():
    out = []
    for f in sorted(glob.glob(os.path.join(C.VERIF, "corpus", "C11", "*.json"))):
        d = json.load(open(f))
        h = [tuple([c[0]] + [C.unlatin(a) for a in c[1:]]) for c in d["history"]]
        out.append((f, d, h))
    return out


def new_stats():
    return {"harness_retries": [], "not_set_up": 0, "scenarios": 0, "candidates": 0, "not_reproduced": 0, "steps": 0, "valid_steps": 0, "clean_steps": 0, "clean_kinds": set(), "class_steps": {}, "outside_domain_steps": 0,
            "disagreements": 0, "model_diff_in_class": 0}


def run(chk):
    rng = chk.rng
    stats = new_stats()
    # 1. corpus witnesses of the listed findings
    corpus = load_corpus()
    items, codes = run_histories(chk, [h for _, _, h in corpus], stats, "corpus")
    if codes is None:
        return
    decide(chk, items, codes, stats)
    nlike = 0
    # 3. generated histories
    quick = chk.tier == "quick"
    n_clean, n_mixed, n_bad, n_na, n_rec, n_env, n_sl = (45, 40, 10, 6, 22, 18, 20) if quick else (600, 600, 80, 30, 300, 200, 250)
    global SLASH_P
    SLASH_P = 0.08          # 8 % of the name arguments of clean / mixed histories get trailing separators
    hs = ([gen_history(rng, "clean", rng.randint(10, 16)) for _ in range(n_clean)]
          + [gen_history(rng, "mixed", rng.randint(10, 16)) for _ in range(n_mixed)])
    SLASH_P = 0.0
    hs = (hs
          + [gen_history(rng, "malformed", rng.randint(6, 10)) for _ in range(n_bad)]
          + [gen_history(rng, "nonascii", rng.randint(6, 10)) for _ in range(n_na)]
          + [gen_recur(rng) for _ in range(n_rec)]
          + [gen_env(rng) for _ in range(n_env)]
          + [gen_slash(rng) for _ in range(n_sl)])
    items, codes = run_histories(chk, hs, stats)
    if codes is None:
        return
    decide(chk, items, codes, stats)
    distinct = set()
    for (h, init, steps) in items:
        for k in range(len(steps)):
            if h[k][0] in ("CREATE", "DELETE", "RENAME", "SUBSCRIBE", "UNSUBSCRIBE", "APPEND") and steps[k][1] == "ROk":
                distinct.add((tuple(b[0] for b in (steps[k - 1][0][0] if k else init[0])), h[k]))
    # harness health: a scenario that could not be set up says nothing about raven
    chk.cov["scenarios_run"] = stats["scenarios"]
    chk.cov["scenarios_retried_after_harness_failure"] = len(stats["harness_retries"])
    chk.cov["scenarios_not_set_up_after_3_attempts"] = stats["not_set_up"]
    chk.cov["candidate_reports"] = stats["candidates"]
    chk.cov["candidates_not_reproduced_alone_on_a_fresh_driver (dropped)"] = stats["not_reproduced"]
    if stats["harness_retries"]:
        chk.notes.append("harness: %d scenario run(s) repeated on a fresh driver (first reasons: %s)" % (len(stats["harness_retries"]), "; ".join(stats["harness_retries"][:3])))
    if stats["not_set_up"] > max(3, 0.05 * stats["scenarios"]):
        chk.broken_obligation("harness cannot run: %d of %d scenarios could not be set up after 3 attempts (%s)" % (stats["not_set_up"], stats["scenarios"], "; ".join(stats["harness_retries"][-3:])),
                              {"suite": "harness", "not_set_up": stats["not_set_up"], "scenarios": stats["scenarios"]})
    elif stats["not_set_up"]:
        chk.notes.append("harness: %d of %d scenarios could not be set up after 3 attempts and were left out (not a finding about raven)" % (stats["not_set_up"], stats["scenarios"]))
    chk.cov["evaluations"] = stats["steps"] + nlike
    chk.cov["histories"] = len(items)
    chk.cov["steps_in_domain"] = stats["valid_steps"]
    chk.cov["steps_outside_every_class"] = stats["clean_steps"]
    chk.cov["clean_kinds_results"] = sorted(stats["clean_kinds"])
    chk.cov["steps_per_finding_class"] = stats["class_steps"]
    chk.cov["steps_outside_domain_model_only"] = stats["outside_domain_steps"]
    chk.cov["model_differs_inside_class_informational"] = stats["model_diff_in_class"]
    chk.cov["distinct_nontrivial"] = len(distinct)
    chk.cov["rule"] = ("one evaluation = one observed step (store dump before, command line, store dump after, tagged result, names shown) judged inside Coq by "
                       "judge_trace (model run_cmd exact incl. row order, uid and message links; spec_step as sets; classify; valid_cmd), "
                       "distinct non-trivial = distinct (set of names before, state-changing command) pairs whose command succeeded")
    chk.cov["traces_validated_against_impl"] = len(items)
    chk.cov["disagreements_checked"] = stats["disagreements"]
    chk.cov["input_distribution"] = {"clean_histories": n_clean, "mixed_histories": n_mixed, "malformed_histories": n_bad, "nonascii_histories": n_na,
                                     "recurring_ancestor_histories (>=3 levels, ancestor name inside descendants, RENAME/DELETE + STATUS per name)": n_rec,
                                     "environment_histories (default name removed, then fresh store opens: delivery via the delivery side's manager, IMAP restart + login)": n_env,
                                     "environment steps inside clean/mixed histories": "7% of the steps",
                                     "trailing_separator_histories (special names / case variants / existing / missing-parent names with one or more trailing '/', in CREATE, DELETE, RENAME both arguments, SUBSCRIBE, UNSUBSCRIBE, STATUS, SELECT, APPEND)": n_sl,
                                     "trailing separators inside clean/mixed histories": "8% of the name arguments",
                                     "names": len(CLEAN) + len(DIRTY), "encoding": "atom or quoted, 50/50 when both are possible"}
    for (h, init, steps) in items[:1] + items[n_clean:n_clean + 1]:
        k = min(3, len(steps) - 1)
        chk.sample({"command": show_cmd(h[k]), "result": steps[k][1], "names_after": [C.latin(b[0]) for b in steps[k][0][0]]})


def replay(path):
    d = json.load(open(path))
    if d.get("suite") == "like":
        print(json.dumps(d, indent=1))
        return 0
    h = [tuple([c[0]] + [C.unlatin(a) for a in c[1:]]) for c in d["history"]]
    r = C.run_ops(scenario(h, slow=True), timeout=1800)
    try:
        init, steps = observe(h, r)
    except HarnessFailure as e:
        print("harness failure, nothing concluded:", e)
        return 1
    codes, log = judge_all("C11replay", [(h, init, steps)])
    for k, s in enumerate(steps):
        code = codes[0][k] if codes else -1
        print("%2d %-40s -> %s shown=%s names=%s" % (k, show_cmd(h[k]), s[1], [v.decode("latin-1") for v in s[2]], [b[0].decode("latin-1") for b in s[0][0]]))
        if codes:
            print("     model agrees=%s spec agrees=%s class=%s in-domain=%s" % (bool(code & 1), bool(code & 2), CLS[(code >> 2) & 15], bool(code & 64)))
    return 0
