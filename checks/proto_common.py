"""Shared machinery of the C05 / C06 checks: translator run (pregen), seeded
worlds, IMAP command programs, observation extraction, and evaluation of the
Coq oracle Spec/ProtoCheck.v on the observed sessions."""
import base64
import hashlib
import json
import os
import re
import subprocess

import common as C

A = "alice@example.com"
B = "bob@example.com"
R1 = "sales@example.com"     # role mailbox, alice assigned
R2 = "board@example.com"     # role mailbox, nobody / only bob assigned
NEWHIRE = "newhire@example.com"

FACTS = os.path.join(C.COQ, "Gen", "Facts.v")

EMPTY_FACTS = """(* translator failed: %s *)
From Coq Require Import String List Bool.
From Raven Require Import Model.ProtoFacts.
Import ListNotations.
Definition table : facts := mk_facts [] [] [] false false false false.
"""


def build_extract():
    out = os.path.join(C.BUILD, "extract")
    src = os.path.join(C.VERIF, "harness", "extract", "main.go")
    if os.path.exists(out) and os.path.getmtime(out) >= os.path.getmtime(src):
        return out
    with C.Lock("extract"):
        rc, log = C.sh([C.GO, "build", "-o", out, src], cwd=os.path.dirname(src), env=C.go_env(), timeout=600)
        if rc != 0:
            raise C.BuildError("translator does not build: " + log[-2000:])
    return out


def pregen():
    """Regenerate coq/Gen/Facts.v from REPO's current Go AST."""
    os.makedirs(os.path.dirname(FACTS), exist_ok=True)
    try:
        exe = build_extract()
        p = subprocess.run([exe, C.REPO], stdout=subprocess.PIPE, stderr=subprocess.PIPE, text=True, timeout=120)
        if p.returncode != 0 or "Definition table" not in p.stdout:
            C.write_if_changed(FACTS, EMPTY_FACTS % (p.stderr.strip()[:300].replace("*)", "* )")))
            return
        C.write_if_changed(FACTS, p.stdout)
    except Exception as e:  # noqa
        C.write_if_changed(FACTS, EMPTY_FACTS % str(e)[:300].replace("*)", "* )"))


# ---------------------------------------------------------------------------
# seeded world

def msg(marker, to):
    return ("From: sender@example.com\r\nTo: %s\r\nSubject: %s\r\nMessage-ID: <%s@x>\r\n\r\nbody of %s\r\n" % (to, marker, marker, marker))


def lmtp_deliver(conn, rcpt, text):
    return [
        {"op": "send", "conn": conn, "data": "MAIL FROM:<sender@example.com>\r\n", "until": "lmtp:1"},
        {"op": "send", "conn": conn, "data": "RCPT TO:<%s>\r\n" % rcpt, "until": "lmtp:1"},
        {"op": "send", "conn": conn, "data": "DATA\r\n", "until": "lmtp:1"},
        {"op": "send", "conn": conn, "data": text + ".\r\n", "until": "lmtp:1"},
    ]


MARKERS = {"MKALICE": "A", "MKBOB": "B", "MKSALES": "R1", "MKBOARD": "R2"}


def setup_ops():
    ops = [
        {"op": "open", "conn": "sa", "kind": "tls"},
        {"op": "send", "conn": "sa", "data": "s1 LOGIN %s pw\r\n" % A, "until": "tag:s1"},
        {"op": "send", "conn": "sa", "data": "s2 LOGOUT\r\n", "until": "tag:s2"},
        {"op": "open", "conn": "sb", "kind": "tls"},
        {"op": "send", "conn": "sb", "data": "s1 LOGIN %s pw\r\n" % B, "until": "tag:s1"},
        {"op": "send", "conn": "sb", "data": "s2 LOGOUT\r\n", "until": "tag:s2"},
        {"op": "role_create", "email": R1},
        {"op": "role_create", "email": R2},
        {"op": "role_assign", "user": A, "role": 1},
        {"op": "role_assign", "user": B, "role": 2},
        {"op": "user_provision", "email": NEWHIRE},     # admin-provisioned: password not initialised, LOGIN must be refused
        {"op": "lmtp_open", "conn": "l1"},
        {"op": "send", "conn": "l1", "data": "LHLO x\r\n", "until": "lmtp:1"},
    ]
    for i in range(3):
        ops += lmtp_deliver("l1", A, msg("MKALICE%d" % i, A))
        ops += lmtp_deliver("l1", B, msg("MKBOB%d" % i, B))
    for i in range(2):
        ops += lmtp_deliver("l1", R1, msg("MKSALES%d" % i, R1))
        ops += lmtp_deliver("l1", R2, msg("MKBOARD%d" % i, R2))
    ops += [{"op": "send", "conn": "l1", "data": "QUIT\r\n", "until": "lmtp:1"},
            {"op": "auth_take"},
            {"op": "dump"}]
    return ops


# ---------------------------------------------------------------------------
# programs

PERSONAL = ["INBOX", "Sent", "Trash", "inbox", "Nope", "Archive"]
ROLEPATHS = ["Roles/%s/INBOX" % R1, "Roles/%s/INBOX" % R2, "Roles/%s/Sent" % R1, "Roles/%s/Nope" % R1,
             "Roles/nobody@example.com/INBOX", "Roles/%s" % R1, "Roles/", "Roles/%s/inbox" % R2]


def gen_line(rng, role_weight):
    """one command (word, argument text or None); special commands are expanded by compile_program"""
    def mbox():
        if rng.random() < role_weight:
            return rng.choice(ROLEPATHS)
        return rng.choice(PERSONAL)
    sets = ["1", "1:*", "2", "1:2", "*", "1,2", "5:9"]
    pick = rng.random()
    cmds = [
        ("CAPABILITY", ""), ("NOOP", ""), ("NAMESPACE", ""),
        ("LOGIN", None), ("LOGIN", None), ("AUTHENTICATE", None),
        ("SELECT", mbox()), ("SELECT", mbox()), ("EXAMINE", mbox()), ("SELECT", ""),
        ("LIST", '"" "*"'), ("LSUB", '"" "*"'), ("LIST", '"" "Roles/*"'),
        ("STATUS", mbox() + " (MESSAGES UIDNEXT)"), ("CREATE", rng.choice(["Archive", "New%d" % rng.randint(0, 3), "Roles/%s/X" % R1])),
        ("DELETE", rng.choice(["Archive", "Nope", "Trash"])), ("RENAME", "Archive Archive2"),
        ("SUBSCRIBE", mbox()), ("UNSUBSCRIBE", mbox()),
        ("FETCH", rng.choice(sets) + " " + rng.choice(["(FLAGS)", "(UID BODY.PEEK[HEADER])", "(ENVELOPE)", "BODY[]", "(UID)"])),
        ("FETCH", ""), ("STORE", rng.choice(sets) + " " + rng.choice(["+FLAGS (\\Seen)", "-FLAGS (\\Seen)", "+FLAGS (\\Deleted)", "FLAGS (\\Flagged)"])),
        ("STORE", "1 +FLAGS.SILENT (\\Deleted)"), ("COPY", rng.choice(sets) + " " + rng.choice(["Sent", "Trash", "Nope"])),
        ("SEARCH", rng.choice(["ALL", "SUBJECT MKALICE", "UNSEEN", "HEADER Subject MKBOB", "BODY MKSALES", "TEXT MKBOARD", "LARGER 1", "SUBJECT MKSALES"])),
        ("EXPUNGE", ""), ("CLOSE", ""), ("UNSELECT", ""), ("CHECK", ""), ("IDLE", ""),
        ("UID", "FETCH 1:* (FLAGS)"), ("UID", "SEARCH ALL"), ("UID", "STORE 1:* +FLAGS (\\Answered)"),
        ("UID", "COPY 1 Sent"), ("UID", "EXPUNGE 1:*"), ("UID", "BOGUS 1"), ("UID", ""),
        ("APPEND", mbox()), ("STARTTLS", ""), ("BOGUS", "x"), ("LOGOUT", ""),
    ]
    w, a = rng.choice(cmds)
    if w == "LOGOUT" and pick < 0.7:
        w, a = "NOOP", ""
    if w == "AUTHENTICATE":
        a = rng.choice([None, "plain", "Plain", "pLaIn", "PLAIN", "XOAUTH2"])      # mechanism as typed; None = PLAIN
    if rng.random() < 0.15 and not w.startswith("X"):
        w = rng.choice([w.lower(), w.capitalize(), "".join(ch.lower() if i % 2 else ch for i, ch in enumerate(w))])
        if w.upper() == "UID" and a:
            f = a.split(" ", 1)
            a = " ".join([f[0].lower()] + f[1:])
    return (w, a)


def gen_program(rng, n, role_weight, start_auth):
    """start_auth: probability that the program begins with a (correct) login so
    that authenticated/selected behaviour is explored often."""
    prog = []
    if rng.random() < start_auth:
        prog.append(("LOGIN", None))
        if rng.random() < 0.7:
            prog.append(("SELECT", rng.choice(ROLEPATHS[:2] + ["INBOX"]) if rng.random() < role_weight else "INBOX"))
    while len(prog) < n:
        prog.append(gen_line(rng, role_weight))
    return prog


def compile_program(kind, prog, conn="c1", user=A, backend=None):
    """-> (ops, index) where index[i] = (first_op, last_op, tag, word, arg) for program line i.
    kind: 'tls' | 'plain' | 'starttls' (plain connection upgraded first by a real handshake)."""
    ops = [{"op": "open", "conn": conn, "kind": "plain" if kind != "tls" else "tls"}]
    index = []
    full = list(prog)
    if kind == "starttls":
        full = [("STARTTLS", "")] + full
    script = []
    t = 0
    for (typed, a) in full:
        # the word is sent as typed (any case); branching and the model use its upper-case form
        w = typed.upper()
        t += 1
        tag = "t%d" % t
        first = len(ops)
        if w == "XUNASSIGN":      # environment step: the administrator un-assigns the user from role 1
            ops.append({"op": "role_unassign", "user": user, "role": 1})
            continue
        if w == "XASSIGN":
            ops.append({"op": "role_assign", "user": user, "role": 1})
            continue
        if w == "XDAMAGE":        # environment step (fault): the stored parts of the oldest message of store <a> are lost
            ops.append({"op": "sql_exec", "store": a, "q": "DELETE FROM message_parts WHERE message_id = (SELECT MIN(message_id) FROM message_parts)"})
            continue
        if w == "LOGIN":
            pw = "pw"
            line = "%s %s %s %s\r\n" % (tag, typed, user, pw)
            ops.append({"op": "send", "conn": conn, "data": line, "until": "tag:" + tag, "timeout_ms": 6000})
        elif w == "AUTHENTICATE":
            blob = base64.b64encode(("\0%s\0pw" % user).encode()).decode()
            ops.append({"op": "send", "conn": conn, "data": "%s %s %s\r\n" % (tag, typed, a or "PLAIN"), "until": "cont:" + tag})
            ops.append({"op": "send", "conn": conn, "data": blob + "\r\n", "until": "tag:" + tag, "only_if_cont": True, "timeout_ms": 6000})
        elif w == "APPEND":
            m = msg("MKAPPENDED", user)
            ops.append({"op": "send", "conn": conn, "data": "%s %s %s (\\Seen) {%d}\r\n" % (tag, typed, a, len(m)), "until": "cont:" + tag})
            ops.append({"op": "send", "conn": conn, "data": m + "\r\n", "until": "tag:" + tag, "only_if_cont": True})
        elif w == "IDLE":
            ops.append({"op": "send", "conn": conn, "data": "%s %s\r\n" % (tag, typed), "until": "cont:" + tag})
            ops.append({"op": "send", "conn": conn, "data": "DONE\r\n", "until": "tag:" + tag, "only_if_cont": True, "timeout_ms": 4000})
        elif w == "STARTTLS":
            ops.append({"op": "send", "conn": conn, "data": "%s %s\r\n" % (tag, typed), "until": "tag:" + tag})
            ops.append({"op": "starttls", "conn": conn, "only_if_ok": True})
        else:
            line = "%s %s%s\r\n" % (tag, typed, (" " + a) if a else "")
            ops.append({"op": "send", "conn": conn, "data": line, "until": "tag:" + tag, "timeout_ms": 6000})
        ops.append({"op": "auth_take"})
        ops.append({"op": "dump"})
        index.append((first, len(ops) - 1, tag, w, a))
        if w == "LOGOUT":
            break
    return ops, index


# ---------------------------------------------------------------------------
# observation extraction

def imap_lines(b):
    """split a server byte stream into logical lines following {n} literals"""
    lines = []
    i = start = 0
    while i < len(b):
        j = b.find(b"\r\n", i)
        if j < 0:
            break
        if j > start and b[j - 1:j] == b"}":
            k = b.rfind(b"{", start, j)
            if k >= 0:
                try:
                    n = int(b[k + 1:j - 1])
                    if j + 2 + n <= len(b):
                        i = j + 2 + n
                        continue
                except ValueError:
                    pass
        lines.append(b[start:j + 2])
        i = start = j + 2
    return lines


DATA_RE = re.compile(rb"^\* (LIST|LSUB|STATUS|SEARCH|FLAGS|\d+ (FETCH|EXISTS|RECENT|EXPUNGE)|OK \[(UIDVALIDITY|UIDNEXT|UNSEEN|PERMANENTFLAGS))", re.I)


def store_digest(d):
    return hashlib.sha1(json.dumps(d, sort_keys=True).encode()).hexdigest()


def store_name_to_coq(name):
    if name == "shared":
        return "SharedStore"
    m = re.match(r"user_db_(\d+)$", name)
    if m:
        return "(Personal %s)" % m.group(1)
    m = re.match(r"role_db_(\d+)$", name)
    if m:
        return "(RoleStore %s)" % m.group(1)
    return "(Personal 999)"


def world_ids(dump):
    """-> (users: email->id, roles: email->id, assign: uid->[role ids])"""
    sh = dump["stores"].get("shared", {})
    users = {"%s@%s" % (C.unlatin(u[1]).decode("latin-1"), C.unlatin(u[2]).decode("latin-1")): u[0] for u in (sh.get("users") or [])}
    roles = {C.unlatin(r[1]).decode("latin-1"): r[0] for r in (sh.get("roles") or [])}
    assign = {}
    for a in (sh.get("assign") or []):
        if a[2] in (1, True):
            assign.setdefault(a[0], []).append(a[1])
    return users, roles, assign


def marker_store(marker_prefix, users, roles):
    who = MARKERS[marker_prefix]
    if who == "A":
        return "(Personal %d)" % users.get(A, 998)
    if who == "B":
        return "(Personal %d)" % users.get(B, 998)
    if who == "R1":
        return "(RoleStore %d)" % roles.get(R1, 998)
    return "(RoleStore %d)" % roles.get(R2, 998)


def observe(obs, index, base_dump, user=A):
    """-> list of dicts (one per program line) with the fields of line_obs"""
    out = []
    prev = base_dump
    over = False
    for (first, last, tag, w, a) in index:
        if over:
            break
        recv = b""
        for o in obs[first:last - 1]:
            if "recv" in o:
                recv += C.unlatin(o["recv"])
        how = [o.get("how") for o in obs[first:last - 1] if "how" in o]
        bodies = obs[last - 1].get("bodies") or []
        dump = obs[last]
        lines = imap_lines(recv)
        own = [l for l in lines if l.startswith(tag.encode() + b" ")]
        foreign = [l for l in lines if not l.startswith(b"*") and not l.startswith(b"+") and not l.startswith(tag.encode() + b" ")]
        ok = any(l.split()[1:2] == [b"OK"] for l in own)
        bad = any(l.split()[1:2] == [b"BAD"] for l in own)
        data = any(DATA_RE.match(l) for l in lines)
        users, roles, assign = world_ids(dump)
        changed = []
        for name in sorted(set(dump["stores"]) | set(prev["stores"])):
            if store_digest(dump["stores"].get(name)) != store_digest(prev["stores"].get(name)):
                changed.append(store_name_to_coq(name))
        revealed = []
        for mk in MARKERS:
            if mk.encode() in recv:
                s = marker_store(mk, users, roles)
                if s not in revealed:
                    revealed.append(s)
        # a SEARCH for a marker that returns a non-empty result reveals that the
        # marker's message exists in the searched store
        # (plain SEARCH only: UID SEARCH ignores every key but UID ranges — a C19 finding — so its result says nothing about the marker)
        if w == "SEARCH" and a:
            m = re.search(rb"^\* SEARCH +\d", recv, re.M)
            for mk in MARKERS:
                if mk in a and m:
                    st_ = marker_store(mk, users, roles)
                    if st_ not in revealed:
                        revealed.append(st_)
        uid = users.get(user, 0)
        target = "(Personal %d)" % uid
        if w in ("SELECT", "EXAMINE") and a and a.startswith("Roles/"):
            pp = a.split("/", 2)
            if len(pp) >= 2 and pp[1] in roles:
                target = "(RoleStore %d)" % roles[pp[1]]
        word = w
        if w == "UID" and a:
            word = "UID " + a.split()[0].upper()
        out.append({"word": word, "arg": a, "tag": tag, "ok": ok, "bad": bad, "own": len(own), "foreign": len(foreign), "data": data,
                    "changed": changed, "revealed": revealed, "backend": len(bodies), "user": uid, "target": target,
                    "roles": assign.get(uid, []), "recv": recv.decode("latin-1")[:1500], "how": how})
        prev = dump
        # handleClient returns (and the connection is closed) after LOGOUT and
        # after every STARTTLS, refused or not; a refused STARTTLS therefore ends
        # the session: later lines were never read by the server
        if w == "LOGOUT" or (w == "STARTTLS" and not ok):
            over = True
    return out


def coq_line_obs(o):
    return 'mk_lo "%s" %s %s %d %d %s [%s] [%s] %d %d %s [%s]' % (
        o["word"].replace('"', ""), C.coq_bool(o["ok"]), C.coq_bool(o.get("bad", False)), o["own"], o["foreign"], C.coq_bool(o["data"]),
        "; ".join(o["changed"]), "; ".join(o["revealed"]), o["backend"], o["user"], o["target"],
        "; ".join(str(r) for r in o["roles"]))


VERDICTS = ["VUnauthTouch", "VNoSelection", "VPlainCredentials", "VTagged", "VStaleSelect", "VForeignStore", "VWrongMailboxStore"]


def evaluate(pid, sessions):
    """sessions: list of (tls: bool, [line_obs dict]). Returns per session a list
    of (line index, [verdict names]) computed by Spec/ProtoCheck.replay_conn."""
    body = ("From Coq Require Import String List Bool Arith.\nFrom Raven Require Import Model.ProtoFacts Model.Protocol Spec.ProtoCheck.\n"
            "Import ListNotations.\nLocal Open Scope string_scope.\n")
    body += "Definition sessions : list (bool * list line_obs) := [\n"
    body += ";\n".join("(%s, [%s])" % (C.coq_bool(tls), ";\n   ".join(coq_line_obs(o) for o in obs)) for tls, obs in sessions)
    body += "].\n"
    body += ("Definition vnum (v : verdict) : nat := match v with VUnauthTouch => 0 | VNoSelection => 1 | VPlainCredentials => 2 | VTagged => 3 "
             "| VStaleSelect => 4 | VForeignStore => 5 | VWrongMailboxStore => 6 end.\n"
             "Definition res := Eval vm_compute in map (fun s => map (fun r => (fst r, map vnum (snd r))) (replay_conn (fst s) (snd s))) sessions.\nPrint res.\n")
    rc, log = C.coq_eval_cases(pid, body)
    if rc != 0:
        return None, log
    txt = C.parse_coq_list_out(log, "res")
    if txt is None:
        return None, log
    # txt like [[]; [(2, [0; 3])]; ...]
    txt = txt.replace("%nat", "")
    py = txt.replace(";", ",")
    try:
        val = eval(py, {"__builtins__": {}})
    except Exception as e:  # noqa
        return None, "cannot parse: %s\n%s" % (e, txt[:500])
    out = []
    for sess in val:
        out.append([(i, [VERDICTS[v] for v in vs]) for (i, vs) in sess])
    return out, log


def run_sessions(chk, programs):
    """programs: list of (kind, prog). Runs each in its own seeded world.
    Returns list of dict(kind, prog, lines=[line_obs dict], crashed)."""
    scen = []
    comp = []
    base = setup_ops()
    for kind, prog in programs:
        ops, index = compile_program(kind, prog)
        scen.append(base + ops)
        comp.append(index)
    res = C.run_many(scen, workers=12, timeout=300)
    out = []
    nb = len(base)
    for (kind, prog), index, r in zip(programs, comp, res):
        if r.get("crashed") or len(r.get("obs", [])) < nb:
            out.append({"kind": kind, "prog": prog, "crashed": True, "stderr": r.get("stderr", "")[:500], "lines": []})
            continue
        obs = r["obs"]
        base_dump = obs[nb - 1]
        shifted = [(f + nb, l + nb, tag, w, a) for (f, l, tag, w, a) in index]
        # only the lines that were actually executed
        shifted = [x for x in shifted if x[1] < len(obs)]
        lines = observe(obs, shifted, base_dump)
        out.append({"kind": kind, "prog": prog, "crashed": False, "lines": lines})
    return out


# ---------------------------------------------------------------------------
# diagnosis of a broken facts obligation (c05_facts_now / c06_facts_now)

DIAG = """From Coq Require Import String List Bool Arith.
From Raven Require Import Model.ProtoFacts Model.Protocol Gen.Facts.
Import ListNotations.
Open Scope string_scope.
Definition only (s : site) : facts := mk_facts (f_dispatch table) [s] (f_replies table) (f_default_once table) (f_select_clears table) (f_auth_final table) (f_short_tagged table).
Definition withsel (s : site) : facts := mk_facts (f_dispatch table) (s :: filter (fun x => match s_kind x with UseSel => true | _ => false end) (f_sites table)) (f_replies table) (f_default_once table) (f_select_clears table) (f_auth_final table) (f_short_tagged table).
Definition show (s : site) : string := s_cmd s ++ " " ++ s_fn s ++ " " ++ s_arg s ++ " @" ++ s_where s.
Definition bad_guards := Eval vm_compute in map show (filter (fun s => negb (guards_ok (only s))) (f_sites table)).
Definition bad_access := Eval vm_compute in map show (filter (fun s => negb (access_ok (withsel s))) (f_sites table)).
Definition bad_select := Eval vm_compute in map show (filter (fun s => negb (select_sites_ok (only s))) (f_sites table)).
Definition bad_replies := Eval vm_compute in filter (fun r => let '(mn, mx) := snd r in negb (Nat.eqb mn 1 && Nat.eqb mx 1)) (f_replies table).
Definition bits := Eval vm_compute in (f_default_once table, f_select_clears table, f_auth_final table, f_short_tagged table, restart_ok table).
Print bad_guards. Print bad_access. Print bad_select. Print bad_replies. Print bits.
"""


def explain():
    """Which sites / reply counts / structural bits of the regenerated table violate the obligations."""
    rc, log = C.coq_eval_cases("ProtoDiag", DIAG)
    if rc != 0:
        return "the diagnosis file did not compile: " + log[-600:]
    out = []
    for name, what in (("bad_guards", "sites whose guard facts are insufficient (C06 a/b/c)"), ("bad_access", "store-access sites outside the allowed accessors (C05)"),
                       ("bad_select", "sites under SELECT/EXAMINE that do_select does not account for, or selection written elsewhere"),
                       ("bad_replies", "handlers whose number of tagged completions per path is not exactly one (min, max)"),
                       ("bits", "(default_replies_once, select_clears_first, auth_is_final, short_line_tagged, restart_ok)")):
        m = re.search(r"%s\s*=\s*(.*?)\n\s*:" % name, log, re.S)
        txt = re.sub(r"\s+", " ", m.group(1)).strip() if m else "?"
        if txt not in ("[]", "?") or name == "bits":
            out.append("%s: %s" % (what, txt[:1200]))
    return " || ".join(out)
