"""C06 — protocol state machine and TLS gate: translator facts (Gen/Facts.v) +
observed command programs judged by the Coq oracle Spec/ProtoCheck.v."""
import json
import common as C
import proto_common as P

MINE = {"VUnauthTouch": "(a) mailbox data or a store change before authentication",
        "VNoSelection": "(b)/(f) a selected-state command was served while no mailbox is selected",
        "VPlainCredentials": "(c) credentials reached the backend / were accepted on a connection without TLS",
        "VTagged": "(e) a command line did not receive exactly one tagged completion with its own tag"}


def corpus_programs():
    """witness scenarios of the listed known findings (raw lines)"""
    return {
        "tag_only_line": [("RAW", "zz9\r\n")],
    }


def witness_tag_only(chk):
    ops = P.setup_ops() + [
        {"op": "open", "conn": "c1", "kind": "tls"},
        {"op": "send", "conn": "c1", "data": "zz9\r\n", "until": "quiet:400"},
        {"op": "send", "conn": "c1", "data": "t2 NOOP\r\n", "until": "tag:t2"},
    ]
    r = C.run_ops(ops)
    if r.get("crashed"):
        return
    recv = C.unlatin(r["obs"][-2].get("recv", ""))
    tagged = [l for l in P.imap_lines(recv) if l.startswith(b"zz9 ")]
    if len(tagged) != 1:
        chk.violation("a line consisting of a tag alone ('zz9') does not get exactly one tagged completion (regression of the repaired tag_only_line defect): %r" % recv[:200],
                      {"suite": "witness", "line": "zz9", "recv": recv.decode("latin-1")})


def witness_litplus(chk):
    body = "x1 CREATE injected\r\n"
    ops = P.setup_ops() + [
        {"op": "open", "conn": "c1", "kind": "tls"},
        {"op": "send", "conn": "c1", "data": "t1 LOGIN %s pw\r\n" % P.A, "until": "tag:t1"},
        {"op": "send", "conn": "c1", "data": "t2 APPEND nosuchbox {%d+}\r\n%s\r\n" % (len(body), body), "until": "quiet:600"},
        {"op": "send", "conn": "c1", "data": "t3 LIST \"\" \"injected\"\r\n", "until": "tag:t3"},
    ]
    r = C.run_ops(ops)
    if r.get("crashed"):
        return
    recv = C.unlatin(r["obs"][-1].get("recv", ""))
    recv2 = C.unlatin(r["obs"][-2].get("recv", ""))
    if b'"injected"' in recv:
        chk.violation("APPEND to a missing mailbox with a non-synchronising literal {n+} is refused before the literal is read; the literal's bytes "
                      "('x1 CREATE injected') are then executed as a command (mailbox 'injected' exists afterwards, tagged reply with foreign tag x1)",
                      {"suite": "witness", "recv_append": recv2.decode("latin-1"), "recv_list": recv.decode("latin-1")})


def run(chk, searching=False):
    rng = chk.rng
    if not searching:
        witness_tag_only(chk)
        witness_litplus(chk)
    n = 36 if chk.tier == "quick" else 400
    programs = []
    for i in range(n):
        kind = ["tls", "plain", "starttls"][i % 3]
        length = rng.randint(4, 12)
        programs.append((kind, P.gen_program(rng, length, 0.2, 0.6 if kind != "plain" else 0.3)))
    # fixed probes: every command word on a fresh connection of each kind, and after login without selection
    words = [("CAPABILITY", ""), ("NOOP", ""), ("LIST", '"" "*"'), ("LSUB", '"" "*"'), ("STATUS", "INBOX (MESSAGES)"), ("SELECT", "INBOX"),
             ("EXAMINE", "INBOX"), ("CREATE", "Zed"), ("DELETE", "Trash"), ("RENAME", "Sent Sent2"), ("SUBSCRIBE", "INBOX"), ("UNSUBSCRIBE", "INBOX"),
             ("FETCH", "1:* (FLAGS BODY.PEEK[])"), ("STORE", "1 +FLAGS (\\Deleted)"), ("COPY", "1 Sent"), ("SEARCH", "ALL"), ("EXPUNGE", ""),
             ("CLOSE", ""), ("UNSELECT", ""), ("CHECK", ""), ("IDLE", ""), ("NAMESPACE", ""), ("APPEND", "INBOX"),
             ("UID", "FETCH 1:* (FLAGS)"), ("UID", "SEARCH ALL"), ("UID", "STORE 1 +FLAGS (\\Seen)"), ("UID", "COPY 1 Sent"), ("UID", "EXPUNGE 1")]
    programs.append(("tls", words))
    programs.append(("plain", [("LOGIN", None), ("AUTHENTICATE", None)] + words[:14]))
    programs.append(("tls", [("LOGIN", None)] + words))
    # the TLS gate for every spelling of the command word and of the SASL mechanism (both are case-insensitive)
    after = [("LIST", '"" "*"'), ("SELECT", "INBOX"), ("FETCH", "1 (FLAGS)"), ("STATUS", "INBOX (MESSAGES)")]
    for (cw, mech) in (("AUTHENTICATE", "plain"), ("authenticate", "Plain"), ("Authenticate", "pLaIn"), ("AUTHENTICATE", "PLAIN"), ("login", None), ("Login", None), ("LoGiN", None)):
        programs.append(("plain", [(cw, mech)] + after))
        programs.append(("starttls", [(cw, mech)] + after[:2]))
    programs.append(("starttls", [("LOGIN", None), ("SELECT", "INBOX"), ("SELECT", "Nope"), ("FETCH", "1 (FLAGS)"), ("STORE", "1 +FLAGS (\\Seen)"),
                                 ("SELECT", "INBOX"), ("EXAMINE", "Roles/%s/INBOX" % P.R2), ("FETCH", "1 (FLAGS)"), ("EXPUNGE", ""), ("STARTTLS", ""), ("LOGIN", None)]))
    # fault paths: a message whose stored parts are lost; every line still gets exactly one tagged completion
    faulty = [("FETCH", "1:* (BODY.PEEK[])"), ("UID", "FETCH 1:* (BODY.PEEK[])"), ("UID", "FETCH 1:* (RFC822.SIZE ENVELOPE BODYSTRUCTURE)"), ("FETCH", "1 (BODY[1] RFC822)"),
              ("UID", "FETCH 1 (BODY[HEADER])"), ("SEARCH", "BODY MKALICE"), ("UID", "SEARCH TEXT MKALICE"), ("COPY", "1 Sent"), ("UID", "COPY 1:* Trash"),
              ("STORE", "1 +FLAGS (\\Seen)"), ("UID", "STORE 1 +FLAGS (Junk)"), ("EXPUNGE", ""), ("CLOSE", "")]
    programs.append(("tls", [("LOGIN", None), ("SELECT", "INBOX"), ("XDAMAGE", "user_db_1")] + faulty))
    programs.append(("tls", [("LOGIN", None), ("SELECT", "Roles/%s/INBOX" % P.R1), ("XDAMAGE", "role_db_1")] + faulty))
    # very long command lines (beyond any line buffer an implementation might use): still ONE tagged completion, with the line's own tag
    ids = ",".join(str(i) for i in range(1, 2600))                      # about 12 kB
    pad = "x" * 8160
    longl = [("UID", "FETCH " + ids + " (FLAGS)"), ("NOOP", ""), ("FETCH", ids + " (UID)"), ("NOOP", ""),
             ("SEARCH", "OR " * 3000 + "ALL " + "ALL " * 3000), ("NOOP", ""), ("STORE", ids + " +FLAGS (\\Seen)"), ("NOOP", ""),
             ("BOGUS", pad + " zz1 CAPABILITY"), ("NOOP", ""), ("LIST", '"" "' + "a" * 9000 + '"'), ("NOOP", "")]
    programs.append(("tls", [("LOGIN", None), ("SELECT", "INBOX")] + longl))
    for kind in ("plain", "starttls"):
        programs.append((kind, [("BOGUS", pad + " zz1 CAPABILITY"), ("NOOP", ""), ("CAPABILITY", pad), ("NOOP", ""), ("LOGIN", None), ("NOOP", "")]))
    sess = P.run_sessions(chk, programs)
    # an account whose LOGIN the server refuses although the backend says 200
    # (admin-provisioned, password not initialised): the session must stay unauthenticated
    refused = [("LOGIN", None), ("LIST", '"" "*"'), ("STATUS", "INBOX (MESSAGES)"), ("SELECT", "INBOX"), ("FETCH", "1 (FLAGS)"), ("CREATE", "Zed"),
               ("AUTHENTICATE", None), ("LSUB", '"" "*"'), ("APPEND", "INBOX")]
    for kind in ("tls", "starttls"):
        ops, index = P.compile_program(kind, refused, user=P.NEWHIRE)
        base = P.setup_ops()
        r = C.run_ops(base + ops, timeout=300)
        if not r.get("crashed"):
            nb = len(base)
            shifted = [(f + nb, l + nb, tag, w, a) for (f, l, tag, w, a) in index if l + nb < len(r["obs"])]
            sess.append({"kind": kind, "prog": refused, "crashed": False, "lines": P.observe(r["obs"], shifted, r["obs"][nb - 1], user=P.NEWHIRE), "user": P.NEWHIRE})
    good = [s for s in sess if not s["crashed"]]
    if len(good) < len(sess) // 2:
        chk.broken_obligation("more than half of the protocol scenarios crashed the driver: %s" % (sess[0].get("stderr") if sess else ""))
        return
    verdicts, log = P.evaluate("C06", [(s["kind"] == "tls", s["lines"]) for s in good])
    if verdicts is None:
        chk.broken_obligation("the Coq oracle Spec/ProtoCheck could not be evaluated on the observed sessions:\n" + str(log)[-1500:])
        return
    lines_total = sum(len(s["lines"]) for s in good)
    distinct = set()
    dist = {}
    for s in good:
        st = "unauth"
        for o in s["lines"]:
            dist[o["word"]] = dist.get(o["word"], 0) + 1
            distinct.add((s["kind"], o["word"], o["ok"], o["data"], bool(o["changed"])))
    chk.cov["evaluations"] = lines_total
    chk.cov["programs"] = len(good)
    chk.cov["distinct_nontrivial"] = len(distinct)
    chk.cov["rule"] = ("command programs (length 4-12, whole alphabet incl. UID forms, valid/invalid arguments, role paths) on three connection kinds "
                       "(TLS-terminated, plain, plain upgraded by a real STARTTLS handshake) in a seeded two-user/two-role world, plus fixed probes of every "
                       "command word in every protocol state; after every line: tagged completions, untagged data, full store dump delta, auth-backend request log; "
                       "judged by Spec/ProtoCheck.replay_conn (vm_compute). distinct non-trivial = distinct (connection kind, command word, OK?, data?, store changed?) tuples")
    chk.cov["command_word_distribution"] = dist
    chk.cov["traces_validated_against_impl"] = len(good)
    nd = 0
    for s, vs in zip(good, verdicts):
        for (i, names) in vs:
            mine = [v for v in names if v in MINE]
            if not mine:
                continue
            nd += 1
            o = s["lines"][i]
            chk.violation("%s: connection kind %s, line %d '%s %s' -> %s" % ("; ".join(MINE[v] for v in mine), s["kind"], i, o["word"], (o["arg"] or "")[:80], o["recv"][:200].replace("\r\n", " | ")),
                          {"suite": "programs", "kind": s["kind"], "program": s["prog"], "line": i, "verdicts": mine, "observation": o})
    chk.cov["disagreements_checked"] = nd
    chk.sample({"kind": good[0]["kind"], "program": good[0]["prog"][:6], "first_lines": [{k: o[k] for k in ("word", "ok", "own", "data", "changed", "backend")} for o in good[0]["lines"][:4]]})
    chk.sample({"facts_table": "coq/Gen/Facts.v regenerated from %s by harness/extract" % C.REPO})

    if chk.tier == "thorough" and not searching:
        import proto_selftest
        proto_selftest.run(chk)


def search(chk):
    run(chk, searching=True)


explain = P.explain


def replay(path):
    d = json.load(open(path))
    if d.get("suite") == "programs":
        class K:  # minimal stand-in
            pass
        sess = P.run_sessions(None, [(d["kind"], [tuple(x) for x in d["program"]])])
        v, _ = P.evaluate("C06", [(d["kind"] == "tls", sess[0]["lines"])])
        print(json.dumps({"verdicts": v, "lines": sess[0]["lines"]}, indent=1)[:6000])
    else:
        print(json.dumps(d, indent=1))
    return 0
