"""C04 — only the identity the auth backend verified is authenticated.

Correspondence of Model/Auth.v with internal/server/auth/auth.go,
internal/server/server.go (ExtractUsername/GetUserDomain),
internal/server/connection.go (LOGIN dispatch) and internal/sasl/server.go,
against a recording authentication backend with scripted behaviour.

Suites (all cases are evaluated inside Coq by Spec/AuthObs.v: model == impl,
executable spec on the impl's observation, finding class):
  direct  authenticateUser(username, password) called directly
  ident   ExtractUsername / GetUserDomain
  login   LOGIN lines over a connection (+ CREATE marker: store addressed)
  plain   AUTHENTICATE PLAIN over a connection
  sasl    lines to the SASL service on a unix socket
"""
import base64
import glob
import json
import os
import re

import common as C

DOMAIN = "__outside_utf8_domain__"
# class codes computed in Coq (Spec/AuthObs.v): 0 = none (C04 has no finding class left); 9 = outside the
# stated domain (address or password not valid UTF-8: encoding/json substitutes U+FFFD)
CLS = {0: None, 9: DOMAIN}
FORM = {"Atom": "AtomForm", "Quoted": "QuotedForm"}

DOMAINS = ["example.com", "d.test", "a-b.org"]
ODD_DOMAINS = ["x", "lo@cal", 'q"d', "b\\s", ""]

PLAIN_ATOMS = list("abcxyzABZ019") + [".", "-", "_", "+", "{", "}", ":", ",", "%", "'", "(", "*", "=", "/"]
META_ATOMS = ['"', "\\", "\x00", "\x01", "\t", "\n", "\r", "\x1f", '\\"', "\\u0041", "\\n"]
HIGH_ATOMS = ["\x80", "\xc3\xa9", "\xff", "\xc2\xa0", "\x7f"]
BEHS = ["200"] * 6 + ["401", "403", "404", "500", "503", "201", "204", "299", "garbage", "close", "hang:120", "dead"]


def outcome(beh):
    """scripted backend behaviour -> (Coq outcome term, accepted?)"""
    if beh == "dead":
        return "Refused", False
    if beh == "garbage":
        return "Garbage", False
    if beh == "close":
        return "Dropped", False
    if beh.startswith("hang:"):
        return "Dropped", False
    if beh.startswith("slowfail:"):
        return "Timeout", False
    if beh.startswith("slow200:"):
        return "(Status 200)", True
    return "(Status %d)" % int(beh), beh == "200"


def word(rng, atoms, lo, hi):
    return "".join(rng.choice(atoms) for _ in range(rng.randint(lo, hi)))


def gen_user(rng, allow_lf=True):
    if rng.random() < 0.08:
        # long addresses (the theorems quantify over all strings: sample beyond 30 octets)
        return long_address(rng, rng.randint(31, 90), list("abcdefghkmnpqrstuvwxyzABZ0123456789_-"))
    r = rng.random()
    if r < 0.30:
        u = word(rng, PLAIN_ATOMS, 1, 8)
    elif r < 0.58:
        u = word(rng, PLAIN_ATOMS, 1, 6) + "@" + rng.choice(DOMAINS + ["other.org", "b"])
    elif r < 0.68:
        u = "@".join(word(rng, PLAIN_ATOMS, 0, 3) for _ in range(rng.randint(3, 4)))
    elif r < 0.82:
        u = word(rng, PLAIN_ATOMS + META_ATOMS, 1, 7)
        if rng.random() < 0.5:
            u += "@" + rng.choice(DOMAINS)
    elif r < 0.87:
        u = word(rng, PLAIN_ATOMS + HIGH_ATOMS, 1, 6)
    elif r < 0.93:
        u = rng.choice(["", "@", "a@", "@b", "@@", " ", "a b"])
    else:
        d = rng.choice(DOMAINS)
        u = rng.choice(['victim@%s","email":"attacker@%s' % (d, d), 'v","password":"x', 'a\\', 'a"}', 'x@%s"' % d])
    if not allow_lf:
        u = u.replace("\n", "\x0b")
    return u


def gen_pass(rng, allow_lf=True):
    r = rng.random()
    if r < 0.72:
        p = word(rng, PLAIN_ATOMS + [" "], 1, 10)
    elif r < 0.92:
        p = word(rng, PLAIN_ATOMS + META_ATOMS + HIGH_ATOMS, 0, 8)
    else:
        p = rng.choice(['x","email":"root@d.test', "", '"', "\\", 'p"}'])
    if not allow_lf:
        p = p.replace("\n", "\x0b")
    return p


def gen_domain(rng):
    return rng.choice(DOMAINS) if rng.random() < 0.85 else rng.choice(ODD_DOMAINS)


def token_str(rng):
    return word(rng, list("abcxyzABZ019.-_+{}:,%'(*=/@"), 1, 8)


def imap_quote(s):
    return '"' + "".join("\\" + c if c in '"\\' else c for c in s) + '"'


def render(form, s):
    return s if form == "Atom" else imap_quote(s)


def b64(b):
    return base64.b64encode(b.encode("latin-1")).decode("ascii")


# ---------------------------------------------------------------------------
# case generation: each case is a dict with "suite" and what the driver needs

def gen_direct(rng, n):
    out = []
    for i in range(n):
        beh = rng.choice(BEHS)
        c = {"suite": "direct", "domain": gen_domain(rng), "u": gen_user(rng), "p": gen_pass(rng), "beh": beh, "prov": "none"}
        out.append(c)
    # world states of the account that logs in (WORLD: mode -> EnsureUserAndMailboxes succeeds?,
    # password initialised?), mostly with an accepting backend; the accounts are created in the
    # scenario's setup phase, the logins of all other cases lie in between
    modes = list(WORLD)
    for i in range(max(len(modes), n // 12)):
        mode = modes[i % len(modes)]
        local = "w%d%s%s" % (i, mode[:2], word(rng, list("abcXY.-_"), 1, 4))
        dom = rng.choice(DOMAINS)
        other = rng.choice([d for d in DOMAINS if d != dom])
        r = rng.random()
        if r < 0.45:
            u, cfgdom = local, dom                      # bare name, default domain
        elif r < 0.8:
            u, cfgdom = local + "@" + dom, other        # full address, foreign default domain
        else:
            u, cfgdom = local + "@" + dom, dom
        out.append({"suite": "direct", "domain": cfgdom, "u": u, "p": "pw", "beh": "200" if rng.random() < 0.85 else rng.choice(BEHS),
                    "prov": mode, "prov_local": local, "prov_domain": dom})
    return out


# account state before the login -> (EnsureUserAndMailboxes succeeds, password_initialized)
WORLD = {"uninit": (True, False), "disabled": (False, False), "existing": (True, True),
         "disabled_init": (False, True), "lmtp": (True, True), "reenabled": (True, True)}


def gen_race(rng, quick):
    out = []
    plans = [(3, 12, False), (3, 10, True)] if quick else [(3, 40, False), (4, 30, False), (2, 30, True), (3, 30, True)]
    for n, (k, rounds, lmtp) in enumerate(plans):
        out.append({"suite": "race", "domain": rng.choice(DOMAINS), "k": k, "rounds": rounds, "lmtp": lmtp,
                    "prefix": "race%d%s" % (n, word(rng, list("abc"), 1, 2)), "full_address": rng.random() < 0.5, "beh": "200"})
    return out


def gen_ident(rng, n):
    out = []
    for d in DOMAINS[:2] + ["lo@cal"]:
        us = ["", "a", "a@b", "a@b@c", "@", "a@", "@b", "@@", "a@@b"] + [gen_user(rng) for _ in range(n // 3)]
        out.append({"suite": "ident", "domain": d, "users": us})
    return out


def gen_login(rng, n):
    out = []
    for i in range(n):
        tag = "a%d" % i
        r = rng.random()
        tls = rng.random() < 0.9
        beh = rng.choice(BEHS)
        dom = rng.choice(DOMAINS)
        if r < 0.6:
            fu, fp = rng.choice(["Atom", "Quoted"]), rng.choice(["Atom", "Quoted"])
            u, p = token_str(rng), token_str(rng)
            if rng.random() < 0.15:
                u = gen_user(rng, allow_lf=False)
            if rng.random() < 0.15:
                p = gen_pass(rng, allow_lf=False)
            if rng.random() < 0.3:
                # quoted strings with blanks (also runs of them), quotes, backslashes, tabs
                u = rng.choice([u + " " + token_str(rng), "a  b", 'q"uote', "back\\slash", "t\tab", ' lead', 'trail ', '"', "\\", 'x\\"y z'])
                fu = "Quoted"
            if rng.random() < 0.3:
                p = rng.choice([p + " " + token_str(rng), "p  q", 'p"q', "p\\q", '\\"', " ", 'it"s a \\ pass  word'])
                fp = "Quoted"
            line = "%s LOGIN %s %s\r\n" % (tag, render(fu, u), render(fp, p))
            out.append({"suite": "login", "domain": dom, "tls": tls, "tag": tag, "line": line, "beh": beh, "intended": [fu, fp, u, p]})
        else:
            cmd = rng.choice(["LOGIN", "login", "Login"])
            args = rng.choice([[], ["u"], ["u", "p", "extra"], ['""', '""'], ['"u"', '"'], ['"', 'p'], ["{3}", "p"],
                               [token_str(rng), token_str(rng)], ['"a', 'b"', '"p', 'q"']])
            sep = rng.choice([" ", " ", "\t", "  "])
            line = tag + sep + cmd + "".join(sep + a for a in args) + rng.choice(["\r\n", "\n", " \r\n"])
            out.append({"suite": "login", "domain": dom, "tls": tls, "tag": tag, "line": line, "beh": beh, "intended": None})
    return out


def gen_plain(rng, n):
    out = []
    for i in range(n):
        tag = "p%d" % i
        tls = rng.random() < 0.9
        beh = rng.choice(BEHS)
        dom = rng.choice(DOMAINS)
        r = rng.random()
        if r < 0.65:
            authzid = rng.choice(["", "", "admin", "x@y"])
            u = gen_user(rng).replace("\x00", "\x02")
            p = gen_pass(rng).replace("\x00", "\x02")
            data = b64(authzid + "\x00" + u + "\x00" + p) + "\r\n"
            out.append({"suite": "plain", "domain": dom, "tls": tls, "tag": tag, "blob": data, "beh": beh, "authzid": authzid, "intended": [u, p]})
        else:
            blob = rng.choice([
                "*", "", "=", "AA", "AAAA", "AA==", "AA=", "QUJD=", "!!!!",
                "user\x00pass", "\x00user\x00pass", "nouserpass", "a\x00b\x00c\x00d",
                b64("onlyone"), b64("u\x00p"), b64("\x00\x00p"), b64("\x00u\x00"), b64("z\x00u\x00p\x00q"),
                b64("\x00u\x00p")[:-1], " " + b64("\x00u\x00p") + " ", b64("\x00u\x00p") + "\r\n\r\n",
                b64("\x00" + gen_user(rng) + "\x00" + gen_pass(rng)).replace("A", "A\r", 1)])
            out.append({"suite": "plain", "domain": dom, "tls": tls, "tag": tag, "blob": blob + "\r\n", "beh": beh, "authzid": "", "intended": None})
    return out


def gen_sasl(rng, n):
    out = []
    for i in range(n):
        dom = rng.choice(DOMAINS[:2])
        beh = rng.choice(BEHS)
        r = rng.random()
        ident = rng.choice(["1", "7", "42", "1001", str(rng.randint(1, 99999))])
        if rng.random() < 0.06:
            ident = rng.choice(["", "a b", "1\r2", "OK", "x=y"])
        if r < 0.62:
            authzid = rng.choice(["", "", "admin"])
            u = gen_user(rng).replace("\x00", "\x02")
            p = gen_pass(rng).replace("\x00", "\x02")
            if rng.random() < 0.08:
                u = rng.choice(["x\nOK\t%s\tuser=admin" % ident, "a\tuser=root", "evil\n", "a\tb", "a\rb", "cr\r"])
            mech = rng.choice(["PLAIN"] * 6 + ["plain", "Plain"])
            params = rng.choice([["service=smtp"], [], ["service=smtp", "rip=1.2.3.4", "secured"], ["nologin"]])
            raw = "\t".join(["AUTH", ident, mech] + params + ["resp=" + b64(authzid + "\x00" + u + "\x00" + p)])
            if rng.random() < 0.1:
                raw += "\r"
            out.append({"suite": "sasl", "domain": dom, "line": raw, "beh": beh, "intended": [ident, u, p]})
        else:
            good = "resp=" + b64("\x00u\x00p")
            raw = rng.choice([
                "AUTH", "AUTH\t" + ident, "AUTH\t%s\tPLAIN" % ident, "AUTH\t%s\tPLAIN\tservice=smtp" % ident,
                "AUTH\t%s\tPLAIN\tresp=" % ident, "AUTH\t%s\tPLAIN\tresp=!!!" % ident, "AUTH\t%s\tPLAIN\tresp=AA=" % ident,
                "AUTH\t%s\tPLAIN\tresp=%s" % (ident, b64("nonul")), "AUTH\t%s\tPLAIN\tresp=%s" % (ident, b64("u\x00p")),
                "AUTH\t%s\tPLAIN\tresp=%s" % (ident, b64("z\x00u\x00p\x00q")), "AUTH\t%s\tPLAIN\tresp=%s" % (ident, b64("\x00\x00p")),
                "AUTH\t%s\tPLAIN\t%s\tresp=" % (ident, good), "AUTH\t%s\tPLAIN\tresp=\t%s" % (ident, good),
                "AUTH\t%s\tPLAIN\tservice=resp=x\t%s" % (ident, good), "AUTH\t%s\tPLAIN\tRESP=%s" % (ident, good[5:]),
                "AUTH\t%s\tLOGIN" % ident, "AUTH\t%s\tLOGIN\tresp=dXNlcg==" % ident, "AUTH\t%s\tlogin\tresp=" % ident,
                "AUTH\t%s\tCRAM-MD5\t%s" % (ident, good), "AUTH\t%s\t\t%s" % (ident, good),
                "VERSION\t1\t1", "CPID\t4242", "FOO\tbar", "auth\t%s\tPLAIN\t%s" % (ident, good), "", "\t", "AUTH\t\t",
                "AUTH %s PLAIN %s" % (ident, good)])
            out.append({"suite": "sasl", "domain": dom, "line": raw, "beh": beh, "intended": None})
    return out


def gen_conc(rng, quick):
    """concurrent logins on different connections against a backend that is a function of
    the body: per round one session with VALID credentials and one (or two) with a wrong
    password whose request body has the SAME length; started one after the other, each held
    in the handshake to the backend, then released together (driver op c04_conc, GOMAXPROCS=1)"""
    mixes = [("direct", "direct"), ("login", "login"), ("authplain", "login"), ("login", "sasl"), ("direct", "authplain", "login")]
    if not quick:
        mixes = mixes * 4 + [("sasl", "sasl"), ("authplain", "authplain"), ("login", "direct", "sasl"), ("sasl", "login")] * 2
    rounds = []
    dom = rng.choice(DOMAINS)
    alnum = list("abcdefghkmnpqrstuvwxyz23456789")
    for n, kinds in enumerate(mixes):
        L = rng.randint(5, 9)
        P = rng.randint(6, 11)
        good_u = "m%d%s" % (n, word(rng, alnum, L, L))
        good_p = word(rng, alnum, P, P)
        sessions = []
        for k, kind in enumerate(kinds):
            if k == len(kinds) - 1:
                u, p = good_u, good_p          # the valid account logs in last
            else:
                u = "v%d%s" % (n, word(rng, alnum, L, L))
                u = u[:len(good_u)].ljust(len(good_u), "x")
                p = word(rng, alnum, P, P)     # wrong password, same length
            full = rng.random() < 0.5
            uu = u + "@" + dom if full else u
            se = {"kind": kind, "u": uu, "p": p, "tag": "c%d" % k}
            if kind == "login":
                se["line"] = "%s LOGIN %s %s\r\n" % (se["tag"], uu, p)
            elif kind == "authplain":
                se["blob"] = b64("\x00" + uu + "\x00" + p) + "\r\n"
            elif kind == "sasl":
                se["line"] = "AUTH\t%d\tPLAIN\tservice=smtp\tresp=%s" % (k + 1, b64("\x00" + uu + "\x00" + p))
            sessions.append(se)
        rounds.append({"accept": [[good_u + "@" + dom, good_p]], "sessions": sessions})
    rounds += gen_conc_long(rng, quick, dom)
    return [{"suite": "conc", "domain": dom, "procs": 1, "rounds": rounds, "beh": "200"}]


def conc_session(kind, k, u, p, same_conn=False):
    se = {"kind": "sasl" if kind.startswith("sasl") else kind, "u": u, "p": p, "tag": "c%d" % k}
    if kind == "login":
        se["line"] = "%s LOGIN %s %s\r\n" % (se["tag"], u, p)
    elif kind == "authplain":
        se["blob"] = b64("\x00" + u + "\x00" + p) + "\r\n"
    elif kind == "sasl":
        se["id"] = str(k + 1)
        se["line"] = "AUTH\t%d\tPLAIN\tservice=smtp\tresp=%s" % (k + 1, b64("\x00" + u + "\x00" + p))
    elif kind == "sasl_login":       # SASL LOGIN mechanism: never verified, never OK
        se["id"] = str(k + 1)
        se["mech"] = "LOGIN"
        se["line"] = "AUTH\t%d\tLOGIN\tservice=smtp\tresp=%s" % (k + 1, b64(u))
    if same_conn:
        se["same_conn"] = True
    return se


def long_address(rng, total, alnum):
    """an address of about `total` octets: local part up to 64 octets, long domain"""
    total = max(20, total)
    ll = min(64, max(6, total * rng.randint(40, 70) // 100))
    local = ".".join(word(rng, alnum, 3, 9) for _ in range(12))[:ll].strip(".") or "x"
    rest = max(8, total - len(local) - 1)
    dom = ".".join(word(rng, alnum, 3, 10) for _ in range(12))[:rest - 4].strip(".") + rng.choice([".org", ".net", ".com"])
    return local + "@" + dom


def gen_conc_long(rng, quick, dom):
    """rounds with addresses of 20..80 octets: the same long address with the right and a wrong
    password, and two addresses sharing their first 31 / 32 / 33 / 40 octets, over all mechanisms,
    on two connections and back-to-back on one SASL connection; the valid one first or last"""
    alnum = list("abcdefghkmnpqrstuvwxyz23456789")
    plans = []
    share = [None, 32, 31, 33, 40, None, 32, 40]
    kinds = [("sasl", "sasl"), ("sasl", "sasl"), ("sasl", "sasl"), ("login", "sasl"), ("authplain", "login"),
             ("sasl", "sasl_login", "sasl"), ("direct", "direct"), ("sasl", "authplain", "login")]
    reps = 1 if quick else 4
    for rep in range(reps):
        for n, (sh, ks) in enumerate(zip(share, kinds)):
            plans.append((sh, ks, (n + rep) % 2 == 0, False))
        # back-to-back on ONE SASL connection (sequential for the service) vs two connections
        plans.append((None, ("sasl", "sasl"), True, True))
        plans.append((32, ("sasl", "sasl"), True, True))
    rounds = []
    for (sh, ks, valid_first, same_conn) in plans:
        total = rng.randint(34, 80) if sh else rng.randint(20, 80)
        good_u = long_address(rng, max(total, (sh or 0) + 6), alnum)
        good_p = word(rng, alnum, 6, 12)
        others = []
        for j in range(len(ks) - 1):
            if sh is None:
                # the SAME address with a wrong password
                wrong = word(rng, alnum, 6, 12)
                others.append((good_u, wrong if wrong != good_p else wrong + "x"))
            else:
                # another person's address sharing exactly the first `sh` octets
                tail = good_u[sh:]
                c = rng.choice([ch for ch in alnum if ch != (tail[:1] or "")])
                other = good_u[:sh] + c + word(rng, alnum, 2, 6) + rng.choice(["", "@" + word(rng, alnum, 4, 8) + ".org"])
                if other.count("@") > 1:
                    i = other.index("@")
                    other = other[:i + 1] + other[i + 1:].replace("@", ".")
                others.append((other, rng.choice([good_p, word(rng, alnum, 6, 12)])))
        creds = [(good_u, good_p)] + others if valid_first else others + [(good_u, good_p)]
        sessions = []
        for k, (kind, (u, p)) in enumerate(zip(ks, creds)):
            sessions.append(conc_session(kind, k, u, p, same_conn=(same_conn and k > 0)))
        rounds.append({"accept": [[good_u, good_p]], "sessions": sessions})
    return rounds


# ---------------------------------------------------------------------------
# running cases on the implementation

def lat(s):
    return s  # python str already is the Latin-1 view of the byte string


def scenario_ops(cases):
    """one driver scenario for a chunk of cases of mixed suites; returns ops
    and, per op, the indices of the cases it serves"""
    ops, owners = [], []
    for suite, opname in (("direct", "c04_direct"), ("login", "c04_wire"), ("plain", "c04_wire")):
        idx = [i for i, c in enumerate(cases) if c["suite"] == suite]
        if not idx:
            continue
        # accounts with a prepared world state log in last
        idx.sort(key=lambda i: 0 if cases[i].get("prov", "none") == "none" else 1)
        setup = [{"prov": cases[i]["prov"], "prov_local": cases[i]["prov_local"], "prov_domain": cases[i]["prov_domain"]}
                 for i in idx if cases[i].get("prov", "none") != "none"]
        dc = []
        for i in idx:
            c = cases[i]
            beh = c["beh"]
            d = {"domain": c["domain"], "beh": "200" if beh == "dead" else beh, "dead": beh == "dead"}
            if suite == "direct":
                d.update({"u": c["u"], "p": c["p"], "prov": c.get("prov", "none"), "prov_local": c.get("prov_local", ""), "prov_domain": c.get("prov_domain", "")})
            elif suite == "login":
                d.update({"kind": "login", "tls": c["tls"], "tag": c["tag"], "line": c["line"], "timeout_ms": 6000})
            else:
                d.update({"kind": "authplain", "tls": c["tls"], "tag": c["tag"], "blob": c["blob"], "timeout_ms": 6000})
            dc.append(d)
        o = {"op": opname, "cases": dc}
        if suite == "direct" and setup:
            o["setup"] = setup
        ops.append(o)
        owners.append(idx)
    for i, c in enumerate(cases):
        if c["suite"] == "ident":
            ops.append({"op": "c04_ident", "domain": c["domain"], "users": c["users"]})
            owners.append([i])
        if c["suite"] == "conc":
            ops.append({"op": "c04_conc", "domain": c["domain"], "procs": c["procs"], "hold_ms": 1500, "rounds": c["rounds"]})
            owners.append([i])
        if c["suite"] == "race":
            ops.append({"op": "c04_race", "domain": c["domain"], "k": c["k"], "rounds": c["rounds"], "lmtp": c["lmtp"],
                        "prefix": c["prefix"], "full_address": c["full_address"], "warm": 2})
            owners.append([i])
    # SASL: one server per (domain, dead)
    groups = {}
    for i, c in enumerate(cases):
        if c["suite"] == "sasl":
            groups.setdefault((c["domain"], c["beh"] == "dead"), []).append(i)
    for (dom, dead), idx in sorted(groups.items()):
        sc = []
        for i in idx:
            c = cases[i]
            beh = c["beh"]
            to = 8000
            if beh.startswith("slow"):
                to = 14000
            if beh.startswith("slowfail:"):
                beh = "slow200:" + beh.split(":")[1]
            sc.append({"line": c["line"], "beh": "200" if dead else beh, "timeout_ms": to})
        ops.append({"op": "c04_sasl", "domain": dom, "dead": dead, "cases": sc})
        owners.append(idx)
    return ops, owners


def reply_class(recv, tag):
    for l in recv.split("\r\n"):
        if l.startswith(tag + " OK"):
            return "R_OK"
        if l.startswith(tag + " NO"):
            return "R_NO"
        if l.startswith(tag + " BAD"):
            return "R_BAD"
    return "R_NONE"


def run_impl(cases, workers=8, chunk=60):
    """runs all cases; sets c['obs'] (dict) on each; returns list of crash notes"""
    chunks = [cases[i:i + chunk] for i in range(0, len(cases), chunk)]
    plans = [scenario_ops(ch) for ch in chunks]
    results = C.run_many([p[0] for p in plans], workers=workers, timeout=900)
    crashes = []
    for ch, (ops, owners), res in zip(chunks, plans, results):
        if res.get("crashed"):
            crashes.append(res.get("stderr", "")[:400])
            continue
        for op, idx, ob in zip(ops, owners, res["obs"]):
            if "panic" in ob or "error" in ob:
                crashes.append(str(ob)[:400])
                continue
            if op["op"] == "c04_ident":
                ch[idx[0]]["obs"] = {"cfg_domain": ob["cfg_domain"], "rows": ob["rs"]}
                continue
            if op["op"] == "c04_race":
                ch[idx[0]]["obs"] = {"cfg_domain": ob["cfg_domain"], "rounds": ob["rounds"]}
                continue
            if op["op"] == "c04_conc":
                ch[idx[0]]["obs"] = {"rounds": ob["rounds"]}
                continue
            if ob.get("setup_errors"):
                crashes.append("world setup failed: %s" % ob["setup_errors"][:3])
                continue
            for i, r in zip(idx, ob["rs"]):
                ch[i]["obs"] = r
    return crashes


# ---------------------------------------------------------------------------
# Coq emission

def cs(s):
    return C.coq_str(s.encode("latin-1"))


def coq_out(bodies, reply, bound):
    b = "None" if bound is None else "(Some (%s, %s))" % (cs(bound[0]), cs(bound[1]))
    return "(mk_out %s %s %s)" % (C.coq_list([cs(x) for x in bodies]), reply, b)


def observed(c):
    """normalise the driver's observation of an IMAP-side case -> (bodies, reply, bound, notes)"""
    o = c["obs"]
    bodies = [r["body"] for r in o.get("reqs", [])]
    notes = []
    if c["suite"] == "direct":
        reply = reply_class(o.get("wrote", ""), "T")
        bound = None
        if o.get("authed"):
            row = o.get("row")
            bound = tuple(row) if row else ("\x00missing-row", "")
            if row and o.get("username") != row[0]:
                notes.append("state.Username %r differs from the bound users row %r" % (o.get("username"), row))
        if "panic" in o:
            notes.append("panic: " + o["panic"])
    else:
        reply = reply_class(o.get("recv", ""), c["tag"])
        bound = None
        st = o.get("stores")
        if st is not None:
            st = [x for x in st if x]
            if len(st) == 1:
                bound = tuple(st[0])
            else:
                bound = ("\x00stores:%d" % len(st), "")
        if "\x00PANIC" in o.get("recv", ""):
            notes.append("panic in the connection handler")
    return bodies, reply, bound, notes


def emit(cases):
    """Coq sources evaluating all cases: list of (suite, keys, file body)"""
    src = C.COQ_CASE_HEADER + "From Raven Require Import Base.GoStrB64 Spec.Json Model.CmdTokenizer Model.Auth Spec.CmdArgs Spec.AuthSpec Spec.AuthObs.\n"
    groups = {"direct": [], "ident": [], "login": [], "plain": [], "sasl": [], "race": [], "conc": []}
    skipped = SKIPPED
    for i, c in enumerate(cases):
        if "obs" not in c:
            continue
        s = c["suite"]
        if s == "ident":
            for j, (u, row) in enumerate(zip(c["users"], c["obs"]["rows"])):
                groups[s].append(((i, j), "(mk_icase %s %s (%s, %s))" % (cs(c["domain"]), cs(u), cs(row[0]), cs(row[1]))))
            continue
        if s == "conc":
            for r, (plan, rd) in enumerate(zip(c["rounds"], c["obs"]["rounds"])):
                xs = []
                for se, ob in zip(plan["sessions"], rd["sessions"]):
                    imap = se["kind"] != "sasl"
                    bound = None
                    if se["kind"] == "direct":
                        reply = reply_class(ob.get("wrote", ""), "T")
                        if ob.get("authed"):
                            bound = ob.get("row") or ["\x00missing-row", ""]
                    elif imap:
                        reply = reply_class(ob.get("recv", ""), se["tag"])
                        st = ob.get("stores")
                        if st is not None:
                            st = [x for x in st if x]
                            bound = st[0] if len(st) == 1 else ["\x00stores:%d" % len(st), ""]
                    else:
                        reply = "R_OK" if ob.get("wrote", "").startswith("OK\t") else "R_NO"
                    b = "None" if bound is None else "(Some (%s, %s))" % (cs(bound[0]), cs(bound[1]))
                    req = se.get("mech") != "LOGIN"
                    xs.append("(mk_csess %s %s %s %s %s %s %s)" % (C.coq_bool(imap), C.coq_bool(req), cs(c["domain"]), cs(se["u"]), cs(se["p"]), reply, b))
                bodies = ["(%s, %s)" % (cs(x["body"]), C.coq_bool(x["accepted"])) for x in rd["backend"]]
                groups[s].append(((i, (r, 0)), "(mk_ccase %s %s)" % (C.coq_list(xs), C.coq_list(bodies))))
            continue
        if s == "race":
            for r, rd in enumerate(c["obs"]["rounds"]):
                for j, se in enumerate(rd["sessions"]):
                    reply = reply_class(se.get("wrote", ""), "T")
                    row = se.get("row") if se.get("authed") else None
                    if se.get("authed") and not row:
                        row = ["\x00missing-row", ""]
                    b = "None" if row is None else "(Some (%s, %s))" % (cs(row[0]), cs(row[1]))
                    groups[s].append(((i, (r, j)), "(mk_rcase %s %s %s %s)" % (cs(c["obs"]["cfg_domain"]), cs(rd["u"]), reply, b)))
            continue
        oc, _ = outcome(c["beh"])
        if s == "sasl":
            o = c["obs"]
            if o.get("how") != "eof" or "error" in o:
                skipped.append("SASL case not evaluated (connection did not reach EOF in time): %r" % c["line"][:80])
                continue
            bodies = [r["body"] for r in o.get("reqs", [])]
            it = "None" if c["intended"] is None else "(Some (%s, %s, %s))" % tuple(cs(x) for x in c["intended"])
            groups[s].append((i, "(mk_scase %s %s %s %s %s %s)" % (cs(c["domain"]), cs(c["line"]), oc, it, C.coq_list([cs(x) for x in bodies]), cs(o.get("wrote", "")))))
            continue
        bodies, reply, bound, _ = observed(c)
        obs = coq_out(bodies, reply, bound)
        c["domain"] = c["obs"].get("cfg_domain", c["domain"])   # the domain raven read back from raven.yaml
        if s == "direct":
            ens_ok, init_ok = WORLD.get(c.get("prov", "none"), (True, True))
            ens = C.coq_bool(ens_ok)
            init = C.coq_bool(init_ok)
            groups[s].append((i, "(mk_dcase %s %s %s %s %s %s %s)" % (cs(c["domain"]), cs(c["u"]), cs(c["p"]), oc, ens, init, obs)))
        elif s == "login":
            it = "None" if c["intended"] is None else "(Some (%s, %s, %s, %s))" % (FORM[c["intended"][0]], FORM[c["intended"][1]], cs(c["intended"][2]), cs(c["intended"][3]))
            groups[s].append((i, "(mk_wcase %s %s %s %s %s %s %s)" % (C.coq_bool(c["tls"]), cs(c["domain"]), cs(c["tag"]), cs(c["line"]), oc, it, obs)))
        elif s == "plain":
            it = "None" if c["intended"] is None else "(Some (%s, %s))" % (cs(c["intended"][0]), cs(c["intended"][1]))
            groups[s].append((i, "(mk_pcase %s %s %s %s %s %s %s)" % (C.coq_bool(c["tls"]), cs(c["domain"]), cs(c["authzid"]), cs(c["blob"]), oc, it, obs)))
    ev = {"direct": ("dcase", "dcase_eval"), "ident": ("icase", "icase_eval"), "login": ("wcase", "wcase_eval"),
          "plain": ("pcase", "pcase_eval"), "sasl": ("scase", "scase_eval"), "race": ("rcase", "rcase_eval"), "conc": ("ccase", "ccase_eval")}
    files = []
    for s, items in groups.items():
        ty, f = ev[s]
        for k in range(0, len(items), COQ_CHUNK):
            part = items[k:k + COQ_CHUNK]
            body = src + "Definition cases : list %s := [\n%s].\n" % (ty, ";\n".join(t for _, t in part))
            body += "Definition bad := Eval vm_compute in bad_rows %s cases.\nPrint bad.\n" % f
            files.append((s, [key for key, _ in part], body))
    return files


COQ_CHUNK = 260
MAX_REPORT = 3   # fresh violations written out per suite
SKIPPED = []

# Coq wraps long lists: "( 163, (false, false, 0))" is possible
ROW = re.compile(r"\(\s*(\d+)\s*,\s*\(\s*(true|false)\s*,\s*(true|false)\s*,\s*(\d+)\s*\)\s*\)")


def evaluate(chk, cases, tagname):
    """run the implementation and the in-Coq evaluation; returns list of
    (case, sub-index, m_ok, s_ok, class) for rows that are not (true, true), or None"""
    crashes = run_impl(cases)
    if crashes:
        chk.broken_obligation("driver scenario failed in the C04 suite (%s): %s" % (tagname, crashes[0]))
        return None
    files = emit(cases)
    from concurrent.futures import ThreadPoolExecutor
    with ThreadPoolExecutor(max_workers=8) as ex:
        outs = list(ex.map(lambda t: C.coq_eval_cases("C04%s_%d" % (tagname, t[0]), t[1][2]), enumerate(files)))
    bad = []
    for (s, keys, _), (rc, log) in zip(files, outs):
        if rc != 0:
            chk.broken_obligation("in-Coq evaluation of the C04 cases (%s) failed:\n%s" % (s, log[-2500:]))
            return None
        txt = C.parse_coq_list_out(log, "bad")
        if txt is None:
            chk.broken_obligation("could not read the evaluation of suite %s from the Coq output:\n%s" % (s, log[-1500:]))
            return None
        rows = list(ROW.finditer(txt))
        if len(rows) != (0 if txt.strip() == "[]" else txt.count(";") + 1):
            chk.broken_obligation("could not parse every row of the evaluation of suite %s: %s" % (s, txt[:600]))
            return None
        for m in rows:
            k = keys[int(m.group(1))]
            sub = None
            if isinstance(k, tuple):
                k, sub = k
            bad.append((cases[k], sub, m.group(2) == "true", m.group(3) == "true", CLS.get(int(m.group(4)))))
    return bad


def payload_of(c, sub=None):
    p = {k: v for k, v in c.items() if k not in ("obs",)}
    if sub is not None and c["suite"] == "conc":
        # the replayable scenario: this round alone
        p["rounds"] = [c["rounds"][sub[0]]]
        p["observed"] = c["obs"]["rounds"][sub[0]]
    elif sub is not None and c["suite"] == "race":
        p["observed"] = c["obs"]["rounds"][sub[0]]
    elif sub is not None:
        p = {"suite": "ident", "domain": c["domain"], "users": [c["users"][sub]]}
        p["observed"] = c["obs"]["rows"][sub]
    else:
        p["observed"] = c.get("obs")
    p["replay"] = "bin/check C04 replay <this file>"
    return p


def describe(c, sub=None):
    s = c["suite"]
    if s == "direct" and c.get("prov", "none") != "none":
        return "authenticateUser(%r, %r) domain=%r backend=%s, account state %s -> %r bound to users row %r" % (
            c["u"], c["p"], c["domain"], c["beh"], c["prov"], (c.get("obs") or {}).get("wrote", "")[:12], (c.get("obs") or {}).get("row"))
    if s == "direct":
        return "authenticateUser(%r, %r) domain=%r backend=%s" % (c["u"], c["p"], c["domain"], c["beh"])
    if s == "conc":
        plan, rd = c["rounds"][sub[0]], c["obs"]["rounds"][sub[0]]
        ses = []
        for se, ob in zip(plan["sessions"], rd["sessions"]):
            ans = (ob.get("wrote") or ob.get("recv") or "")[:8]
            ses.append("%s %r/%r -> %r" % (se["kind"], se["u"], se["p"], ans))
        return ("concurrent logins (GOMAXPROCS=%d, held in the backend handshake, released together) domain=%r, backend accepts only %r: sessions [%s]; "
                "bodies received by the backend: %r" % (c["procs"], c["domain"], plan["accept"], "; ".join(ses), [(x["body"], x["accepted"]) for x in rd["backend"]]))
    if s == "race":
        rd = c["obs"]["rounds"][sub[0]]
        se = rd["sessions"][sub[1]]
        return "concurrent first logins of %r (k=%d%s) domain=%r: session %d answered %r and is bound to users row %r" % (
            rd["u"], c["k"], ", racing a first delivery" if c["lmtp"] else "", c["obs"]["cfg_domain"], sub[1], se.get("wrote", "")[:12], se.get("row"))
    if s == "ident":
        return "ExtractUsername/GetUserDomain(%r) domain=%r -> %r" % (c["users"][sub], c["domain"], c["obs"]["rows"][sub])
    if s == "login":
        return "LOGIN line %r (tls=%s) domain=%r backend=%s" % (c["line"], c["tls"], c["domain"], c["beh"])
    if s == "plain":
        return "AUTHENTICATE PLAIN data %r (tls=%s) domain=%r backend=%s" % (c["blob"], c["tls"], c["domain"], c["beh"])
    return "SASL line %r domain=%r backend=%s -> %r" % (c["line"], c["domain"], c["beh"], (c.get("obs") or {}).get("wrote"))


def non_ascii_edge(c):
    """inputs outside the ASCII domain of strings.Fields/TrimSpace/ToUpper"""
    if c["suite"] == "login":
        return any(ord(ch) > 127 for ch in c["line"])
    if c["suite"] == "plain":
        return any(ord(ch) > 127 for ch in c["blob"])
    if c["suite"] == "sasl":
        parts = c["line"].split("\t")
        return len(parts) > 2 and any(ord(ch) > 127 for ch in parts[2])
    return False


def load_corpus():
    out = []
    for f in sorted(glob.glob(os.path.join(C.VERIF, "corpus", "C04", "*.json"))):
        d = json.load(open(f))
        c = d["case"]
        c["corpus"] = os.path.basename(f)
        c["expect_class"] = d.get("class")
        out.append(c)
    return out


def neighbours(c):
    """variants of a disagreeing case: same credentials under an accepting and a refusing backend"""
    out = []
    for beh in ("200", "401", "close"):
        n = {k: v for k, v in c.items() if k not in ("obs", "corpus", "expect_class")}
        if n["suite"] in ("ident", "race", "conc") or n.get("prov", "none") != "none":
            continue
        n["beh"] = beh
        if "tag" in n:
            n["tag"] = n["tag"]
        out.append(n)
    return out


def run(chk):
    rng = chk.rng
    quick = chk.tier == "quick"
    corpus = load_corpus()
    n_direct, n_ident, n_login, n_plain, n_sasl = (420, 600, 110, 90, 330) if quick else (4000, 6000, 900, 700, 3000)
    cases = list(corpus)
    cases += gen_direct(rng, n_direct) + gen_ident(rng, n_ident) + gen_login(rng, n_login) + gen_plain(rng, n_plain) + gen_sasl(rng, n_sasl)
    cases += gen_race(rng, quick) + gen_conc(rng, quick)
    if not quick:
        # the SASL client's own patience (10 s): a backend that answers 200 too late must not yield OK
        cases.append({"suite": "sasl", "domain": "d.test", "line": "AUTH\t5\tPLAIN\tresp=" + b64("\x00late\x00pw"), "beh": "slowfail:11500", "intended": ["5", "late", "pw"]})
        cases.append({"suite": "sasl", "domain": "d.test", "line": "AUTH\t6\tPLAIN\tresp=" + b64("\x00slow\x00pw"), "beh": "slow200:1200", "intended": ["6", "slow", "pw"]})
        cases.append({"suite": "direct", "domain": "d.test", "u": "slowpoke", "p": "pw", "beh": "slow200:1200", "prov": "none"})
    # tags must be unique per connection only; make them unique overall for readability
    for i, c in enumerate(cases):
        if c["suite"] in ("login", "plain") and "corpus" not in c:
            pass

    flat_sizes = [len(c["users"]) if c["suite"] == "ident" else (c["rounds"] * c["k"] if c["suite"] == "race" else (len(c["rounds"]) if c["suite"] == "conc" else 1)) for c in cases]
    bad = evaluate(chk, cases, "")
    if bad is None:
        return

    # ---- coverage
    n_eval = sum(flat_sizes)
    chk.cov["evaluations"] = n_eval
    chk.cov["by_suite"] = {s: sum(sz for c, sz in zip(cases, flat_sizes) if c["suite"] == s) for s in ("direct", "ident", "login", "plain", "sasl", "race", "conc")}
    chk.cov["backend_behaviours"] = sorted(set(c.get("beh", "") for c in cases if c["suite"] != "ident"))
    accepted = [c for c in cases if c["suite"] in ("direct", "login", "plain") and observed(c)[1] == "R_OK"]
    chk.cov["imap_sessions_authenticated"] = len(accepted)
    chk.cov["account_states"] = {m: sum(1 for c in cases if c["suite"] == "direct" and c.get("prov") == m) for m in WORLD}
    chk.cov["conc_rounds"] = sum(len(c["rounds"]) for c in cases if c["suite"] == "conc")
    chk.cov["conc_sessions_held_in_handshake"] = sum(1 for c in cases if c["suite"] == "conc" for rd in c["obs"]["rounds"] for ob in rd["sessions"] if not ob.get("not_accepted"))
    chk.cov["race_rounds"] = sum(c["rounds"] for c in cases if c["suite"] == "race")
    chk.cov["race_sessions_ok"] = sum(1 for c in cases if c["suite"] == "race" for rd in c["obs"]["rounds"] for se in rd["sessions"] if se.get("authed"))
    chk.cov["sasl_ok_answers"] = sum(1 for c in cases if c["suite"] == "sasl" and c["obs"].get("wrote", "").startswith("OK\t"))
    seen = set()
    for c in cases:
        if c["suite"] == "direct":
            key = ("d", c["domain"], c["u"], c["p"], c["beh"])
            nontriv = any(ch in c["u"] + c["p"] for ch in '"\\@\x00\n\t') or c["beh"] != "200"
        elif c["suite"] == "ident":
            for u in c["users"]:
                if "@" in u:
                    seen.add(("i", c["domain"], u))
            continue
        elif c["suite"] == "race":
            for rd in c["obs"]["rounds"]:
                seen.add(("r", c["prefix"], rd["u"]))
            continue
        elif c["suite"] == "conc":
            for n, rd in enumerate(c["rounds"]):
                seen.add(("c", n, tuple((se["kind"], se["u"], se["p"]) for se in rd["sessions"])))
            continue
        elif c["suite"] == "sasl":
            key = ("s", c["domain"], c["line"], c["beh"])
            nontriv = c["intended"] is None or any(ch in c["intended"][1] + c["intended"][2] for ch in '"\\@\n\t') or c["beh"] != "200"
        else:
            key = (c["suite"], c["domain"], c.get("line", c.get("blob")), c["beh"], c["tls"])
            nontriv = True
        if nontriv:
            seen.add(key)
    chk.cov["distinct_nontrivial"] = len(seen)
    chk.cov["rule"] = ("seeded generators: user names/passwords over all octets (plain atoms, JSON meta octets \" \\ and controls incl. NUL/TAB/LF, '@' 0..4 times, octets >= 0x80, injection shapes), "
                       "default domains incl. one with '@', with '\"', and the empty one, backend behaviours 200/other status/garbage/dropped/hang/refused(/late 200 in thorough); "
                       "every case is run on raven (authenticateUser directly; LOGIN and AUTHENTICATE PLAIN over a connection followed by CREATE of a marker mailbox to see which store is addressed; "
                       "SASL lines over a unix socket) and evaluated inside Coq (vm_compute): model output == observation, executable spec on the observation, finding class. "
                       "non-trivial = contains a meta octet/'@' or a non-200 backend or is a wire/SASL line; distinct by full input")
    chk.cov["traces_validated_against_impl"] = n_eval
    for c in cases:
        if c["suite"] == "direct" and c["beh"] == "200" and '"' in c["u"]:
            chk.sample({"suite": "direct", "u": c["u"], "p": c["p"], "domain": c["domain"], "bodies": [r["body"] for r in c["obs"].get("reqs", [])], "row": c["obs"].get("row")})
            break
    for s in ("login", "plain", "sasl"):
        for c in cases:
            if c["suite"] == s and c.get("intended"):
                chk.sample({k: v for k, v in c.items() if k != "obs"} | {"observed": {k: v for k, v in c["obs"].items() if k in ("recv", "wrote", "reqs", "stores")}})
                break

    # ---- python-side observation notes (panic, state.Username differs from the row of state.UserID)
    side = []
    for c in cases:
        if c["suite"] in ("direct", "login", "plain"):
            for n in observed(c)[3]:
                side.append((c, n))

    # ---- decisions
    nd = 0
    n_domain = 0
    rep = {}       # suite -> fresh violations seen; at most MAX_REPORT per suite are written out (the first ones)

    def fresh_slot(c):
        rep[c["suite"]] = rep.get(c["suite"], 0) + 1
        return rep[c["suite"]] <= MAX_REPORT

    pending = []   # model != impl, spec holds, outside every finding class
    bad.sort(key=lambda b: 0 if "corpus" in b[0] else 1)   # regression witnesses are reported first
    judged = set(id(b[0]) for b in bad if not b[3])
    for c, n in side:
        if id(c) in judged:
            continue          # already reported below with the full description
        if fresh_slot(c):
            chk.violation("%s: %s" % (describe(c), n), payload_of(c))
    for (c, sub, m_ok, s_ok, cls) in bad:
        nd += 1
        if cls == DOMAIN:
            n_domain += 1
            if n_domain <= 3:
                chk.notes.append("domain limit (address or password is not valid UTF-8; encoding/json substitutes U+FFFD): " + describe(c, sub)[:160])
            continue
        if not s_ok:
            what = "property violated by the implementation: " + describe(c, sub)
            if cls is None and non_ascii_edge(c):
                chk.notes.append("domain edge (non-ASCII octets in a line split by strings.Fields/ToUpper): " + describe(c, sub)[:200])
                continue
            fresh = cls is None or cls not in chk.findings
            if fresh and not fresh_slot(c):
                continue
            chk.violation(what, payload_of(c, sub), cls=cls)
        elif not m_ok:
            if cls is not None:
                chk.notes.append("model and implementation differ inside finding class %s (informational): %s" % (cls, describe(c, sub)[:160]))
            elif non_ascii_edge(c):
                chk.notes.append("domain edge (non-ASCII octets): " + describe(c, sub)[:200])
            else:
                pending.append((c, sub))
    chk.cov["disagreements_checked"] = nd
    more = sum(max(0, n - MAX_REPORT) for n in rep.values())
    if more:
        chk.notes.append("%d further violating inputs not written out" % more)
    chk.cov["cases_skipped"] = len(SKIPPED)
    if len(SKIPPED) * 20 > max(1, chk.cov["by_suite"]["sasl"]):
        chk.broken_obligation("correspondence suite sasl no longer checks: %d of %d SASL cases did not complete (service hangs?): %s"
                              % (len(SKIPPED), chk.cov["by_suite"]["sasl"], SKIPPED[0]))
    chk.notes.extend(SKIPPED[:5])
    chk.cov["outside_utf8_domain"] = n_domain
    for c in corpus:
        hit = any(b[0] is c and not b[3] for b in bad)
        if not hit and c.get("expect_class") in chk.findings:
            chk.notes.append("corpus witness %s no longer violates the property" % c.get("corpus"))
    chk.cov["regression_witnesses_passing"] = sorted(c.get("corpus") for c in corpus
                                                     if c.get("expect_class") not in chk.findings and not any(b[0] is c for b in bad))
    if pending:
        # neighbourhood search on the implementation for a spec-violating input
        neigh = []
        for c, sub in pending[:8]:
            neigh += neighbours(c)
        found = False
        if neigh:
            b2 = evaluate(chk, neigh, "_n")
            if b2 is None:
                return
            for (c2, sub2, m2, s2, cls2) in b2:
                if not s2 and cls2 is None and not non_ascii_edge(c2):  # (DOMAIN rows have cls2 == DOMAIN)
                    found = True
                    if not fresh_slot(c2):
                        continue
                    chk.violation("property violated by the implementation (found near a model/implementation disagreement): " + describe(c2, sub2), payload_of(c2, sub2))
                    found = True
        if not found:
            c, sub = pending[0]
            chk.broken_obligation("correspondence suite %s no longer checks: the implementation differs from Model/Auth.v on %s (and %d more), no property-violating input found nearby"
                                  % (c["suite"], describe(c, sub), len(pending) - 1), payload_of(c, sub))


def replay(path):
    d = json.load(open(path))
    c = {k: v for k, v in d.items() if k not in ("observed", "replay", "property", "what", "class", "broken", "no_failing_input_found")}
    if "case" in d:
        c = d["case"]
    crashes = run_impl([c])
    print(json.dumps({"case": {k: v for k, v in c.items() if k != "obs"}, "observed": c.get("obs"), "crashes": crashes}, indent=1))
    return 0
