"""Python twin of coq/Spec/Grammar.v (the strict response recogniser of C13).
Byte-for-byte the same automaton; cross-checked against the Coq recogniser
(vm_compute on the same bytes) on every run by checks/c13.py."""

START, NORM, QUO, QUOESC, LITNUM, LITCR, LITLF, LITDATA, SAWCR, BAD = range(10)

SP, DQ, BSL, LP, RP, LB, RB, CR, LF, LSB, RSB = 32, 34, 92, 40, 41, 123, 125, 13, 10, 91, 93


def step_norm(d, c):
    if c == DQ:
        return (QUO, d, 0, False)
    if c == LP:
        return (NORM, d + 1, 0, False)
    if c == RP:
        return (BAD, 0, 0, False) if d == 0 else (NORM, d - 1, 0, False)
    if c == LB:
        return (LITNUM, d, 0, False)
    if c == CR:
        return (SAWCR, 0, 0, False) if d == 0 else (BAD, 0, 0, False)
    if c == LF:
        return (BAD, 0, 0, False)
    return (NORM, d, 0, False)


def step(s, c):
    """state = (mode, depth, n, started)"""
    m, d, n, b = s
    if m == START:
        return (BAD, 0, 0, False) if c == CR else step_norm(d, c)
    if m == NORM:
        return step_norm(d, c)
    if m == QUO:
        if c == DQ:
            return (NORM, d, 0, False)
        if c == BSL:
            return (QUOESC, d, 0, False)
        if c in (CR, LF):
            return (BAD, 0, 0, False)
        return (QUO, d, 0, False)
    if m == QUOESC:
        return (QUO, d, 0, False) if c in (DQ, BSL) else (BAD, 0, 0, False)
    if m == LITNUM:
        if 48 <= c <= 57:
            return (LITNUM, d, 10 * n + (c - 48), True)
        if c == RB and b:
            return (LITCR, d, n, False)
        return (BAD, 0, 0, False)
    if m == LITCR:
        return (LITLF, d, n, False) if c == CR else (BAD, 0, 0, False)
    if m == LITLF:
        if c == LF:
            return (NORM, d, 0, False) if n == 0 else (LITDATA, d, n, False)
        return (BAD, 0, 0, False)
    if m == LITDATA:
        return (NORM, d, 0, False) if n <= 1 else (LITDATA, d, n - 1, False)
    if m == SAWCR:
        return (START, 0, 0, False) if c == LF else (BAD, 0, 0, False)
    return (BAD, 0, 0, False)


def run(s, x):
    for c in x:
        s = step(s, c)
    return s


def wf_stream(x):
    s = run((START, 0, 0, False), x)
    return s[0] == START and s[1] == 0


def neutral(s):
    return s[0] == NORM and s[1] == 0


def br_step(s, br, c):
    if neutral(s):
        if c == LSB:
            return br + 1
        if c == RSB:
            return max(br - 1, 0)
    return br


def take(x):
    """-> (token, rest) or None"""
    s = (NORM, 0, 0, False)
    br = 0
    started = False
    i = 0
    n = len(x)
    while True:
        if i == n:
            return (x[:i], b"") if (neutral(s) and br == 0 and started) else None
        c = x[i]
        if neutral(s) and br == 0 and started and c in (SP, RP):
            return (x[:i], x[i:])
        br = br_step(s, br, c)
        s = step(s, c)
        started = True
        i += 1


def tokens(x):
    """tok (SP tok)* -> (list, rest) or None"""
    out = []
    while True:
        r = take(x)
        if r is None:
            return None
        t, rest = r
        out.append(t)
        if rest == b"":
            return (out, b"")
        if rest[0] == SP:
            x = rest[1:]
            continue
        return (out, rest)


def item_name_ok(n):
    return len(n) > 0 and (65 <= n[0] <= 90 or 97 <= n[0] <= 122)


def fetch_pairs(resp):
    """resp includes the final CRLF. -> (num, [(name, value)]) or None"""
    if not resp.startswith(b"* "):
        return None
    r = resp[2:]
    i = 0
    while i < len(r) and 48 <= r[i] <= 57:
        i += 1
    if i == 0:
        return None
    num, r = r[:i], r[i:]
    if not r.startswith(b" FETCH ("):
        return None
    body = r[8:]
    tk = tokens(body)
    if tk is None:
        return None
    ts, rest = tk
    if rest != b")\r\n":
        return None
    if len(ts) % 2:
        return None
    ps = [(ts[k], ts[k + 1]) for k in range(0, len(ts), 2)]
    if not all(item_name_ok(n) for n, _ in ps):
        return None
    return (num, ps)


def unquote(q):
    if len(q) < 2 or q[0] != DQ or q[-1] != DQ:
        return None
    x = q[1:-1]
    out = bytearray()
    i = 0
    while i < len(x):
        if x[i] == BSL and i + 1 < len(x):
            out.append(x[i + 1])
            i += 2
        else:
            out.append(x[i])
            i += 1
    return bytes(out)


def literal_payload(v):
    """value token '{n}CRLF data' -> data, or None when v is not a literal"""
    if not v.startswith(b"{"):
        return None
    k = v.find(b"}\r\n")
    if k < 0:
        return None
    return v[k + 3:]


def split_responses(x):
    """Split a well-formed stream into its response lines (each with CRLF),
    following literals. On a malformed stream returns what could be split."""
    out = []
    s = (START, 0, 0, False)
    cur = bytearray()
    for c in x:
        s = step(s, c)
        cur.append(c)
        if s[0] == START:
            out.append(bytes(cur))
            cur = bytearray()
        if s[0] == BAD:
            break
    return out


def tokb(t):
    r = take(t + b" ")
    return r is not None and r[0] == t and len(t) > 0


def is_quoted_strict(v):
    """v is exactly ONE quoted string: opening quote, escapes only of quote and
    backslash, no bare quote / CR / LF inside, closing quote is the last octet"""
    if len(v) < 2 or v[0] != DQ:
        return False
    i = 1
    n = len(v)
    while i < n:
        c = v[i]
        if c == BSL:
            if i + 1 >= n or v[i + 1] not in (DQ, BSL):
                return False
            i += 2
            continue
        if c == DQ:
            return i == n - 1
        if c in (CR, LF):
            return False
        i += 1
    return False


def is_literal_strict(v):
    """v is exactly one literal: {n}CRLF followed by exactly n octets"""
    m = None
    if not v.startswith(b"{"):
        return False
    k = v.find(b"}\r\n")
    if k < 2 or not v[1:k].isdigit():
        return False
    return len(v) - (k + 3) == int(v[1:k])
