"""C16 — LMTP dialogue: correspondence of Model/Lmtp.v (+ Model/LmtpMsg.v) with
internal/delivery/lmtp/session.go and parser.ReadDataCommand, and evaluation of
the executable specs (Spec/LmtpDialog.v, Spec/LmtpStream.v) on what the
implementation answered.

Suites
  reader   direct calls of parser.ReadDataCommand: value and bytes left in the reader
  parse    direct calls of parseMailFrom / parseRcptTo
  verdict  ParseMessage+ValidateMessage vs the oracle approximation msg_ok
  session  whole byte streams served to lmtp.Session.Handle (driver op lmtp_script)
"""
import glob
import json
import os
import re

import common as C

CONFIGS = [(200, 3), (1000, 2), (90, 1), (400, 4)]
USERS = ["u1@example.com", "u2@example.com", "u3@example.com", "u4@example.com", "u5@example.com"]


# ----------------------------------------------------------------------------
# Coq encoding

_RUN = re.compile(rb"([ -~]{1,5}?)\1{23,}", re.S)


def _cb_plain(b):
    parts = []
    i = 0
    while i < len(b):
        j = i
        if 32 <= b[i] < 127:
            while j < len(b) and 32 <= b[j] < 127:
                j += 1
            parts.append('S_ "%s"' % b[i:j].decode("ascii").replace('"', '""'))
        else:
            while j < len(b) and not (32 <= b[j] < 127):
                j += 1
            seg = b[i:j]
            if seg == b"\r\n":
                parts.append("crlf")
            else:
                parts.append("bs [%s]%%nat" % ";".join(str(c) for c in seg))
        i = j
    return parts


def cb(b):
    """Coq term of type str for a byte string: printable runs as S_ "...", long periodic
    runs (the filler of long lines) as rpt <count> (S_ "<period>")"""
    if isinstance(b, str):
        b = b.encode("latin-1")
    if not b:
        return "[]"
    parts = []
    pos = 0
    if len(b) >= 48:
        for m in _RUN.finditer(b):
            pat = m.group(1)
            cnt = (m.end() - m.start()) // len(pat)
            parts += _cb_plain(b[pos:m.start()])
            parts.append('rpt %d (S_ "%s")' % (cnt, pat.decode("ascii").replace('"', '""')))
            pos = m.start() + cnt * len(pat)
    parts += _cb_plain(b[pos:])
    return "(" + " ++ ".join(parts) + ")"


def clist(items):
    return "[" + ";\n ".join(items) + "]"


def parse_codes(log, name):
    txt = C.parse_coq_list_out(log, name)
    if txt is None:
        return None
    return [int(x) for x in re.findall(r"\d+", txt)]


# ----------------------------------------------------------------------------
# generators

HDR_OK = [
    ["From: a@example.com", "To: b@example.com", "Subject: hi"],
    ["from: x@example.com", "Cc: c@example.com"],
    ["To: b@example.com", "FROM: a@example.com", "X-Note: folded", " continued line"],
    ["Subject: s", "From: Alice <a@example.com>", "Bcc: d@example.com"],
]
HDR_BAD = [
    ["To: b@example.com", "Subject: no from"],          # From missing
    ["From: a@example.com", "Subject: no recipients"],  # To/Cc/Bcc missing
    [],                                                 # header-less: starts with the blank line
    ["hello world"],                                    # unparsable first line
    ["From a@example.com", "To: b@example.com"],        # no colon
    [" leading blank", "From: a@example.com", "To: b@example.com"],
    ["From:", "To: b@example.com"],                     # empty From
    ["QUIT"],                                           # unparsable first line that is an LMTP verb
    ["From: a@example.com", "Subject about the QUIT command", "To: b@example.com"],  # colon-less line naming a verb
    ["RSET now", "To: b@example.com"],
]
BODY_LINES = ["hello", ".", "..", "...", ".x", ". ", "", "RSET", "QUIT", "DATA", "NOOP", "rset",
              "MAIL FROM<z@example.com>", "LHLO again", "- dash", "tail\r", "\ttabbed", "x" * 30,
              ".", ".", "MAIL FROM:<mallory@example.net>", "RCPT TO:<carol@example.com>"]

# bodies for the dot probes: lines that are exactly dots (a single dot is sent
# stuffed as ".."), dot-only runs, each possibly followed by LMTP look-alikes
DOT_LINES = [".", ".", ".", "..", "...", "....", ".....", ". ", ".x", "..y"]
LOOKALIKES = ["MAIL FROM:<mallory@example.net>", "RCPT TO:<carol@example.com>", "RSET", "QUIT", "NOOP", "DATA",
              "mail from:<mallory@example.net>", "rcpt to:<carol@example.com>", "LHLO evil"]
DOT_CONFIGS = [(2000, 1), (2000, 3), (2000, 5)]


def gen_dot_body(rng):
    hdr = rng.choice(HDR_OK[:2] + [["From: a@example.com", "To: b@example.com"]])
    lines = [h.encode() + b"\r\n" for h in hdr] + [b"\r\n"]
    if rng.random() < 0.5:
        lines.append(b"before" + eol(rng, 0.1))
    for _ in range(rng.randint(1, 4)):
        lines.append(rng.choice(DOT_LINES).encode() + eol(rng, 0.15))
        for _ in range(rng.choice([0, 1, 1, 2, 3])):
            lines.append(rng.choice(LOOKALIKES).encode() + eol(rng, 0.1))
    if rng.random() < 0.6:
        lines.append(rng.choice([b"after", b".", b"last line"]) + eol(rng, 0.1))
    return lines


VERBS = ["QUIT", "RSET", "DATA", "MAIL FROM:", "RCPT TO:", "LHLO", "NOOP"]
REFUSAL_KINDS = ["first_line", "malformed_line", "blank_led", "headerless", "no_from", "no_rcpt", "oversize"]
REFUSAL_CONFIGS = [(400, 1), (400, 3), (400, 5)]
GOOD_MSG = [b"From: a@example.com\r\n", b"To: b@example.com\r\n", b"Subject: second\r\n", b"\r\n", b"second message\r\n", b".\r\n"]


def verb_text(rng, verb, up):
    v = verb if up else verb.lower()
    if verb == "MAIL FROM:":
        v += "<mallory@example.net>"
    elif verb == "RCPT TO:":
        v += "<carol@example.com>"
    elif verb == "LHLO":
        v += " evil.example"
    return v


def gen_refused_message(rng, ms, verb, up, kind):
    """lines of a message that the server must refuse after the end of data, with the LMTP
    verb in the line the refusal is about (or the first line, or the body)"""
    v = verb_text(rng, verb, up)
    bare = verb.rstrip(":") if up else verb.rstrip(":").lower()   # a form without colon
    body = [v, "text after", rng.choice(["QUIT", "quit", "RSET", v])]
    if kind == "first_line":        # header-less, unparsable: the first line is the verb
        lines = [bare if ":" in v else v] + body
    elif kind == "malformed_line":  # a header-section line without a colon that mentions the verb
        lines = ["From: a@example.com", "Subject about the %s command" % bare, "To: b@example.com", ""] + body
    elif kind == "blank_led":       # first line starts with a blank
        lines = [" " + bare, "From: a@example.com", "To: b@example.com", ""] + body
    elif kind == "headerless":      # starts with the empty line
        lines = [""] + body
    elif kind == "no_from":
        lines = ["To: b@example.com", "Subject: %s" % v, ""] + body
    elif kind == "no_rcpt":
        lines = ["From: a@example.com", "Subject: %s" % v, ""] + body
    else:                           # oversize
        lines = ["From: a@example.com", "To: b@example.com", ""] + body
        while sum(len(l) + 2 for l in lines) <= ms:
            lines.append(rng.choice([v, "QUIT", "filler " * 6, "."]))
        lines.append(v)
    return [l.encode("latin-1") + b"\r\n" for l in lines]


def gen_refusal_program(rng, idx, ms, mr, verb, up, kind):
    out = [b"LHLO refuse.example\r\n"]
    txs = []
    n = rng.randint(1, mr)
    rc = ["rf%dt0r%d@example.com" % (idx, k) for k in range(n)]
    bad = gen_refused_message(rng, ms, verb, up, kind)
    out.append(b"MAIL FROM:<a@example.com>\r\n")
    out += [("RCPT TO:<%s>\r\n" % r).encode() for r in rc]
    out.append(b"DATA\r\n")
    out += stuff(bad)
    out.append(b".\r\n")
    out.append(b"NOOP\r\n")
    txs.append((rc, bad))
    # the session must go on: a second, complete transaction
    n2 = rng.randint(1, mr)
    rc2 = ["rf%dt1r%d@example.com" % (idx, k) for k in range(n2)]
    good = list(GOOD_MSG)
    out.append(b"MAIL FROM:<b@example.com>\r\n")
    out += [("RCPT TO:<%s>\r\n" % r).encode() for r in rc2]
    out.append(b"DATA\r\n")
    out += stuff(good)
    out.append(b".\r\n")
    out.append(b"NOOP\r\n")
    txs.append((rc2, good))
    out.append(b"QUIT\r\n")
    return b"".join(out), txs


# ---- long physical lines (longer than the session's 4096-octet reader buffer)
LONG_LENS = [4095, 4096, 4097, 8191, 8192, 8193]
DOT_PIECES = [b".", b"..", b".x", b"...", b". ", b"..y"]


def long_line(rng, kind=None):
    """one body line (with its EOL) longer than bufio's buffer, with dots at offsets that are
    0, 1 or 4095 modulo 4096 from the start of the line and at random offsets"""
    e = eol(rng, 0.3)
    fill = rng.choice([b"x", b"ab", b"long "])
    if kind == "dot_at_boundary":       # 4096*k octets, then "." and the EOL
        k = rng.choice([1, 1, 2])
        return (fill * 4096)[:4096 * k] + b"." + e
    if kind == "dotdot_at_boundary":    # 4096*k octets, then ".." and more text
        k = rng.choice([1, 1, 2])
        return (fill * 4096)[:4096 * k] + rng.choice([b"..", b"..tail", b"...", b".. "]) + e
    n = rng.choice(LONG_LENS + [rng.randint(4098, 9000), rng.randint(4098, 20000)])
    b = bytearray((fill * (n // len(fill) + 1))[:n])
    offs = [4096 * k + d for k in range(n // 4096 + 1) for d in (0, 1, 4095)]
    chosen = rng.sample(offs, min(len(offs), rng.randint(1, 3))) + [rng.randrange(n) for _ in range(rng.randint(0, 2))]
    for o in chosen:
        piece = rng.choice(DOT_PIECES)
        if o + len(piece) <= n:
            b[o:o + len(piece)] = piece
    return bytes(b) + e


def gen_long_body(rng, force=None):
    lines = [b"From: a@example.com\r\n", b"To: b@example.com\r\n", b"\r\n"]
    if rng.random() < 0.5:
        lines.append(b"short line\r\n")
    kinds = [force] if force else []
    kinds += [rng.choice([None, None, "dot_at_boundary", "dotdot_at_boundary"]) for _ in range(rng.randint(0, 2))]
    for k in kinds:
        lines.append(long_line(rng, k))
        for _ in range(rng.choice([0, 1, 2])):
            lines.append(rng.choice(LOOKALIKES).encode() + b"\r\n")
    lines.append(rng.choice([b"after\r\n", b".\r\n", b"end\n"]))
    return lines


LONG_CONFIGS = [(100000, 1), (100000, 3)]


def run_long_probes(chk, extra, stats):
    """sessions whose bodies have physical lines longer than the 4096-octet reader buffer,
    with ".", "..", ".x" exactly at multiples of 4096 from the line start (and nearby, and at
    random offsets), followed by LMTP look-alikes; judged by stream_ok and delivered_ok"""
    rng = chk.rng
    cases = []
    plan = ["dot_at_boundary", "dotdot_at_boundary", "dot_at_boundary", None] + [rng.choice([None, "dot_at_boundary", "dotdot_at_boundary"]) for _ in range(extra)]
    for i, force in enumerate(plan):
        ms, mr = rng.choice(LONG_CONFIGS)
        n = rng.randint(1, mr)
        rc = ["ll%dr%d@example.com" % (i, k) for k in range(n)]
        body = gen_long_body(rng, force)
        out = [b"LHLO long.example\r\n", b"MAIL FROM:<a@example.com>\r\n"] + [("RCPT TO:<%s>\r\n" % r).encode() for r in rc]
        out += [b"DATA\r\n"] + stuff(body) + [b".\r\n", b"NOOP\r\n", b"QUIT\r\n"]
        c = mk_case(b"".join(out), ms, mr, rng.choice([1, 0, 7]) if size_of(body) < 9000 else 0, {"flavour": "long", "kind": force or "random"})
        c["txs"] = [(rc, body)]
        c["observe"] = rc
        cases.append(c)
    return run_probe_sessions(chk, cases, stats, "long_line_probe",
                              "a body line longer than the reader's buffer is not treated as one line of data")


# ---- a client that waits for its replies
def gen_lockstep(rng, idx, mr):
    """the client's WRITES: after each it waits for the replies it is owed before sending
    more.  Blank / whitespace-only lines follow commands and the terminating dot inside the
    same write."""
    def blank(p=0.6):
        return rng.choice([b"\r\n", b" \r\n", b"\t\r\n", b"\n", b"\r\n\r\n"]) if rng.random() < p else b""
    segs = [b"LHLO wait.example\r\n" + blank()]
    for t in range(rng.choice([1, 2])):
        n = rng.randint(1, mr)
        rc = [("RCPT TO:<ls%dt%dr%d@example.com>\r\n" % (idx, t, k)).encode() for k in range(n)]
        body = [b"From: a@example.com\r\n", b"To: b@example.com\r\n", b"\r\n", ("wait %d.%d\r\n" % (idx, t)).encode()]
        style = rng.choice(["lock", "group", "pipelined"])
        if style == "lock":
            segs.append(b"MAIL FROM:<a@example.com>\r\n" + blank())
            segs += [r + blank(0.4) for r in rc]
            segs.append(b"DATA\r\n")
            segs.append(b"".join(stuff(body)) + b".\r\n" + blank(0.9))
            segs.append(b"NOOP\r\n" + blank(0.9))
        elif style == "group":
            segs.append(b"MAIL FROM:<a@example.com>\r\n" + b"".join(rc) + b"DATA\r\n")
            segs.append(b"".join(stuff(body)) + b".\r\n" + blank(0.9))
            segs.append(b"NOOP\r\n" + blank(0.9) + b"RSET\r\n" + blank(0.5))
        else:
            segs.append(b"MAIL FROM:<a@example.com>\r\n" + blank(0.3) + b"".join(rc) + b"DATA\r\n" + b"".join(stuff(body)) + b".\r\n" + blank(0.9))
            segs.append(b"NOOP\r\n")
    if rng.random() < 0.7:
        segs.append(b"QUIT\r\n")
    return segs


def gen_dot_program(rng, idx, mr):
    """clean session: LHLO, 1..2 transactions with 1..mr fresh recipients each and a
    dot-probe body, NOOP after each terminator, QUIT.  Returns (bytes, txs) with
    txs = [(recipients, body_lines)]"""
    out = [b"LHLO dots.example\r\n"]
    txs = []
    for t in range(rng.choice([1, 1, 2])):
        n = rng.randint(1, mr)
        rc = ["dp%dt%dr%d@example.com" % (idx, t, k) for k in range(n)]
        body = gen_dot_body(rng)
        out.append(b"MAIL FROM:<a@example.com>\r\n")
        out += [("RCPT TO:<%s>\r\n" % r).encode() for r in rc]
        out.append(b"DATA\r\n")
        out += stuff(body)
        out.append(rng.choice([b".\r\n", b".\r\n", b".\n"]))
        out.append(b"NOOP\r\n")
        txs.append((rc, body))
    out.append(b"QUIT\r\n")
    return b"".join(out), txs



def rand_bytes_line(rng):
    n = rng.randint(1, 12)
    return bytes(rng.choice([c for c in range(256) if c not in (10, 58)]) for _ in range(n))


def eol(rng, p_lf=0.12):
    return b"\n" if rng.random() < p_lf else b"\r\n"


def gen_body(rng, kind):
    """list of complete lines (bytes, each ending in LF) of one message"""
    if kind == "ok":
        hdr = rng.choice(HDR_OK)
    elif kind == "bad":
        hdr = rng.choice(HDR_BAD)
    else:
        hdr = rng.choice(HDR_OK + HDR_BAD)
    lines = [h.encode() + b"\r\n" for h in hdr] + [b"\r\n"]
    for _ in range(rng.randint(0, 6)):
        r = rng.random()
        if r < 0.15:
            l = rand_bytes_line(rng)
        else:
            l = rng.choice(BODY_LINES).encode("latin-1")
        lines.append(l + eol(rng))
    return lines


def stuff(lines):
    return [(b"." + l) if l.startswith(b".") else l for l in lines]


def size_of(lines):
    return sum(len(l) for l in lines)


def pad_body(rng, lines, target_over):
    """append filler lines until the body is larger than target_over"""
    lines = list(lines)
    while size_of(lines) <= target_over:
        lines.append(rng.choice([b"x" * 40, b"RSET", b"NOOP", b"filler filler filler", b".", b"MAIL FROM:<o@example.com>"]) + b"\r\n")
    # something after the crossing line, so that a reader that stops early is visible
    lines.append(rng.choice([b"RSET", b"NOOP", b"after the limit", b".."]) + b"\r\n")
    return lines


MAIL_OK = ["MAIL FROM:<a@example.com>", "mail from:<a@example.com>", "MAIL From:<a@example.com>",
           "MAIL FROM:<a@example.com> SIZE=123 BODY=8BITMIME", "MAIL FROM: <a@example.com>",
           "Mail FROM:a@example.com", "MAIL  FROM:<a@example.com>", "MAIL FROM:from:<a@example.com>"]
MAIL_BAD = ["MAIL", "MAIL TO:<a@example.com>", "MAIL FRO:<a@example.com>", "MAILFROM:<a@example.com>"]
MISC = ["NOOP", "noop", "RSET", "rset", "VRFY u1", "HELP", "FOO bar", "", "  ", "EHLO x", "HELO x", "NOOP extra args",
        "LHLO second.example", "\tNOOP", "RSET now"]


def rcpt_line(rng, user):
    f = rng.choice(["RCPT TO:<%s>", "rcpt to:<%s>", "RCPT TO: <%s>", "RCPT TO:%s", "Rcpt To:<%s>",
                    "RCPT TO:<%s>", "RCPT TO:<%s>", "RCPT TO:<%s> NOTIFY=NEVER"])
    return f % user


def gen_program(rng, ms, mr, flavour):
    """one client byte stream; returns (bytes, info)"""
    out = []
    info = {"tx": 0, "oversize": 0, "bad": 0, "null": 0, "malformed": flavour == "malformed"}

    def cmd(s):
        out.append(s.encode("latin-1") + (b"\n" if rng.random() < 0.05 else b"\r\n"))

    r = rng.random()
    if r < 0.85:
        cmd(rng.choice(["LHLO client.example", "lhlo x", "LHLO x", " LHLO x ", "Lhlo [127.0.0.1]"]))
    elif r < 0.92:
        cmd("LHLO")  # 501, session stays without helo
    ntx = rng.randint(1, 3)
    for _ in range(ntx):
        if rng.random() < 0.3:
            cmd(rng.choice(MISC))
        # MAIL
        r = rng.random()
        if flavour == "null" and info["null"] == 0:
            cmd(rng.choice(["MAIL FROM:<>", "MAIL FROM:", "mail from:<> SIZE=1"]))
            info["null"] += 1
        elif r < 0.88:
            cmd(rng.choice(MAIL_OK))
        elif r < 0.95:
            cmd(rng.choice(MAIL_BAD))
        if rng.random() < 0.12:
            cmd(rng.choice(MAIL_OK))  # repeated MAIL
        if rng.random() < 0.08:
            cmd("RSET")
            cmd(rng.choice(MAIL_OK))
        # RCPT
        k = rng.choice([0, 1, 1, 2, 2, 3, mr, mr + 1, mr + 2]) if rng.random() < 0.5 else rng.randint(1, mr)
        for _ in range(k):
            if rng.random() < 0.06:
                cmd(rng.choice(["RCPT", "RCPT FROM:<u1@example.com>", "RCPT T:<u1@example.com>"]))
            cmd(rcpt_line(rng, rng.choice(USERS)))
            if rng.random() < 0.05:
                cmd(rng.choice(MISC))
        # DATA
        r = rng.random()
        if r < 0.06:
            continue  # transaction abandoned
        cmd(rng.choice(["DATA", "DATA", "data", "DATA ignored args", "Data"]))
        kind = "ok"
        if flavour == "bad" and rng.random() < 0.7:
            kind = "bad"
        body = gen_body(rng, kind)
        if flavour == "oversize" and rng.random() < 0.7:
            body = pad_body(rng, body, ms)
        if size_of(body) > ms:
            info["oversize"] += 1
        elif kind == "bad":
            info["bad"] += 1
        sb = stuff(body)
        if flavour == "malformed" and rng.random() < 0.4:
            sb = list(body)  # client forgot to stuff
        out.extend(sb)
        if flavour == "malformed" and rng.random() < 0.25:
            break  # no terminator: the rest of the stream is data
        out.append(rng.choice([b".\r\n", b".\r\n", b".\r\n", b".\n"]))
        info["tx"] += 1
        if rng.random() < 0.25:
            cmd(rng.choice(MISC))
    r = rng.random()
    if r < 0.7:
        cmd(rng.choice(["QUIT", "quit", "QUIT now"]))
        if rng.random() < 0.4:
            cmd("NOOP")
            if rng.random() < 0.5:
                out.append(b"partial")
    elif r < 0.85:
        out.append(rng.choice([b"NOOP", b"QUIT", b"RSET\r", b"x"]))  # unterminated last line
    data = b"".join(out)
    if flavour == "malformed" and rng.random() < 0.3 and len(data) > 4:
        data = data[:rng.randint(1, len(data) - 1)]
    return data, info


def gen_reader_cases(rng, n):
    """(b_lines, term, rest, max, stream) ; raw cases have term == b'' """
    cases = []
    for i in range(n):
        mx = rng.choice([0, 5, 20, 60, 200])
        r = rng.random()
        if i % 25 == 3:
            # long physical lines (> 4096 octets) with dots at the buffer boundaries
            b = gen_long_body(rng, rng.choice(["dot_at_boundary", "dotdot_at_boundary", None]))
            term = rng.choice([b".\r\n", b".\n"])
            rest = rng.choice([b"NOOP\r\n", b"MAIL FROM:<n@example.com>\r\n", b""])
            cases.append((b, term, rest, 100000, b"".join(stuff(b)) + term + rest))
        elif i % 5 == 0:
            # dot probe: a body of dot lines and LMTP look-alikes that fits the limit
            b = gen_dot_body(rng)
            term = rng.choice([b".\r\n", b".\n"])
            rest = rng.choice([b"NOOP\r\n", b"QUIT\r\nrest", b"MAIL FROM:<n@example.com>\r\n"])
            cases.append((b, term, rest, 2000, b"".join(stuff(b)) + term + rest))
        elif r < 0.75:
            nl = rng.randint(0, 7)
            b = []
            for _ in range(nl):
                q = rng.random()
                if q < 0.2:
                    l = rand_bytes_line(rng)
                elif q < 0.3:
                    l = b"." * rng.randint(1, 4)
                elif q < 0.4:
                    l = b"x" * rng.choice([mx, max(mx - 2, 0), mx + 1, 3])
                else:
                    l = rng.choice(BODY_LINES).encode("latin-1")
                b.append(l + eol(rng, 0.25))
            term = rng.choice([b".\r\n", b".\n"])
            rest = rng.choice([b"", b"NOOP\r\n", b"QUIT\r\nrest", b".\r\n", b"partial", b"\r\n.\r\nRSET\r\n"])
            stream = b"".join(stuff(b)) + term + rest
            cases.append((b, term, rest, mx, stream))
        else:
            k = rng.randint(0, 6)
            s = b""
            for _ in range(k):
                s += rng.choice([b".", b"..", b".\r", b"a", b"", b". ", b"\r", b"..\r\n.", b"xyz"]) + rng.choice([b"\r\n", b"\n", b"", b"\r"])
            cases.append(([], b"", s, mx, s))
    return cases


def parse_args_cases(rng, n):
    atoms = ["FROM:", "from:", "From:", "TO:", "to:", "To:", "<", ">", " ", "a@example.com", "u1@example.com", "SIZE=10",
             "\t", "<>", "", "x", "FROM", ":", "<<", ">>", "NOTIFY=NEVER"]
    out = []
    for _ in range(n):
        out.append("".join(rng.choice(atoms) for _ in range(rng.randint(0, 6))))
    out += ["FROM:<a@example.com>", "TO:<u1@example.com>", " FROM:<a@example.com> ", "FROM:from:<a>", "to:TO:<a>", "FROM:<a b>", "TO:< a >", "FROM:<>"]
    return out


# ----------------------------------------------------------------------------
# implementation side

def parse_replies(out):
    """reply stream -> (greeting_ok, [(code, text)], wellformed)"""
    lines = out.split(b"\r\n")
    ok = True
    if lines and lines[-1] == b"":
        lines = lines[:-1]
    else:
        ok = False
    reps = []
    for l in lines:
        if len(l) < 4 or not l[:3].isdigit() or l[3:4] not in (b" ", b"-"):
            ok = False
            continue
        if l[3:4] == b"-":
            continue
        reps.append((int(l[:3]), l[4:]))
    greet = bool(reps) and reps[0][0] == 220
    return greet, reps[1:] if greet else reps, ok


def run_sessions(cases):
    """cases: list of dict(input, ms, mr, chunk); fills out/returned/unread"""
    groups = {}
    for i, c in enumerate(cases):
        groups.setdefault((c["ms"], c["mr"]), []).append(i)
    scen = []
    keys = []
    for (ms, mr), idxs in groups.items():
        for k in range(0, len(idxs), 80):
            part = idxs[k:k + 80]
            keys.append(part)
            scen.append([{"op": "lmtp_script", "max_size": ms, "max_recipients": mr,
                          "programs": [dict({"input": C.latin(cases[i]["input"]), "chunk": cases[i]["chunk"]},
                                            **({"observe": cases[i]["observe"]} if cases[i].get("observe") else {}),
                                            **({"segments": [C.latin(x) for x in cases[i]["segments"]]} if cases[i].get("segments") else {})) for i in part]}])
    res = C.run_many(scen, workers=8, timeout=900)
    for part, r in zip(keys, res):
        if r.get("crashed") or not r["obs"] or "rs" not in r["obs"][0]:
            for i in part:
                cases[i]["crash"] = r.get("stderr", "") or str(r.get("obs"))
            continue
        for i, o in zip(part, r["obs"][0]["rs"]):
            cases[i]["out"] = C.unlatin(o.get("out", ""))
            cases[i]["returned"] = o.get("returned")
            cases[i]["unread"] = o.get("unread")
            cases[i]["panic"] = o.get("panic")
            cases[i]["stored"] = o.get("stored")
            cases[i]["snaps"] = o.get("snaps")


COQ_HDR = C.COQ_CASE_HEADER + """From Raven Require Import Base.Enum Model.Lmtp Model.LmtpMsg Spec.LmtpDialog Spec.LmtpStream.
Local Open Scope list_scope.
Local Open Scope Z_scope.
Definition b2n (b : bool) (n : N) : N := if b then n else 0%N.
Definition rpt (n : N) (p : str) : str := N.iter n (fun acc => p ++ acc) [].
Arguments rpt n%N p.
"""

COQ_SESSION = """
Definition chk_s (x : Z * Z * str * list reply * option N) : N :=
  let '(ms, mr, input, reps, unread) := x in
  let c := {| max_size := ms; max_rcpts := mr |} in
  let '(evs, rest) := session (msg_ok ms) (fun _ _ => true) (fun _ _ => false) c input in
  let m := evs_match evs reps &&
           match unread with Some n => N.eqb n (N.of_nat (length rest)) | None => true end in
  let sp := stream_ok mr (fst (split_lines input)) reps in
  (b2n m 1 + b2n sp 2)%N.
"""

COQ_READER = """
Definition chk_r (x : list str * str * str * Z * str * (bool * str * str)) : N :=
  let '(b, term, rest, max, stream, (ierr, idata, irest)) := x in
  let structured := is_term term in
  let gen_ok := str_eqb stream (concat (stuff b) ++ term ++ rest) in
  let '(r, mrest) := read_data_cmd stream max in
  let m := match r with
           | DOk d => negb ierr && str_eqb d idata && str_eqb mrest irest
           | _ => ierr && str_eqb mrest irest
           end in
  let fits := len (concat b) <=? max in
  let sp := if structured
            then (if fits then negb ierr && str_eqb idata (concat b) && str_eqb irest rest
                  else ierr && str_eqb irest rest)
            else true in
  (b2n m 1 + b2n sp 2 + b2n (structured && negb fits) 8 + b2n (negb gen_ok) 32)%N.
"""


COQ_DOTS = """
Definition chk_d (x : Z * Z * str * list reply * option N * list (list (list str) * list (Z * str)) * list str) : N :=
  let '(ms, mr, input, reps, unread, deliv, full) := x in
  let c := {| max_size := ms; max_rcpts := mr |} in
  (* the over-quota set is an explicit input of the model: the addresses in [full] *)
  let '(evs, rest) := session (msg_ok ms) (fun _ _ => true) (fun r _ => existsb (str_eqb r) full) c input in
  let m := evs_match evs reps &&
           match unread with Some n => N.eqb n (N.of_nat (length rest)) | None => true end in
  let sp := stream_ok mr (fst (split_lines input)) reps in
  let oct := forallb (fun '(e, o) => delivered_ok e o) deliv in
  (b2n m 1 + b2n sp 2 + b2n oct 4)%N.
"""


def eval_dots(chk, cases):
    """codes (m + 2*stream_ok + 4*delivered_ok) for the dot-probe sessions"""
    items = []
    for c in cases:
        unread = "(Some %d%%N)" % c["unread"] if c["chunk"] == 1 and c.get("unread") is not None else "None"
        # final reply of recipient k of transaction t, by position in the clean dialogue;
        # per address: the bodies it was told (250) it received, in order, against what its
        # store gained during this session
        pos = 1
        expected = {}
        for rc, body in c["txs"]:
            n = len(rc)
            first_final = pos + 1 + n + 1
            for k, r in enumerate(rc):
                code = c["reps"][first_final + k][0] if first_final + k < len(c["reps"]) else None
                expected.setdefault(r, [])
                if code == 250:
                    expected[r].append(body)
            pos = first_final + n + 1
        deliv = []
        for r, exp in expected.items():
            obs = (c.get("stored") or {}).get(r)
            before = (c.get("prev") or {}).get(r, 0)
            if not isinstance(obs, list) or len(obs) < before:
                obs = [[-1, ""]]
            else:
                obs = obs[before:]
            obs_c = "[" + "; ".join("(%d, %s)" % (o[0] if len(o) == 2 else -2, cb(C.unlatin(o[1]))) for o in obs) + "]"
            exp_c = "[" + "; ".join("[" + "; ".join(cb(l) for l in b) + "]" for b in exp) + "]"
            deliv.append("(%s, %s)" % (exp_c, obs_c))
        items.append("(%d, %d, %s, %s, %s, %s, %s)" % (c["ms"], c["mr"], cb(c["input"]),
                                                        "[" + "; ".join(coq_reply(r) for r in c["reps"]) + "]", unread,
                                                        "[" + "; ".join(deliv) + "]",
                                                        "[" + "; ".join(cb(a) for a in c.get("full", [])) + "]"))
    body = COQ_HDR + COQ_DOTS
    body += "Definition cases_d : list (Z * Z * str * list reply * option N * list (list (list str) * list (Z * str)) * list str) :=\n" + clist(items) + ".\n"
    body += "Definition res_d := Eval vm_compute in map chk_d cases_d.\nPrint res_d.\n"
    rc, log = C.coq_eval_cases(getattr(chk, "case_name", "C16"), body)
    if rc != 0:
        chk.broken_obligation("in-Coq evaluation of the C16 dot-probe cases failed:\n" + log[-2500:])
        return None
    r = parse_codes(log, "res_d")
    if r is None or len(r) != len(cases):
        chk.broken_obligation("could not read res_d from the Coq output:\n" + log[-1500:])
        return None
    return r


def run_dot_probes(chk, n, stats):
    """sessions whose bodies contain, before the real terminator, lines that are exactly
    dots (sent stuffed) and LMTP look-alikes, with 1..max recipients; judged by the
    executable spec: replies in step (stream_ok) and stored octets = submitted body
    (delivered_ok)"""
    rng = chk.rng
    cases = []
    for i in range(n):
        ms, mr = rng.choice(DOT_CONFIGS)
        inp, txs = gen_dot_program(rng, i, mr)
        c = mk_case(inp, ms, mr, rng.choice([1, 0, 7]), {"flavour": "dots"})
        c["txs"] = txs
        c["observe"] = [r for rc, _ in txs for r in rc]
        cases.append(c)
    return run_probe_sessions(chk, cases, stats, "dot_probe",
                              "a body line that is exactly dots (sent dot-stuffed) or an LMTP look-alike inside the message is not treated as data")


def run_refusal_probes(chk, extra, stats):
    """sessions whose FIRST message is refused after DATA (header-less, malformed header
    line, no From, no To/Cc/Bcc, over size) and carries an LMTP verb in the offending
    line / first line / body, always followed by pipelined commands and a second, complete
    transaction on the same connection; judged by stream_ok (one reply per recipient, then
    every later command answered, state reset) and delivered_ok for the second message"""
    rng = chk.rng
    cases = []
    plan = [(v, up, k) for v in VERBS for up in (True, False) for k in ("first_line", "malformed_line")]
    plan += [(rng.choice(VERBS), True, k) for k in REFUSAL_KINDS]
    plan += [(rng.choice(VERBS), rng.random() < 0.7, rng.choice(REFUSAL_KINDS)) for _ in range(extra)]
    for i, (verb, up, kind) in enumerate(plan):
        ms, mr = rng.choice(REFUSAL_CONFIGS)
        inp, txs = gen_refusal_program(rng, i, ms, mr, verb, up, kind)
        c = mk_case(inp, ms, mr, rng.choice([1, 0, 7]), {"flavour": "refusal", "kind": kind, "verb": verb})
        c["txs"] = txs
        c["observe"] = [r for rc, _ in txs for r in rc]
        cases.append(c)
    return run_probe_sessions(chk, cases, stats, "refusal_probe",
                              "a message refused after DATA does not leave the session in step and ready for the next transaction")


QUOTA_CFG = {"max_size": 4000, "max_recipients": 5, "quota_enabled": True, "quota_limit": 1840}
QUOTA_FULL = ["qf0@example.com", "qf1@example.com", "qf2@example.com"]
# o<k> = k-th fresh (within quota) address of the session, f<j> = j-th full mailbox;
# over-quota recipients first / middle / last / all / none / the same address twice
QUOTA_PATTERNS = ["o0 f0", "f0 o0", "o0 f0 o1", "f0 o0 o1", "o0 o1 f0", "f0 f1 f2", "o0 o1 o2", "o0 f0 o1 f1 o2",
                  "o0 o0", "f0 f0", "o0 f0 o0", "f0 o0 f0", "o0 o1 f1 f0 o2", "f1 o0 f1 o0", "o0 f2"]


def quota_runner(cases):
    """all quota sessions in ONE driver process (one data directory), in order: the first
    session fills the mailboxes of QUOTA_FULL, so that they are over quota for every later
    message while fresh addresses never are"""
    ops = [dict({"op": "lmtp_script", "programs": [{"input": C.latin(c["input"]), "chunk": c["chunk"], "observe": c["observe"]} for c in cases]},
                **QUOTA_CFG)]
    r = C.run_ops(ops, timeout=900)
    if r.get("crashed") or not r["obs"] or "rs" not in r["obs"][0]:
        for c in cases:
            c["crash"] = r.get("stderr", "") or str(r.get("obs"))
        return
    seen = {}
    for c, o in zip(cases, r["obs"][0]["rs"]):
        c["out"] = C.unlatin(o.get("out", ""))
        c["returned"] = o.get("returned")
        c["unread"] = o.get("unread")
        c["panic"] = o.get("panic")
        c["stored"] = o.get("stored")
        c["prev"] = {a: seen.get(a, 0) for a in c["observe"]}
        for a in c["observe"]:
            st = (c["stored"] or {}).get(a)
            if isinstance(st, list):
                seen[a] = len(st)


def run_quota_probes(chk, extra, stats):
    """delivery.quota_enabled: transactions with 2..5 recipients of which some are over
    quota (first, middle, last, all, none, the same address twice), pipelined with a following
    transaction.  Judged in Coq: exactly one final reply per accepted RCPT in RCPT order - the
    k-th reply names the k-th recipient - and positive iff that recipient's store gained the
    message (stream_ok, delivered_ok on the store delta); the model gets the over-quota set
    as an explicit input"""
    rng = chk.rng
    ms, mr = QUOTA_CFG["max_size"], QUOTA_CFG["max_recipients"]
    # two messages of < 1 KB each (so that their text stays in the row): together they fill
    # the mailbox up to 20 bytes below the quota limit; every probe message is larger than that
    fill = [b"From: a@example.com\r\n", b"To: b@example.com\r\n", b"\r\n"] + [b"fill " * 12 + b"\r\n"] * 14
    pre = [b"LHLO quota.example\r\n"]
    for _ in range(2):
        pre += [b"MAIL FROM:<a@example.com>\r\n"] + [("RCPT TO:<%s>\r\n" % a).encode() for a in QUOTA_FULL]
        pre += [b"DATA\r\n"] + fill + [b".\r\n", b"NOOP\r\n"]
    pre += [b"QUIT\r\n"]
    assert 2 * size_of(fill) + 20 == QUOTA_CFG["quota_limit"], size_of(fill)
    c0 = mk_case(b"".join(pre), ms, mr, 0, {"flavour": "quota-prefill"})
    c0["txs"] = [(list(QUOTA_FULL), fill), (list(QUOTA_FULL), fill)]
    c0["observe"] = list(QUOTA_FULL)
    c0["full"] = []
    cases = [c0]
    pats = list(QUOTA_PATTERNS) + [" ".join(rng.choice(["o0", "o1", "o2", "f0", "f1", "f2"]) for _ in range(rng.randint(2, 5))) for _ in range(extra)]
    for i, pat in enumerate(pats):
        out = [b"LHLO quota.example\r\n"]
        txs = []
        for t, p in enumerate([pat, rng.choice(QUOTA_PATTERNS)]):
            rc = [QUOTA_FULL[int(x[1:])] if x[0] == "f" else "qo%dt%du%s@example.com" % (i, t, x[1:]) for x in p.split()]
            body = gen_dot_body(rng) if rng.random() < 0.3 else [b"From: a@example.com\r\n", b"To: b@example.com\r\n", b"\r\n",
                                                                   ("message %d.%d\r\n" % (i, t)).encode()]
            out.append(b"MAIL FROM:<a@example.com>\r\n")
            out += [("RCPT TO:<%s>\r\n" % r).encode() for r in rc]
            out += [b"DATA\r\n"] + stuff(body) + [b".\r\n", b"NOOP\r\n"]
            txs.append((rc, body))
        out.append(b"QUIT\r\n")
        c = mk_case(b"".join(out), ms, mr, rng.choice([1, 0, 7]), {"flavour": "quota", "pattern": pat})
        c["txs"] = txs
        c["observe"] = sorted(set(r for rc, _ in txs for r in rc))
        c["full"] = list(QUOTA_FULL)
        c["prefill"] = c0
        cases.append(c)
    good = run_probe_sessions(chk, cases, stats, "quota_probe",
                              "with quota enabled the per-recipient replies are not one per accepted RCPT in RCPT order, each positive iff that recipient's store gained the message",
                              runner=quota_runner)
    # the harness needs the prefill to have worked: all three 250
    if good and good[0] is c0 and [r[0] for r in c0.get("reps", [])] != [250] * 5 + [354] + [250] * 8 + [354] + [250] * 4 + [221]:
        chk.broken_obligation("quota probes: the prefill session did not fill the mailboxes (replies %s)" % [r[0] for r in c0.get("reps", [])], session_payload(c0))
    return good


def run_probe_sessions(chk, cases, stats, label, headline, runner=None):
    (runner or run_sessions)(cases)
    good = []
    for c in cases:
        if "crash" in c:
            chk.broken_obligation("driver crashed while running the %s sessions: %s" % (label, c["crash"][:400]), session_payload(c))
            return []
        if c.get("panic") or not c.get("returned"):
            session_violation(chk, "lmtp.Session.Handle panicked or did not return on %r" % c["input"][:200], c)
            continue
        c["greet"], c["reps"], c["wf"] = parse_replies(c["out"])
        good.append(c)
    codes = eval_dots(chk, good)
    if codes is None:
        return good
    for c, code in zip(good, codes):
        m, sp, oct_ok = bool(code & 1), bool(code & 2), bool(code & 4)
        stats[label + "s"] = stats.get(label + "s", 0) + 1
        if sp and oct_ok:
            if not m:
                stats["disagreements"] += 1
                chk.broken_obligation("correspondence session no longer checks on a %s session (spec holds): replies %s to %r" % (
                    label, [r[0] for r in c["reps"]], c["input"][:200]), session_payload(c))
            continue
        stats[label + "_violations"] = stats.get(label + "_violations", 0) + 1
        if stats[label + "_violations"] > 3:
            continue
        payload = session_payload(c)
        payload["stored"] = c.get("stored")
        payload["submitted_bodies"] = [[rc, C.latin(b"".join(body))] for rc, body in c["txs"]]
        if not sp:
            what = (headline + ": replies %s to the stream %r are out of step (not one reply per recipient after the real terminator, "
                    "message lines acted on as commands, or later commands unanswered)" % ([r[0] for r in c["reps"]], c["input"][:300]))
        else:
            what = ("message data not passed through exactly / a positive reply without the message in that recipient's store (or the reverse): "
                    "what the stores gained differs from the submitted bodies the replies reported as delivered "
                    "(stream %r, stored %r)" % (c["input"][:300], c.get("stored")))
        session_violation(chk, what, c, payload)
    return good


COQ_LOCK = """
Definition chk_l (x : Z * Z * list (str * list reply) * str * list reply) : N :=
  let '(ms, mr, prefixes, input, reps) := x in
  let c := {| max_size := ms; max_rcpts := mr |} in
  let acc := msg_ok ms in
  let dl : str -> str -> bool := fun _ _ => true in
  let ov : str -> str -> bool := fun _ _ => false in
  (* while the connection is open: the replies that had reached the client when the
     server asked for more input, against the model (run_open) and against the spec *)
  let m_open := forallb (fun '(p, rs) => evs_match (run_open acc dl ov c st0 MCmd (fst (split_lines p))) rs) prefixes in
  let sp_open := forallb (fun '(p, rs) => stream_ok mr (fst (split_lines p)) rs) prefixes in
  let '(evs, _) := session acc dl ov c input in
  (b2n (m_open && evs_match evs reps) 1 + b2n (sp_open && stream_ok mr (fst (split_lines input)) reps) 2)%N.
"""


def run_lockstep_probes(chk, n, stats):
    """a client that, after each of its writes, waits for the replies it is owed before it
    sends more (blank lines after commands and after the terminating dot inside the same
    write).  Observed: what had reached the client each time the server asked for more input.
    Judged in Coq: at each of these moments the replies owed for the bytes sent so far are all
    there (stream_ok on the prefix; the model's run_open on the prefix)"""
    rng = chk.rng
    cases = []
    for i in range(n):
        mr = rng.choice([1, 3])
        segs = gen_lockstep(rng, i, mr)
        c = mk_case(b"".join(segs), 2000, mr, rng.choice([0, 1, 7]), {"flavour": "lockstep"})
        c["segments"] = segs
        cases.append(c)
    run_sessions(cases)
    good = []
    for c in cases:
        if "crash" in c:
            chk.broken_obligation("driver crashed while running the lock-step sessions: %s" % c["crash"][:400], session_payload(c))
            return []
        if c.get("panic") or not c.get("returned"):
            session_violation(chk, "lmtp.Session.Handle panicked or did not return on %r" % c["input"][:200], c)
            continue
        c["greet"], c["reps"], c["wf"] = parse_replies(c["out"])
        c["prefixes"] = []
        for k, sn in enumerate(c.get("snaps") or []):
            _, rp, _ = parse_replies(c["out"][:sn])
            c["prefixes"].append((b"".join(c["segments"][:k + 1]), rp))
        good.append(c)
    items = []
    for c in good:
        pre = "[" + "; ".join("(%s, %s)" % (cb(p), "[" + "; ".join(coq_reply(r) for r in rp) + "]") for p, rp in c["prefixes"]) + "]"
        items.append("(%d, %d, %s, %s, %s)" % (c["ms"], c["mr"], pre, cb(c["input"]), "[" + "; ".join(coq_reply(r) for r in c["reps"]) + "]"))
    body = COQ_HDR + COQ_LOCK + "Definition cases_l : list (Z * Z * list (str * list reply) * str * list reply) :=\n" + clist(items) + ".\n"
    body += "Definition res_l := Eval vm_compute in map chk_l cases_l.\nPrint res_l.\n"
    rc, log = C.coq_eval_cases(getattr(chk, "case_name", "C16"), body)
    codes = parse_codes(log, "res_l") if rc == 0 else None
    if codes is None or len(codes) != len(good):
        chk.broken_obligation("in-Coq evaluation of the C16 lock-step cases failed:\n" + log[-2500:])
        return good
    for c, code in zip(good, codes):
        m, sp = bool(code & 1), bool(code & 2)
        if sp:
            if not m:
                stats["disagreements"] += 1
                chk.broken_obligation("correspondence session no longer checks on a lock-step session (spec holds): writes %r, visible replies %s" % (
                    c["segments"], [[r[0] for r in rp] for _, rp in c["prefixes"]]), session_payload(c))
            continue
        stats["lockstep_violations"] = stats.get("lockstep_violations", 0) + 1
        if stats["lockstep_violations"] > 3:
            continue
        payload = session_payload(c)
        payload["segments"] = [C.latin(x) for x in c["segments"]]
        payload["visible_reply_codes_when_server_waited"] = [[r[0] for r in rp] for _, rp in c["prefixes"]]
        session_violation(chk, "replies owed are not sent: after the client's writes %r the server waited for more input while the client had received only %s "
                               "(each list: reply codes visible after that write; the client waits for its replies before sending more, so both sides block)" % (
                                   c["segments"][:6], payload["visible_reply_codes_when_server_waited"][:6]), c, payload)
    return good


def coq_reply(rp):
    return "(%d%%N, %s)" % (rp[0], cb(rp[1]))


def eval_sessions(chk, cases):
    codes = []
    for k in range(0, len(cases), 400):
        part = cases[k:k + 400]
        items = []
        for c in part:
            unread = "None"
            if c["chunk"] == 1 and c.get("unread") is not None:
                unread = "(Some %d%%N)" % c["unread"]
            items.append("(%d, %d, %s, %s, %s)" % (c["ms"], c["mr"], cb(c["input"]),
                                                  "[" + "; ".join(coq_reply(r) for r in c["reps"]) + "]", unread))
        body = COQ_HDR + COQ_SESSION + "Definition cases_s : list (Z * Z * str * list reply * option N) :=\n" + clist(items) + ".\n"
        body += "Definition res_s := Eval vm_compute in map chk_s cases_s.\nPrint res_s.\n"
        rc, log = C.coq_eval_cases(getattr(chk, "case_name", "C16"), body)
        if rc != 0:
            chk.broken_obligation("in-Coq evaluation of the C16 session cases failed:\n" + log[-2500:])
            return None
        r = parse_codes(log, "res_s")
        if r is None or len(r) != len(part):
            chk.broken_obligation("could not read res_s from the Coq output:\n" + log[-1500:])
            return None
        codes += r
    return codes


def session_payload(c):
    return {"suite": "session", "max_size": c["ms"], "max_recipients": c["mr"], "chunk": c["chunk"],
            "input": C.latin(c["input"]), "replies": [[a, C.latin(b)] for a, b in c.get("reps", [])],
            "observe": c.get("observe") or [],
            **({"quota_cfg": QUOTA_CFG, "prefill_input": C.latin(c["prefill"]["input"]), "prefill_observe": c["prefill"]["observe"],
                "over_quota_set": c.get("full")} if c.get("prefill") is not None else {})}


def mk_case(inp, ms, mr, chunk, info=None, corpus=None):
    return {"input": inp, "ms": ms, "mr": mr, "chunk": chunk, "info": info or {}, "corpus": corpus}


def session_violation(chk, what, c, payload=None):
    """Report a violation observed on a session only if the implementation shows it again
    when the same stream is served to a fresh driver process (the behaviour under test is a
    function of the byte stream; anything that does not repeat - a stall under machine load,
    a tree that was being updated during the build - is recorded as a note, not raised)."""
    again = mk_case(c["input"], c["ms"], c["mr"], c["chunk"])
    again["observe"] = c.get("observe")
    again["segments"] = c.get("segments")
    try:
        if c.get("prefill") is not None:
            # quota session: same configuration, mailboxes filled again first
            p0 = c["prefill"]
            pre = mk_case(p0["input"], p0["ms"], p0["mr"], p0["chunk"])
            pre["observe"] = p0["observe"]
            quota_runner([pre, again])
            c_cmp = dict(c)
            # stores of the full mailboxes: compare what this session added
            for x, k in ((again, "stored"), (c_cmp, "stored")):
                st = x.get(k) or {}
                pv = x.get("prev") or {}
                x[k] = {a: (v[pv.get(a, 0):] if isinstance(v, list) else v) for a, v in st.items()}
            c = c_cmp
        else:
            run_sessions([again])
    except Exception as e:  # noqa: BLE001
        again["crash"] = str(e)
    same = ("crash" not in again and again.get("out") == c.get("out") and again.get("returned") == c.get("returned")
            and (not c.get("segments") or again.get("snaps") == c.get("snaps"))
            and again.get("panic") == c.get("panic") and (again.get("stored") == c.get("stored")))
    if same:
        chk.violation(what, payload or session_payload(c))
        return True
    chk.notes.append("not reproducible on a second run, not raised: " + what[:300])
    return False



class SubCheck:
    """what one probe suite needs of the Check object, so that the suites can run side by
    side: an own random stream (drawn from the check's stream before the threads start, so
    the run stays a function of the seed), own lists of violations / notes that are merged
    in a fixed order afterwards, an own name for the Coq case file"""

    def __init__(self, chk, label):
        import random
        self.rng = random.Random(chk.rng.getrandbits(64))
        self.tier = chk.tier
        self.case_name = "C16_" + label
        self.notes = []
        self.calls = []
        self.stats = {"disagreements": 0}

    def violation(self, what, payload, cls=None):
        self.calls.append(("v", what, payload))

    def broken_obligation(self, what, payload=None):
        self.calls.append(("b", what, payload))

    def merge_into(self, chk, stats):
        for kind, what, payload in self.calls:
            if kind == "v":
                chk.violation(what, payload)
            else:
                chk.broken_obligation(what, payload)
        chk.notes += self.notes
        for k, v in self.stats.items():
            stats[k] = stats.get(k, 0) + v


def load_corpus():
    out = []
    for f in sorted(glob.glob(os.path.join(C.VERIF, "corpus", "C16", "*.json"))):
        d = json.load(open(f))
        if d.get("suite") == "session":
            out.append(mk_case(C.unlatin(d["input"]), d["max_size"], d["max_recipients"], d.get("chunk", 1),
                               corpus=os.path.basename(f)))
    return out


def judge_sessions(chk, cases, codes, stats):
    for c, code in zip(cases, codes):
        m, sp = bool(code & 1), bool(code & 2)
        stats["evaluated"] += 1
        if not sp:
            stats["spec_violations_seen"] += 1
            if stats.get("reported", 0) >= 5:
                stats["unreported_violations"] = stats.get("unreported_violations", 0) + 1
                continue
            stats["reported"] = stats.get("reported", 0) + 1
            where = (" [regression scenario corpus/C16/%s]" % c["corpus"]) if c.get("corpus") else ""
            session_violation(chk, "LMTP session out of step%s: replies %s to the stream %r (max_size=%d max_recipients=%d) fail stream_ok" % (
                where, [r[0] for r in c["reps"]], c["input"][:160], c["ms"], c["mr"]), c)
        elif not m:
            stats["disagreements"] += 1
            yield c


def probe_neighbourhood(chk, c):
    """implementation != model, spec holds at this input: look nearby for an
    input on which the implementation violates the spec"""
    probes = []
    good = b"MAIL FROM:<p@example.com>\r\nRCPT TO:<u1@example.com>\r\nRCPT TO:<u2@example.com>\r\nDATA\r\nFrom: p@example.com\r\nTo: q@example.com\r\n\r\n.. probe\r\n..\r\nMAIL FROM:<mallory@example.net>\r\n...\r\nNOOP\r\n.\r\nNOOP\r\n"
    base = c["input"]
    cut = base.rfind(b"QUIT")
    stem = base if cut < 0 else base[:cut]
    if not stem.endswith(b"\n"):
        stem += b"\r\n"
    for pre in (stem, stem + b".\r\n", stem + b"RSET\r\n", b"LHLO probe\r\n" + stem):
        probes.append(mk_case(pre + good, c["ms"], c["mr"], 1))
        probes.append(mk_case(pre + good + good + b"QUIT\r\n", c["ms"], c["mr"], 0))
    run_sessions(probes)
    ok = [p for p in probes if "out" in p]
    for p in ok:
        p["greet"], p["reps"], p["wf"] = parse_replies(p["out"])
    codes = eval_sessions(chk, ok)
    if codes is None:
        return True
    for p, code in zip(ok, codes):
        if not (code & 2):
            chk.violation("LMTP session out of step (found next to a model/implementation disagreement): replies %s to %r" % (
                [r[0] for r in p["reps"]], p["input"][:200]), session_payload(p))
            return True
    return False


# ----------------------------------------------------------------------------

def _run_rest(chk, stats, quick, n_sess, n_reader, n_parse, join_probes):
    rng = chk.rng
    # ---------------- direct calls: reader, parse, verdict
    rcases = gen_reader_cases(rng, n_reader)
    pargs = parse_args_cases(rng, n_parse)
    msgs = []
    for _ in range(40 if quick else 300):
        body = gen_body(rng, rng.choice(["ok", "bad", "any"]))
        for k in range(len(body) + 1):
            msgs.append(b"".join(body[k:]))
    for v in VERBS:
        for up in (True, False):
            for k in REFUSAL_KINDS:
                msgs.append(b"".join(gen_refused_message(rng, 400, v, up, k)))
    msgs.append(b"".join(GOOD_MSG))
    msgs = sorted(set(msgs))
    ops = [
        {"op": "batch", "fn": "ReadDataCommand", "cases": [{"a": [C.latin(s)], "n": [mx]} for (_, _, _, mx, s) in rcases]},
        {"op": "batch", "fn": "parseMailFrom", "cases": [{"a": [a]} for a in pargs]},
        {"op": "batch", "fn": "parseRcptTo", "cases": [{"a": [a]} for a in pargs]},
        {"op": "batch", "fn": "msgVerdict", "cases": [{"a": [C.latin(m)], "n": [1000]} for m in msgs]},
    ]
    res = C.run_ops(ops, timeout=600)
    if res.get("crashed") or len(res["obs"]) != 4 or any("rs" not in o for o in res["obs"]):
        chk.broken_obligation("driver failed on the C16 direct-call suites: %s" % (res.get("stderr", "") or res.get("obs")))
        return
    r_reader, r_mail, r_rcpt, r_verd = [o["rs"] for o in res["obs"]]

    items = []
    for (b, term, rest, mx, s), o in zip(rcases, r_reader):
        if not isinstance(o, dict) or "panic" in o:
            chk.violation("ReadDataCommand panicked on %r" % s, {"suite": "reader", "stream": C.latin(s), "max": mx})
            return
        items.append("(%s, %s, %s, %d, %s, (%s, %s, %s))" % (
            "[" + "; ".join(cb(l) for l in b) + "]", cb(term), cb(rest), mx, cb(s),
            C.coq_bool(o["err"]), cb(C.unlatin(o.get("data", ""))), cb(C.unlatin(o.get("rest", "")))))
    body = COQ_HDR + COQ_READER
    body += "Definition cases_r : list (list str * str * str * Z * str * (bool * str * str)) :=\n" + clist(items) + ".\n"
    body += "Definition res_r := Eval vm_compute in map chk_r cases_r.\nPrint res_r.\n"
    opt = lambda o: "None" if o["err"] else "(Some %s)" % cb(C.unlatin(o["r"]))
    body += "Definition ostr_eqb (a b : option str) := match a, b with Some x, Some y => str_eqb x y | None, None => true | _, _ => false end.\n"
    body += "Definition cases_p : list (str * option str * option str) :=\n" + clist(
        ["(%s, %s, %s)" % (cb(a), opt(m), opt(r)) for a, m, r in zip(pargs, r_mail, r_rcpt)]) + ".\n"
    body += ("Definition res_p := Eval vm_compute in map (fun '(a, m, r) => (b2n (ostr_eqb (parse_mail_from a) m) 1 + b2n (ostr_eqb (parse_rcpt_to a) r) 2)%N) cases_p.\nPrint res_p.\n")
    body += "Definition cases_v : list (str * bool) :=\n" + clist(["(%s, %s)" % (cb(m), C.coq_bool(v is True)) for m, v in zip(msgs, r_verd)]) + ".\n"
    body += "Definition res_v := Eval vm_compute in map (fun '(d, v) => b2n (Bool.eqb (msg_ok 1000 d) v) 1) cases_v.\nPrint res_v.\n"
    rc, log = C.coq_eval_cases(getattr(chk, "case_name", "C16"), body)
    if rc != 0:
        chk.broken_obligation("in-Coq evaluation of the C16 direct-call cases failed:\n" + log[-2500:])
        return
    cr, cp, cv = parse_codes(log, "res_r"), parse_codes(log, "res_p"), parse_codes(log, "res_v")
    if cr is None or cp is None or cv is None or len(cr) != len(rcases) or len(cp) != len(pargs) or len(cv) != len(msgs):
        chk.broken_obligation("could not read the C16 direct-call results from the Coq output:\n" + log[-1500:])
        return
    nd = 0
    n_over = 0
    n_rv = 0
    reader_pending = []
    for (b, term, rest, mx, s), o, code in zip(rcases, r_reader, cr):
        payload = {"suite": "reader", "stream": C.latin(s), "max": mx, "impl": o}
        if code & 32:
            chk.broken_obligation("generator and Spec.stuff disagree on a body (harness defect)", payload)
            continue
        m, sp, over = bool(code & 1), bool(code & 2), bool(code & 8)
        n_over += over
        if not sp:
            what = "ReadDataCommand(max=%d) on %r: err=%s data=%r left=%r" % (mx, s[:120], o["err"], o.get("data", "")[:60], o.get("rest", "")[:60])
            n_rv += 1
            if n_rv > 5:
                continue
            if over:
                chk.violation("over-size body is not refused or not read to the terminator: " + what, payload)
            else:
                chk.violation("message data not passed through exactly / reader out of step: " + what, payload)
        elif not m:
            nd += 1
            if nd > 3:
                continue
            reader_pending.append(("correspondence reader no longer checks: ReadDataCommand differs from Model.Lmtp.read_data_cmd on %r (max=%d): %s" % (s[:120], mx, o), payload))
    for a, mo, ro, code in zip(pargs, r_mail, r_rcpt, cp):
        if code != 3:
            nd += 1
            if any(ord(ch) > 127 for ch in a):
                chk.notes.append("domain edge (non-ASCII): parse args %r" % a)
            else:
                chk.broken_obligation("correspondence parse no longer checks: parseMailFrom/parseRcptTo differ from the model on %r: %s %s" % (a, mo, ro),
                                      {"suite": "parse", "args": a, "mail": mo, "rcpt": ro})
    verdict_bad = [m for m, code in zip(msgs, cv) if code != 1]
    for mbad in verdict_bad[:3]:
        nd += 1
        chk.broken_obligation("oracle approximation Model.LmtpMsg.msg_ok differs from ParseMessage+ValidateMessage on %r" % mbad[:200],
                              {"suite": "verdict", "msg": C.latin(mbad)})

    # ---------------- sessions
    cases = load_corpus()
    ncorpus = len(cases)
    flav = ["plain"] * 9 + ["bad"] * 3 + ["oversize"] * 3 + ["malformed"] * 3 + ["null"]
    seen = set()
    while len(cases) < ncorpus + n_sess:
        ms, mr = rng.choice(CONFIGS)
        f = rng.choice(flav)
        inp, info = gen_program(rng, ms, mr, f)
        if inp in seen:
            continue
        seen.add(inp)
        info["flavour"] = f
        cases.append(mk_case(inp, ms, mr, rng.choice([1, 1, 0, 7, 4096]), info))
    run_sessions(cases)
    good = []
    for c in cases:
        if "crash" in c:
            chk.broken_obligation("driver crashed while running LMTP sessions: %s" % c["crash"][:400], session_payload(c))
            return
        if c.get("panic"):
            session_violation(chk, "lmtp.Session.Handle panicked (%s) on %r" % (c["panic"], c["input"][:200]), c)
            continue
        if not c.get("returned"):
            session_violation(chk, "lmtp.Session.Handle did not return at the end of the stream %r" % c["input"][:200], c)
            continue
        c["greet"], c["reps"], c["wf"] = parse_replies(c["out"])
        if not c["greet"] or not c["wf"]:
            session_violation(chk, "LMTP reply stream is not a greeting followed by well-formed reply lines: %r" % c.get("out", b"")[:200], c)
            continue
        good.append(c)
    codes = eval_sessions(chk, good)
    if codes is None:
        return
    pending = list(judge_sessions(chk, good, codes, stats))
    for c in pending[:3]:
        if not probe_neighbourhood(chk, c):
            chk.broken_obligation("correspondence session no longer checks: replies %s to %r differ from Model.Lmtp.session (max_size=%d max_recipients=%d) and no spec-violating input was found nearby" % (
                [r[0] for r in c["reps"]], c["input"][:200], c["ms"], c["mr"]), session_payload(c))

    # ---------------- reader mismatches: with a property-level failing input at hand they are notes
    dots, refs, quos, longs, locks = join_probes()
    real = [v for v in chk.violations if not v[2]]
    for what, payload in reader_pending:
        if real:
            chk.notes.append(what + " -- a property-level failing input was found (see the VIOLATION entries)")
        else:
            chk.broken_obligation(what, payload)

    # ---------------- evidence
    with_tx = [c for c in good if any(r[0] == 354 for r in c["reps"])]
    chk.cov["evaluations"] = len(rcases) + 2 * len(pargs) + len(msgs) + len(good) + len(dots) + len(refs) + len(quos) + len(longs) + len(locks)
    chk.cov["traces_validated_against_impl"] = len(good) + len(dots) + len(refs)
    chk.cov["distinct_nontrivial"] = len(set(c["input"] for c in with_tx)) + len(set(s for (b, t, r, mx, s) in rcases if t and b))
    chk.cov["rule"] = ("session: distinct client byte streams (seeded; LHLO/MAIL/RCPT/DATA variants in case and spacing, ESMTP parameters, RSET, repeated MAIL, "
                       "0..max+2 recipients, bodies from a menu of well-formed / From-less / header-less / unparsable messages with lines of dots, LMTP commands, "
                       "bare LF, 8-bit octets, bodies beyond max_size, unstuffed bodies, missing terminator, truncated streams, 1..3 transactions, optional QUIT and trailing input) "
                       "served whole to lmtp.Session.Handle in chunks of 1/7/4096 bytes or unchunked; non-trivial = the implementation answered 354 at least once; "
                       "reader: distinct stuffed bodies + terminator + continuation (non-trivial = non-empty body), plus raw line soup; "
                       "compared: reply codes, recipient named in each per-recipient reply, bytes left unread after QUIT (chunk=1), data and bytes left in the reader")
    chk.cov["disagreements_checked"] = nd + stats["disagreements"]
    chk.cov["sessions"] = {"total": len(good), "corpus": ncorpus, "with_354": len(with_tx),
                           "chunk1_position_checked": sum(1 for c in good if c["chunk"] == 1),
                           "oversize_bodies": sum(c["info"].get("oversize", 0) for c in good),
                           "refused_messages": sum(c["info"].get("bad", 0) for c in good),
                           "null_reverse_path": sum(c["info"].get("null", 0) for c in good),
                           "spec_violations_seen": stats["spec_violations_seen"]}
    if stats.get("unreported_violations"):
        chk.notes.append("%d further spec-violating sessions not written out (first 5 reported)" % stats["unreported_violations"])
    chk.cov["reader_cases"] = {"total": len(rcases), "structured": sum(1 for x in rcases if x[1]), "oversize": n_over}
    chk.cov["dot_probe_sessions"] = {"total": len(dots), "recipients_observed": sum(len(c["observe"]) for c in dots),
                                     "violations": stats.get("dot_probe_violations", 0),
                                     "judged_by": "stream_ok (one reply per recipient, body not dispatched) and delivered_ok (stored size and text = submitted body)"}
    chk.cov["refusal_probe_sessions"] = {"total": len(refs), "violations": stats.get("refusal_probe_violations", 0),
                                         "kinds": sorted(set(c["info"]["kind"] for c in refs)),
                                         "verbs": "each of QUIT RSET DATA MAIL-FROM: RCPT-TO: LHLO NOOP in upper and lower case as the first line of a header-less message and inside a colon-less header line; random kinds/verbs on top",
                                         "shape": "refused message with 1..max recipients, then NOOP, a second complete transaction, NOOP, QUIT",
                                         "judged_by": "stream_ok and delivered_ok (second message stored for its recipients, nothing stored for the refused one)"}
    chk.cov["quota_probe_sessions"] = {"total": len(quos), "violations": stats.get("quota_probe_violations", 0),
                                       "config": QUOTA_CFG, "full_mailboxes": QUOTA_FULL,
                                       "patterns": sorted(set(c["info"].get("pattern", "prefill") for c in quos)),
                                       "judged_by": "stream_ok (k-th final reply names the k-th accepted recipient) and delivered_ok on the store delta (positive iff the store gained the message); model run with the over-quota set as input"}
    chk.cov["long_line_probe_sessions"] = {"total": len(longs), "violations": stats.get("long_line_probe_violations", 0),
                                           "what": "body lines of 4095..20000 octets with '.', '..', '.x' at offsets 0/1/4095 mod 4096 from the line start and at random offsets, incl. 4096k octets + '.' + EOL and 4096k octets + '..'; followed by LMTP look-alikes",
                                           "judged_by": "stream_ok and delivered_ok (stored size and text, blob content included)"}
    chk.cov["lockstep_sessions"] = {"total": len(locks), "violations": stats.get("lockstep_violations", 0),
                                    "client_waits_checked": sum(len(c.get("prefixes", [])) for c in locks),
                                    "what": "client writes followed by a wait for the replies owed; blank / whitespace-only lines after commands and after the terminating dot in the same write",
                                    "judged_by": "at every moment the server asks for more input: stream_ok and run_open on the bytes sent so far against the replies that had reached the client"}
    chk.cov["parse_cases"] = len(pargs)
    chk.cov["verdict_cases"] = len(msgs)
    for c in with_tx[:3]:
        chk.sample({"max_size": c["ms"], "max_recipients": c["mr"], "input": C.latin(c["input"])[:400], "reply_codes": [r[0] for r in c["reps"]]})
    chk.notes.append("model domain: command lines are ASCII (TrimSpace/ToUpper/Fields modelled for ASCII); AllowedDomains empty, RejectUnknownUser and quota off")



def run(chk):
    rng = chk.rng
    quick = chk.tier == "quick"
    n_sess = 260 if quick else 3000
    n_reader = 500 if quick else 5000
    n_parse = 150 if quick else 1500
    stats = {"evaluated": 0, "spec_violations_seen": 0, "disagreements": 0}

    # ---------------- probe suites: started first, run side by side with the rest (each in
    # its own thread: they spend their time in driver and coqc subprocesses); their session
    # replays head the report; they are also the property-level search consulted after a
    # reader mismatch
    import threading
    C.build_driver()
    suites = [("dots", run_dot_probes, 24 if quick else 400), ("refusal", run_refusal_probes, 7 if quick else 200),
              ("quota", run_quota_probes, 5 if quick else 150), ("long", run_long_probes, 4 if quick else 80),
              ("lockstep", run_lockstep_probes, 24 if quick else 300)]
    subs, results, threads = {}, {}, []
    for label, fn, n in suites:
        subs[label] = SubCheck(chk, label)

        def work(label=label, fn=fn, n=n):
            try:
                results[label] = fn(subs[label], n, subs[label].stats)
            except Exception as e:  # noqa: BLE001
                import traceback
                results[label] = []
                subs[label].broken_obligation("probe suite %s failed to run: %s\n%s" % (label, e, traceback.format_exc()[-1500:]))
        th = threading.Thread(target=work)
        th.start()
        threads.append(th)

    state = {"joined": None}

    def join_probes():
        if state["joined"] is not None:
            return state["joined"]
        for th in threads:
            th.join()
        mine = chk.violations
        chk.violations = []
        for label, _, _ in suites:
            subs[label].merge_into(chk, stats)
        chk.violations += mine
        state["joined"] = [results.get(label, []) for label, _, _ in suites]
        return state["joined"]

    try:
        _run_rest(chk, stats, quick, n_sess, n_reader, n_parse, join_probes)
    finally:
        join_probes()


def replay(path):
    d = json.load(open(path))
    if d.get("suite") == "session":
        c = mk_case(C.unlatin(d["input"]), d["max_size"], d["max_recipients"], d.get("chunk", 1))
        c["observe"] = d.get("observe") or []
        if d.get("segments"):
            c["segments"] = [C.unlatin(x) for x in d["segments"]]
        if d.get("prefill_input"):
            pre = mk_case(C.unlatin(d["prefill_input"]), d["max_size"], d["max_recipients"], 0)
            pre["observe"] = d.get("prefill_observe") or []
            quota_runner([pre, c])
            print("quota config %s, over-quota set %s (mailboxes filled by a first session)" % (d.get("quota_cfg"), d.get("over_quota_set")))
        else:
            run_sessions([c])
        print("input:  %r" % c["input"])
        print("output: %r" % c.get("out"))
        if c.get("segments"):
            for k, sn in enumerate(c.get("snaps") or []):
                print("after write %d %r the client had received: %r" % (k, c["segments"][k], c["out"][:sn][-160:]))
        if c["observe"]:
            print("stored: %r" % c.get("stored"))
            print("submitted: %r" % d.get("submitted_bodies"))
        print("returned=%s unread=%s panic=%s" % (c.get("returned"), c.get("unread"), c.get("panic")))
    elif d.get("suite") == "reader":
        print(C.run_ops([{"op": "call", "fn": "ReadDataCommand", "a": [d["stream"]], "n": [d["max"]]}]))
    else:
        print(json.dumps(d, indent=1))
    return 0
