"""C07 — a crash at any instant leaves usable stores and keeps acknowledged work.

Two correspondence suites tie Model/Micro.v (operations as lists of atomic
durable micro-steps) to /repo's current code:

 trace   every SQL statement raven executes is recorded (harness/shims/db/
         verif_trace.go: sqlite3_auto_extension + sqlite3_trace_v2, injected by
         the overlay into internal/db).  Seeded workloads (first contact of new
         users, LMTP deliveries to several recipients, APPEND of multipart mail
         with out-of-line parts, UID COPY, COPY, UID STORE incl. Junk, EXPUNGE, CLOSE,
         CREATE/RENAME/DELETE incl. hierarchies and RENAME INBOX, SUBSCRIBE) run
         over real IMAP/LMTP sessions; per operation the observed sequence of
         write statements (kind + table, BEGIN/COMMIT/ROLLBACK; SELECT/PRAGMA
         dropped) is compared inside Coq with `run_labels d (micro d op)`, the
         reply class with `big`, and the dump of the store with the model state.

 crash   the same kind of workload runs in a child driver that is killed
         (SIGKILL) immediately before its K-th storage-engine I/O call (the VFS
         shim in verif_trace.go counts xWrite/xSync/xTruncate/xDelete with one
         process-wide counter = the property's quantifier); a FRESH driver
         process reopens the data directory and audits it: every store opens,
         every link's message is complete and fetchable over IMAP, UID rules,
         a new login + SELECT INBOX + delivery per user succeed; the recovered
         dump must equal one of the model's crash states `crash_at absent h k`
         with k not before the last acknowledged operation.
"""
import base64
import glob
import json
import os
import re
import shutil
import subprocess
import tempfile
import time

import common as C

PID = "C07"
DOM = "example.com"
CLASS_BY_CODE = {}      # no listed finding class left (F19 repaired by fixes/store-init-idempotent.patch)
WRITE_KINDS = {"INSERT": "I", "UPDATE": "U", "DELETE": "D"}


# --------------------------------------------------------------------------
# messages with a known shape (header rows, address rows, parts: blob?)

def make_msg(kind, i, to, extra=0):
    tok = "TOK%dX" % i
    xs = "".join("X-K%d: v%d\r\n" % (j, j) for j in range(extra))
    if kind == "S":
        m = "From: a@%s\r\nTo: %s\r\nSubject: s %s\r\n%s\r\nbody %s\r\n" % (DOM, to, tok, xs, tok)
        return m, (3 + extra, 2, [False]), tok
    if kind == "BIG":
        body = ("line %s 0123456789 abcdefghijklmnopqrstuvwxyz\r\n" % tok) * 30
        m = "From: a@%s\r\nTo: %s\r\nSubject: s %s\r\n%s\r\n%s" % (DOM, to, tok, xs, body)
        return m, (3 + extra, 2, [True]), tok
    if kind == "MP":
        att = base64.b64encode((tok * 12).encode()).decode()
        m = ("From: a@%s\r\nTo: %s\r\nCc: c@%s\r\nSubject: mp %s\r\nMIME-Version: 1.0\r\n%s"
             "Content-Type: multipart/mixed; boundary=\"BB%d\"\r\n\r\n--BB%d\r\nContent-Type: text/plain\r\n\r\nhello %s\r\n"
             "--BB%d\r\nContent-Type: application/octet-stream\r\nContent-Disposition: attachment; filename=\"a%d.bin\"\r\n"
             "Content-Transfer-Encoding: base64\r\n\r\n%s\r\n--BB%d--\r\n") % (DOM, to, DOM, tok, xs, i, i, tok, i, i, att, i)
        return m, (6 + extra, 3, [False, False, True]), tok
    raise ValueError(kind)


def coq_shape(sh):
    return "(mkShape %d %d %s)" % (sh[0], sh[1], C.coq_list([C.coq_bool(b) for b in sh[2]]))


def set_text(st):
    return ",".join(str(x[1]) if x[0] == "one" else "%d:%d" % (x[1], x[2]) for x in st)


def coq_set(st):
    return C.coq_list(["(UOne %d)" % x[1] if x[0] == "one" else "(URange %d %d)" % (x[1], x[2]) for x in st])


def coq_flags(fl):
    return C.coq_list([C.coq_str(f) for f in fl])


# --------------------------------------------------------------------------
# scripts -> driver ops

def addr(u):
    return "%s@%s" % (u, DOM)


class Plan:
    """Driver ops of a script; `marks[i]` = (first, last) op positions of step i.
    In crash mode every protocol exchange is a `sendl` (acknowledgements are
    appended to `log`), there are no dumps and no trace ops."""

    def __init__(self, script, crash=None):
        self.script = script
        self.ops = []
        self.marks = []
        self.msgs = {}     # step index -> (shape, token)
        self.crash = crash  # None or dict(log=..., dir=..., at=K)
        self.build()

    def send(self, conn, data, until, sid):
        if self.crash:
            self.ops.append({"op": "sendl", "conn": conn, "data": data, "until": until, "id": sid, "log": self.crash["log"]})
        else:
            self.ops.append({"op": "send", "conn": conn, "data": data, "until": until})

    def build(self):
        ops = self.ops
        if self.crash:
            ops.append({"op": "crash_arm", "at": self.crash["at"]})
            ops.append({"op": "use_datadir", "dir": self.crash["dir"]})
        else:
            ops.append({"op": "trace_on"})
        ops += [{"op": "lmtp_open", "conn": "l0"}, {"op": "send", "conn": "l0", "data": "LHLO x\r\n", "until": "lmtp:1"},
                {"op": "lmtp_open", "conn": "l1", "default_folder": "D"}, {"op": "send", "conn": "l1", "data": "LHLO x\r\n", "until": "lmtp:1"}]
        opened = set()
        for i, st in enumerate(self.script):
            k = st["k"]
            tag = "t%d" % i
            if not self.crash:
                ops.append({"op": "trace_take"})
            first = len(ops)
            if k == "restart":
                # clean stop and restart of both services inside this process: managers closed and
                # reopened on the same directory, all connections dropped
                ops.append({"op": "restart"})
                opened.clear()
                ops += [{"op": "lmtp_open", "conn": "l0"}, {"op": "send", "conn": "l0", "data": "LHLO x\r\n", "until": "lmtp:1"},
                        {"op": "lmtp_open", "conn": "l1", "default_folder": "D"}, {"op": "send", "conn": "l1", "data": "LHLO x\r\n", "until": "lmtp:1"}]
            elif k == "login":
                conn = "c_" + st["u"]
                if conn not in opened:
                    ops.append({"op": "open", "conn": conn})
                    opened.add(conn)
                self.send(conn, "%s LOGIN %s pw\r\n" % (tag, addr(st["u"])), "tag:" + tag, "%d" % i)
            elif k == "deliver":
                conn = "l1" if st.get("folder") == "D" else "l0"
                m, sh, tok = make_msg(st["msg"], i, addr(st["rcpts"][0]), st.get("extra", 0))
                self.msgs[i] = (sh, tok)
                ops.append({"op": "send", "conn": conn, "data": "MAIL FROM:<a@%s>\r\n" % DOM, "until": "lmtp:1"})
                for r in st["rcpts"]:
                    ops.append({"op": "send", "conn": conn, "data": "RCPT TO:<%s>\r\n" % addr(r), "until": "lmtp:1"})
                ops.append({"op": "send", "conn": conn, "data": "DATA\r\n", "until": "lmtp:1"})
                self.send(conn, m + ".\r\n", "lmtp:%d" % len(st["rcpts"]), "%d" % i)
            else:
                conn = "c_" + st["u"]
                if k == "append":
                    m, sh, tok = make_msg(st["msg"], i, addr(st["u"]), st.get("extra", 0))
                    self.msgs[i] = (sh, tok)
                    m2 = m + "%s NOOP\r\n" % tag     # ends the wait even if the literal was refused
                    fl = (" (%s)" % " ".join(st["flags"])) if st["flags"] else ""
                    ops.append({"op": "send", "conn": conn, "data": "%s APPEND %s%s {%d}\r\n" % (tag, st["folder"], fl, len(m2)), "until": "cont:" + tag})
                    self.send(conn, m2 + "\r\n", "tag:" + tag, "%d" % i)
                else:
                    line = {"select": lambda: "SELECT %s" % st["name"],
                            "uidcopy": lambda: "UID COPY %s %s" % (set_text(st["set"]), st["dest"]),
                            "copy": lambda: "COPY %s %s" % (set_text(st["set"]), st["dest"]),
                            "uidstore": lambda: "UID STORE %s %s (%s)" % (set_text(st["set"]), {"+": "+FLAGS", "-": "-FLAGS", "=": "FLAGS"}[st["mode"]], " ".join(st["flags"])),
                            "expunge": lambda: "EXPUNGE", "close": lambda: "CLOSE",
                            "create": lambda: "CREATE %s" % st["name"], "delete": lambda: "DELETE %s" % st["name"],
                            "rename": lambda: "RENAME %s %s" % (st["old"], st["new"]),
                            "subscribe": lambda: "SUBSCRIBE %s" % st["name"], "unsubscribe": lambda: "UNSUBSCRIBE %s" % st["name"]}[k]()
                    self.send(conn, "%s %s\r\n" % (tag, line), "tag:" + tag, "%d" % i)
            if not self.crash:
                ops.append({"op": "trace_take"})
                ops.append({"op": "dump7"})
            self.marks.append((first, len(ops) - 1))
        if self.crash:
            ops.append({"op": "crash_disarm"})


# --------------------------------------------------------------------------
# observations -> Coq terms

def norm_stmt(fname, sql):
    """(store, label) or None for statements that are not listed by the model."""
    s = re.sub(r"\s+", " ", sql).strip()
    up = s.upper()
    store = fname[:-3] if fname.endswith(".db") else fname
    if up in ("BEGIN", "BEGIN IMMEDIATE", "COMMIT", "ROLLBACK"):
        return store, up
    w = up.split(" ", 1)[0]
    if w in ("SELECT", "PRAGMA"):
        return None
    lab = None
    m = re.match(r"CREATE TABLE IF NOT EXISTS (\w+)", s, re.I)
    if m:
        lab = "T " + m.group(1)
    m = m or re.match(r"CREATE (?:UNIQUE )?INDEX IF NOT EXISTS (\w+)", s, re.I)
    if lab is None and m:
        lab = "X " + m.group(1)
    if lab is None:
        m = re.match(r"INSERT (?:OR \w+ )?INTO (\w+)", s, re.I) or re.match(r"UPDATE (\w+)", s, re.I) or re.match(r"DELETE FROM (\w+)", s, re.I)
        if m:
            lab = WRITE_KINDS[w] + " " + m.group(1)
    if lab is None:
        lab = "? " + s[:40]
    if store == "shared":
        if lab in ("I blobs", "U blobs"):
            return "shared", "W blobs"
        return None          # domains / users / roles: not per-store
    return store, lab


def reply_code(recv, tag):
    for line in recv.split("\r\n"):
        if line.startswith(tag + " "):
            w = line[len(tag) + 1:].split(" ", 1)[0].upper()
            return {"OK": 0, "NO": 1, "BAD": 2}.get(w, 2)
    return -1


def coq_oview(st):
    """Coq term of the observed store (dump7 entry or None = no file)."""
    if st is None:
        return "(mkOV (-1) [] [] [] [])"
    schema = st.get("schema")
    if schema is None:
        schema = -2
    mb = ["(%d, %s, %d)" % (m[0], C.coq_str(m[2]), m[4]) for m in (st.get("mailboxes") or [])]
    lk = ["(%d, %d, %d, %d, %s)" % (l[0], l[1], l[2], l[3], coq_flags(C.unlatin(l[4]).decode("latin-1").split())) for l in (st.get("links") or [])]
    ms = ["(%d, %d, %d)" % (m[0], m[1], m[2]) for m in (st.get("messages") or [])]
    sb = [C.coq_str(x[1]) for x in (st.get("subs") or [])]
    return "(mkOV %s %s %s %s %s)" % (C.coq_z(schema), C.coq_list(mb), C.coq_list(lk), C.coq_list(ms), C.coq_list(sb))


class ModelSide:
    """Builds, per store (user), the list of model operations of a script from
    what the run showed (selected mailbox ids come from the dumps)."""

    def __init__(self, script, msgs):
        self.script = script
        self.msgs = msgs
        self.sel = {}
        self.opened = set()     # users whose store was opened (GetUserDB ran) in this process

    def cops(self, i, dump_before):
        """[(user, coq-op-text)] for step i; dump_before: {user: store-dump}"""
        st = self.script[i]
        k = st["k"]
        T = "0 0 0 0 0"
        if k == "restart":
            self.opened.clear()      # the connection cache is gone: the next use of a store is a GetUserDB
            self.sel.clear()
            return []
        if k == "login":
            self.sel[st["u"]] = 0    # a new session has nothing selected
            if st["u"] in self.opened:
                return []            # cached connection: GetUserDB issues nothing
            self.opened.add(st["u"])
            return [(st["u"], "(COpen %s)" % T)]
        if k == "deliver":
            sh = self.msgs[i][0]
            folder = "D" if st.get("folder") == "D" else "INBOX"
            out = []
            for r in st["rcpts"]:
                if r not in self.opened:
                    self.opened.add(r)
                    out.append((r, "(COpen %s)" % T))      # GetUserDB at the head of the first delivery
                out.append((r, "(CDeliver %s 0 %s)" % (C.coq_str(folder), coq_shape(sh))))
            return out
        u = st["u"]
        if k == "append":
            return [(u, "(CAppend %s %s %s)" % (C.coq_str(st["folder"]), coq_flags(st["flags"]), coq_shape(self.msgs[i][0])))]
        sel = self.sel.get(u, 0)
        if k == "select":
            return []
        if k == "uidcopy":
            o = "OUidCopy %d %s %s" % (sel, coq_set(st["set"]), C.coq_str(st["dest"]))
        elif k == "copy":
            o = "OCopy %d %s %s" % (sel, coq_set(st["set"]), C.coq_str(st["dest"]))
        elif k == "uidstore":
            o = "OUidStore %d %s %s %s" % (sel, coq_set(st["set"]), {"+": "SAdd", "-": "SDel", "=": "SSet"}[st["mode"]], coq_flags(st["flags"]))
        elif k == "expunge":
            o = "OExpunge %d" % sel
        elif k == "close":
            o = "OClose %d" % sel
        elif k == "create":
            o = "OCreate %s 0" % C.coq_str(st["name"])
        elif k == "delete":
            o = "ODelete %s" % C.coq_str(st["name"])
        elif k == "rename":
            o = "ORename %s %s 0" % (C.coq_str(st["old"]), C.coq_str(st["new"]))
        elif k == "subscribe":
            return [(u, "(CSubscribe %s)" % C.coq_str(st["name"]))]
        elif k == "unsubscribe":
            return [(u, "(CUnsubscribe %s)" % C.coq_str(st["name"]))]
        else:
            raise ValueError(k)
        return [(u, "(CBase (%s))" % o)]

    def after(self, i, code, dump_before):
        """selection bookkeeping from the reply of step i"""
        st = self.script[i]
        u = st.get("u")
        if st["k"] == "select":
            if code == 0:
                name = "INBOX" if st["name"].upper() == "INBOX" else st["name"]
                d = dump_before.get(u) or {}
                ids = [m[0] for m in (d.get("mailboxes") or []) if m[2] == name]
                self.sel[u] = ids[0] if ids else 0
            else:
                self.sel[u] = 0          # a failed SELECT leaves no mailbox selected (f0af380)
        if st["k"] == "close" and code == 0:
            self.sel[u] = 0


def stores_by_user(d7):
    """{username: store dump} from a dump7 observation"""
    out = {}
    for row in (d7.get("users") or []):
        st = (d7.get("stores") or {}).get("user_db_%d" % row[0])
        if st is not None:
            out[row[1]] = st
    return out


def uid_of_store(d7):
    return {"user_db_%d" % row[0]: row[1] for row in (d7.get("users") or [])}


NEEDS_SEL = ("uidcopy", "copy", "uidstore", "expunge", "close")


def digest_trace(script, plan, res):
    """-> (per_user {u: [ostep-text]}, step_index {u: [script index]}, trouble)"""
    obs = res["obs"]
    if res.get("crashed") or len(obs) != len(plan.ops):
        return None, None, "driver crashed: %s" % (res.get("stderr", "")[-300:])
    for o in obs:
        if o.get("how") in ("timeout", "eof", "write-error") or "panic" in o or "error" in o:
            return None, None, "driver step did not complete: %s" % json.dumps(o)[:300]
    ms = ModelSide(script, plan.msgs)
    per_user, step_index = {}, {}
    dump_before = {}
    plan.events = []
    for i, st in enumerate(script):
        first, last = plan.marks[i]
        d7 = obs[last]
        stmts = obs[last - 1]["stmts"] or []
        users = uid_of_store(d7)
        after = stores_by_user(d7)
        proto = obs[last - 2]
        tag = "t%d" % i
        if st["k"] == "deliver":
            codes = [0 if l[:1] == "2" else 1 for l in proto["recv"].split("\r\n") if l]
        else:
            codes = [reply_code(proto["recv"], tag)]
            if st["k"] == "append" and reply_code(obs[last - 3]["recv"], tag) >= 0:
                codes = [reply_code(obs[last - 3]["recv"], tag)]      # refused before the literal
        # statements per store, blobs attributed to the store being written
        labs = {}
        cur = None
        for f, sql in stmts:
            n = norm_stmt(f, C.unlatin(sql).decode("latin-1"))
            if n is None:
                continue
            store, lab = n
            if store == "shared":
                if cur is not None:
                    labs.setdefault(cur, []).append(lab)
                continue
            cur = users.get(store, store)
            labs.setdefault(cur, []).append(lab)
        if st["k"] in ("login", "restart"):
            # GetUserDB on a store whose mailbox table is not empty is the identity (c07_reopen_changes_nothing):
            # complete mailbox rows (incl. uid_validity, uid_next), links, messages, subscriptions
            for uu, b in dump_before.items():
                a = after.get(uu)
                if (b.get("mailboxes") or []) and (st["k"] == "restart" or uu == st.get("u")):
                    for key in ("mailboxes", "links", "messages", "subs", "schema"):
                        if (a or {}).get(key) != b.get(key):
                            plan.events.append((i, uu, "%s of the store of %s changed across %s: before %r, after %r" % (
                                key, uu, "a clean stop and restart" if st["k"] == "restart" else "a LOGIN (GetUserDB)", b.get(key), (a or {}).get(key))))
                            break
        cops = ms.cops(i, dump_before)
        if st["k"] in NEEDS_SEL and ms.sel.get(st["u"], 0) == 0:
            cops = []            # "No mailbox selected": not an operation of the model
        seen = set()
        nth_of_user = {}
        for j, (u, optxt) in enumerate(cops):
            ulabs = labs.get(u, [])
            if st["k"] == "deliver":
                # reply = position of the recipient; labels: the COpen part ends where the message rows start
                code = codes[st["rcpts"].index(u)] if st["rcpts"].index(u) < len(codes) else -1
                # GetUserDB's part: the schema statements, then (only when the mailbox table was empty)
                # the default-mailbox transaction BEGIN IMMEDIATE ... COMMIT; everything after that —
                # incl. the creation of a missing target folder — belongs to the delivery
                cut = 0
                while cut < len(ulabs) and ulabs[cut][:2] in ("T ", "X "):
                    cut += 1
                if cut < len(ulabs) and ulabs[cut] == "BEGIN IMMEDIATE" and "COMMIT" in ulabs[cut:]:
                    cut = ulabs.index("COMMIT", cut) + 1
                has_open = any(uu == u and "COpen" in t for (uu, t) in cops)
                if "COpen" in optxt:
                    mylabs, code, view = ulabs[:cut], -1, "(mkOV (-3) [] [] [] [])"
                else:
                    mylabs, view = (ulabs[cut:] if has_open else ulabs), coq_oview(after.get(u))
            else:
                code = codes[j] if j < len(codes) else -1
                mylabs, view = ulabs, coq_oview(after.get(u))
            per_user.setdefault(u, []).append("(%s, %s, %s, %s)" % (
                optxt, C.coq_list([C.coq_str(x) for x in mylabs]), C.coq_z(code), view))
            step_index.setdefault(u, []).append(i)
            seen.add(u)
        for u in labs:
            if u not in seen and labs[u]:
                return None, None, "step %d (%s) wrote to the store of %s, which the script does not address: %r" % (i, st["k"], u, labs[u][:5])
        ms.after(i, codes[0] if codes else -1, dump_before)
        dump_before = after
    return per_user, step_index, None


# --------------------------------------------------------------------------
# generators

def gen_script(rng, n, users=("u", "v"), crashy=False):
    """A mostly-valid workload.  First contact of each user is by login or by
    delivery; the rest mixes all operation kinds."""
    sc = []
    known = set()
    names = {u: {"INBOX", "Sent", "Drafts", "Trash", "Spam"} for u in users}
    seld = {}
    cnt = {u: 0 for u in users}
    pool = ["A", "B", "a/b", "a/b/c", "x/y", "Q"]

    def ensure_login(u):
        if u not in known:
            sc.append({"k": "login", "u": u})
            known.add(u)
    u0 = users[0]
    if rng.random() < 0.5:
        ensure_login(u0)
    else:
        sc.append({"k": "deliver", "rcpts": list(users[:rng.randint(1, len(users))]), "msg": rng.choice(["S", "MP", "BIG"]), "extra": rng.randint(0, 2)})
        for u in sc[-1]["rcpts"]:
            cnt[u] += 1
    while len(sc) < n:
        u = rng.choice(users)
        if len(sc) > 3 and rng.random() < 0.07:
            sc.append({"k": "restart"})        # clean stop + restart: every store is reopened by its next use
            known.clear()
            seld.clear()
            continue
        r = rng.random()
        if r < 0.16:
            rc = [u] if rng.random() < 0.5 else list(users)
            rng.shuffle(rc)
            sc.append({"k": "deliver", "rcpts": rc, "msg": rng.choice(["S", "MP", "BIG"]), "extra": rng.randint(0, 2),
                       "folder": "D" if rng.random() < 0.15 else "INBOX"})
            for x in rc:
                cnt[x] += 1
                if sc[-1]["folder"] == "D":
                    names[x].add("D")
            continue
        ensure_login(u)
        if r < 0.30:
            sc.append({"k": "append", "u": u, "folder": rng.choice(sorted(names[u]) + ["Nope"]), "flags": rng.choice([[], ["\\Seen"], ["\\Flagged", "\\Seen"]]),
                       "msg": rng.choice(["S", "MP", "BIG"]), "extra": rng.randint(0, 1)})
            cnt[u] += 1
        elif r < 0.42:
            nm = rng.choice(sorted(names[u]))
            sc.append({"k": "select", "u": u, "name": nm})
            seld[u] = nm
        elif r < 0.52:
            if u not in seld:
                sc.append({"k": "select", "u": u, "name": "INBOX"})
                seld[u] = "INBOX"
            a = rng.randint(1, 3)
            sc.append({"k": rng.choice(["uidcopy", "uidcopy", "copy"]), "u": u, "set": [("range", a, a + rng.randint(0, 2))], "dest": rng.choice(sorted(names[u]) + ["Nope"])})
        elif r < 0.66:
            if u not in seld:
                sc.append({"k": "select", "u": u, "name": "INBOX"})
                seld[u] = "INBOX"
            a = rng.randint(1, 3)
            fl = rng.choice([["\\Deleted"], ["\\Deleted"], ["\\Seen"], ["\\Flagged", "\\Answered"], ["Junk"], ["NonJunk"]])
            sc.append({"k": "uidstore", "u": u, "set": [("range", a, a + rng.randint(0, 3))], "mode": rng.choice(["+", "+", "-", "="]), "flags": fl})
        elif r < 0.74:
            if u not in seld:
                sc.append({"k": "select", "u": u, "name": "INBOX"})
                seld[u] = "INBOX"
            sc.append({"k": rng.choice(["expunge", "expunge", "close"]), "u": u})
            if sc[-1]["k"] == "close":
                seld.pop(u, None)
        elif r < 0.82:
            nm = rng.choice(pool)
            sc.append({"k": "create", "u": u, "name": nm})
            parts = nm.split("/")
            for j in range(len(parts)):
                names[u].add("/".join(parts[:j + 1]))
        elif r < 0.90:
            old = rng.choice(sorted(names[u]))
            new = rng.choice(pool + ["R1", "R2/z"])
            sc.append({"k": "rename", "u": u, "old": old, "new": new})
            names[u].add(new)
        elif r < 0.95:
            # default mailboxes are deleted too (Spam can be; Trash/Drafts/Sent are refused; a renamed Sent can be)
            sc.append({"k": "delete", "u": u, "name": rng.choice(sorted(names[u]) + ["Spam", "Trash"])})
        else:
            nm = rng.choice(["A", "INBOX", "Q"])
            sc.append({"k": rng.choice(["subscribe", "subscribe", "unsubscribe"]), "u": u, "name": nm})
    return sc


FIXED_CRASH_SCRIPTS = [
    # first contact by login, deliveries to several recipients (second one new), multipart APPEND, COPY, flags, EXPUNGE
    [{"k": "login", "u": "u"},
     {"k": "deliver", "rcpts": ["u", "v"], "msg": "MP", "extra": 1},
     {"k": "append", "u": "u", "folder": "INBOX", "flags": ["\\Seen"], "msg": "MP", "extra": 0},
     {"k": "select", "u": "u", "name": "INBOX"},
     {"k": "uidcopy", "u": "u", "set": [("range", 1, 2)], "dest": "Trash"},
     {"k": "uidstore", "u": "u", "set": [("range", 1, 2)], "mode": "+", "flags": ["\\Deleted"]},
     {"k": "expunge", "u": "u"},
     {"k": "deliver", "rcpts": ["u"], "msg": "S", "extra": 0}],
    # first contact by delivery; mailbox create / rename / delete; subscribe; BIG single part
    [{"k": "deliver", "rcpts": ["w"], "msg": "BIG", "extra": 0},
     {"k": "login", "u": "w"},
     {"k": "create", "u": "w", "name": "a/b"},
     {"k": "append", "u": "w", "folder": "a/b", "flags": [], "msg": "S", "extra": 2},
     {"k": "rename", "u": "w", "old": "a", "new": "z"},
     {"k": "subscribe", "u": "w", "name": "z/b"},
     {"k": "rename", "u": "w", "old": "INBOX", "new": "old"},
     {"k": "delete", "u": "w", "name": "z/b"},
     {"k": "deliver", "rcpts": ["w"], "msg": "S", "extra": 0, "folder": "D"}],
    # acknowledged removal / renaming of DEFAULT mailboxes and subscriptions must survive a clean stop +
    # restart and every later kill: DELETE Spam (OK), DELETE Trash / Drafts (refused), RENAME Sent x then
    # DELETE x, CREATE + DELETE of other names, SUBSCRIBE / UNSUBSCRIBE, restart, more work
    [{"k": "login", "u": "u"},
     {"k": "deliver", "rcpts": ["u"], "msg": "S", "extra": 0},
     {"k": "delete", "u": "u", "name": "Spam"},
     {"k": "delete", "u": "u", "name": "Trash"},
     {"k": "delete", "u": "u", "name": "Drafts"},
     {"k": "rename", "u": "u", "old": "Sent", "new": "x"},
     {"k": "delete", "u": "u", "name": "x"},
     {"k": "create", "u": "u", "name": "A"},
     {"k": "delete", "u": "u", "name": "A"},
     {"k": "create", "u": "u", "name": "B"},
     {"k": "subscribe", "u": "u", "name": "B"},
     {"k": "subscribe", "u": "u", "name": "INBOX"},
     {"k": "unsubscribe", "u": "u", "name": "B"},
     {"k": "restart"},
     {"k": "login", "u": "u"},
     {"k": "append", "u": "u", "folder": "INBOX", "flags": [], "msg": "S", "extra": 0},
     {"k": "deliver", "rcpts": ["u", "v"], "msg": "S", "extra": 0},
     {"k": "restart"},
     {"k": "deliver", "rcpts": ["u"], "msg": "S", "extra": 0}],
    # COPY out of, EXPUNGE in, RENAME and DELETE of a NON-EMPTY mailbox holding acknowledged messages
    # (multipart with out-of-line part, and single part), and RENAME INBOX with messages.  Every storage
    # I/O call inside these operations is a crash point in BOTH tiers (TARGETED below).
    [{"k": "login", "u": "u"},
     {"k": "deliver", "rcpts": ["u"], "msg": "S", "extra": 0},
     {"k": "create", "u": "u", "name": "Archive"},
     {"k": "append", "u": "u", "folder": "Archive", "flags": [], "msg": "MP", "extra": 0},
     {"k": "append", "u": "u", "folder": "Archive", "flags": ["\\Seen"], "msg": "S", "extra": 1},
     {"k": "append", "u": "u", "folder": "Archive", "flags": [], "msg": "BIG", "extra": 0},
     {"k": "select", "u": "u", "name": "Archive"},
     {"k": "uidcopy", "u": "u", "set": [("range", 1, 2)], "dest": "Trash"},
     {"k": "copy", "u": "u", "set": [("range", 3, 3)], "dest": "Drafts"},
     {"k": "uidstore", "u": "u", "set": [("range", 1, 1)], "mode": "+", "flags": ["\\Deleted"]},
     {"k": "expunge", "u": "u"},
     {"k": "rename", "u": "u", "old": "Archive", "new": "Arch2"},
     {"k": "delete", "u": "u", "name": "Arch2"},
     {"k": "append", "u": "u", "folder": "INBOX", "flags": [], "msg": "S", "extra": 0},
     {"k": "rename", "u": "u", "old": "INBOX", "new": "old"},
     {"k": "select", "u": "u", "name": "Trash"},
     {"k": "uidstore", "u": "u", "set": [("range", 1, 2)], "mode": "+", "flags": ["\\Deleted"]},
     {"k": "close", "u": "u"},
     {"k": "deliver", "rcpts": ["u"], "msg": "S", "extra": 0}],
]
TARGETED_SCRIPT = 3          # index into FIXED_CRASH_SCRIPTS
TARGETED_KINDS = ("uidcopy", "copy", "uidstore", "expunge", "close", "rename", "delete")


def step_windows(script, acks, kinds):
    """every storage I/O call (as crash point K) issued inside the steps of the given kinds: all K in
    (I/O count at the previous acknowledgement, I/O count at this step's acknowledgement]"""
    ks = set()
    prev = 0
    for a in sorted(acks, key=lambda x: int(x["id"])):
        sid = int(a["id"])
        io = a.get("io", prev)
        if script[sid]["k"] in kinds:
            ks.update(range(prev + 1, io + 1))
        prev = io
    return ks


# --------------------------------------------------------------------------
# running

def coq_eval(pid_tag, defs, names):
    body = C.COQ_CASE_HEADER + "From Raven Require Import Model.Store Model.Ops Model.Micro Model.UidView Model.MicroView Spec.Crash.\nLocal Open Scope Z_scope.\n"
    body += defs
    for n in names:
        body += "Print %s.\n" % n
    rc, log = C.coq_eval_cases(pid_tag, body)
    return rc, log


def parse_nums(txt):
    return [int(x) for x in re.findall(r"-?\d+", txt.replace("%Z", "").replace("%nat", ""))]


def trace_suite(chk, scripts, label="trace", base=None):
    plans = [Plan(sc) for sc in scripts]
    results = C.run_many([p.ops for p in plans], workers=12)
    defs, names, meta = "", [], []
    for si, (sc, plan, res) in enumerate(zip(scripts, plans, results)):
        per_user, step_index, trouble = digest_trace(sc, plan, res)
        if trouble:
            chk.notes.append("%s scenario %d skipped (harness): %s" % (label, si, trouble[:200]))
            chk.cov["harness_trouble"] = chk.cov.get("harness_trouble", 0) + 1
            continue
        for (step, uu, text) in plan.events[:3]:
            chk.violation("clean restart / reopen is not the identity: %s" % text[:600],
                          {"suite": "trace", "script": sc[:step + 1], "user": uu, "step": step})
        for u, steps in sorted(per_user.items()):
            nm = "r_%d_%s" % (si, u)
            defs += "Definition %s := Eval vm_compute in eval_trace %s.\n" % (nm, C.coq_list(steps))
            names.append(nm)
            meta.append((si, u, step_index[u], len(steps)))
    if not names:
        chk.broken_obligation("correspondence %s: no scenario could be evaluated" % label, {})
        return 0
    rc, log = coq_eval("C07_" + label, defs, names)
    if rc != 0:
        chk.broken_obligation("in-Coq evaluation of the C07 %s cases failed:\n%s" % (label, log[-1500:]), {})
        return 0
    nops = 0
    steps_total = 0
    disagreements = []
    for nm, (si, u, idx, n) in zip(names, meta):
        txt = C.parse_coq_list_out(log, nm)
        v = parse_nums(txt or "")
        if len(v) != 4:
            chk.broken_obligation("could not read %s from Coq output" % nm, {})
            continue
        a, b, c, nsteps = v
        nops += n
        steps_total += nsteps
        for kind, pos in (("SQL statement sequence", a), ("reply class", b), ("store contents", c)):
            if pos >= 0:
                chk.cov["disagreements_checked"] += 1
                disagreements.append((si, u, idx[pos], kind))
                break
    chk.cov["trace_ops"] = chk.cov.get("trace_ops", 0) + nops
    chk.cov["trace_micro_steps"] = chk.cov.get("trace_micro_steps", 0) + steps_total
    # a disagreement with the model is not yet a violation of the property:
    # look for a failing crash point inside the disagreeing operation
    # (implementation only, observation-only audit)
    searched = 0
    reported = set()
    for (si, u, step, kind) in disagreements:
        st = scripts[si][step]
        key = (st["k"], kind)
        if key in reported:
            continue
        reported.add(key)
        found = None
        if base is not None and searched < 3:
            searched += 1
            found = search_crash_in_step(chk, scripts[si], step, base)
        if found:
            chk.notes.append("trace disagreement (%s of %r): crash points inside that operation were replayed and property violations were reported" % (kind, st))
        else:
            chk.broken_obligation(
                "correspondence %s no longer checks: %s of operation %r (step %d, store of %s) differs from Model/Micro.v; "
                "crash points inside that operation were replayed and the audit found no property violation" % (label, kind, st, step, u),
                {"suite": label, "script": scripts[si], "user": u, "step": step, "kind": kind})
    return nops


def search_crash_in_step(chk, script, step, base):
    """Replay every crash point inside operation `step` of `script` (all I/O
    calls between the acknowledgement before it and its own); observation-only
    audit and Spec/Crash.v's crash_spec_b on the recovered stores (crash_suite).  Returns "reported"
    if that produced a VIOLATION with a failing input."""
    from concurrent.futures import ThreadPoolExecutor
    sub = script[:step + 1]
    n, acks = count_io(sub, base)
    if n <= 0:
        return None
    lo = 0
    for a in acks:
        if int(a["id"]) < step:
            lo = max(lo, a.get("io", 0))
    Ks = list(range(lo + 1, n + 1))
    if len(Ks) > 90:
        stride = len(Ks) / 90.0
        Ks = sorted(set(Ks[int(j * stride)] for j in range(90)))
    # full crash pipeline on the sub-script: audit + the property's spec on the recovered stores
    before = sum(1 for v in chk.violations if not v[2])
    crash_suite(chk, sub, Ks, base, "search")
    new = [v for v in chk.violations if not v[2]][before:]
    if new:
        return "reported"
    return None


def count_io(script, base):
    """I/O calls of a whole workload (counting run, never killed)."""
    d = tempfile.mkdtemp(prefix="cnt-", dir=base)
    plan = Plan(script, crash={"log": os.path.join(d, "acks"), "dir": os.path.join(d, "data"), "at": 0})
    res = C.run_ops(plan.ops, env_extra={"VERIF_TMP": base})
    n = -1
    if not res.get("crashed"):
        n = res["obs"][-1].get("count", -1)
    acks = read_acks(os.path.join(d, "acks"))
    return n, acks


def read_acks(path):
    out = []
    if os.path.exists(path):
        for line in open(path):
            try:
                out.append(json.loads(line))
            except Exception:
                pass
    return out


def audit_ops(users, n_tag):
    """ops of the fresh process that audits a recovered data directory"""
    ops = [{"op": "dump7"},
           {"op": "lmtp_open", "conn": "l0"}, {"op": "send", "conn": "l0", "data": "LHLO x\r\n", "until": "lmtp:1"}]
    return ops


def run_crash_point(script, K, base):
    """Child killed before I/O call K; fresh process audits.  Returns a dict."""
    d = tempfile.mkdtemp(prefix="cr-", dir=base)
    data = os.path.join(d, "data")
    log = os.path.join(d, "acks")
    plan = Plan(script, crash={"log": log, "dir": data, "at": K})
    drv = C.build_driver()
    env = dict(os.environ)
    env["VERIF_TMP"] = d
    p = subprocess.run([drv], input=json.dumps({"ops": plan.ops}), stdout=subprocess.PIPE, stderr=subprocess.PIPE, text=True, timeout=300, env=env)
    killed = p.returncode == -9
    acks = read_acks(log)
    out = {"K": K, "killed": killed, "rc": p.returncode, "acks": acks, "plan": plan}
    # ---- phase 1 of the audit: structural dump
    r1 = C.run_ops([{"op": "use_datadir", "dir": data}, {"op": "dump7"}], env_extra={"VERIF_TMP": d})
    if r1.get("crashed"):
        out["audit_crashed"] = "the restarted process cannot open the data directory: rc=%s %s" % (r1.get("rc"), r1.get("stderr", "")[-300:])
        shutil.rmtree(d, ignore_errors=True)
        return out
    d7 = r1["obs"][1]
    out["d7"] = d7
    by_user = stores_by_user(d7)
    # every user the workload addresses gets a new login + delivery (also users whose creation never started)
    wl_users = []
    for st in script:
        for u in ([st["u"]] if "u" in st else st.get("rcpts", [])):
            if u not in wl_users:
                wl_users.append(u)
    # ---- phase 2: IMAP walk, new login, SELECT INBOX, new delivery, fetch of it
    ops = [{"op": "use_datadir", "dir": data},
           {"op": "lmtp_open", "conn": "l0"}, {"op": "send", "conn": "l0", "data": "LHLO x\r\n", "until": "lmtp:1"}]
    idx = {}
    # first every user's LOGIN (= the restarted server's first GetUserDB for that store) and a
    # SELECT INBOX, then a second dump: what did the reopen do to the stores?
    for u in wl_users:
        c = "c_" + u
        ops.append({"op": "open", "conn": c})
        idx[(u, "login")] = len(ops)
        ops.append({"op": "send", "conn": c, "data": "g LOGIN %s pw\r\n" % addr(u), "until": "tag:g"})
        idx[(u, "inbox0")] = len(ops)
        ops.append({"op": "send", "conn": c, "data": "i SELECT INBOX\r\n", "until": "tag:i"})
    idx["dump_after_open"] = len(ops)
    ops.append({"op": "dump7"})
    for u in wl_users:
        c = "c_" + u
        st = by_user.get(u) or {}
        walk = []
        for mrow in (st.get("mailboxes") or []):
            name = mrow[2]
            if " " in name or not name:
                continue
            a = len(ops)
            ops.append({"op": "send", "conn": c, "data": "w SELECT %s\r\n" % name, "until": "tag:w"})
            ops.append({"op": "send", "conn": c, "data": "f UID FETCH 1:* (UID BODY.PEEK[])\r\n", "until": "tag:f", "timeout_ms": 15000})
            walk.append((mrow[0], name, a))
        idx[(u, "walk")] = walk
        nm, nsh, ntok = make_msg("S", 900000 + len(idx), addr(u))
        ops.append({"op": "send", "conn": "l0", "data": "MAIL FROM:<a@%s>\r\n" % DOM, "until": "lmtp:1"})
        ops.append({"op": "send", "conn": "l0", "data": "RCPT TO:<%s>\r\n" % addr(u), "until": "lmtp:1"})
        ops.append({"op": "send", "conn": "l0", "data": "DATA\r\n", "until": "lmtp:1"})
        idx[(u, "deliver")] = len(ops)
        ops.append({"op": "send", "conn": "l0", "data": nm + ".\r\n", "until": "lmtp:1"})
        idx[(u, "select")] = len(ops)
        ops.append({"op": "send", "conn": c, "data": "s SELECT INBOX\r\n", "until": "tag:s"})
        idx[(u, "fetchnew")] = (len(ops), ntok)
        ops.append({"op": "send", "conn": c, "data": "n UID FETCH 1:* (UID BODY.PEEK[])\r\n", "until": "tag:n", "timeout_ms": 15000})
        ops.append({"op": "send", "conn": c, "data": "q LOGOUT\r\n", "until": "tag:q"})
    r2 = C.run_ops(ops, env_extra={"VERIF_TMP": d})
    out["audit2"] = (r2, idx, wl_users)
    shutil.rmtree(d, ignore_errors=True)
    return out


def fetch_literals(recv):
    """{uid: literal bytes} of a UID FETCH (UID BODY[]) response (Latin-1 str)"""
    out = {}
    pos = 0
    while True:
        m = re.compile(r"\* \d+ FETCH \(").search(recv, pos)
        if not m:
            break
        head_end = recv.find("\r\n", m.end())
        seg = recv[m.end():head_end if head_end >= 0 else len(recv)]
        um = re.search(r"UID (\d+)", seg)
        lm = re.search(r"\{(\d+)\}$", seg)
        if lm and head_end >= 0:
            n = int(lm.group(1))
            lit = recv[head_end + 2: head_end + 2 + n]
            tail = recv[head_end + 2 + n: head_end + 2 + n + 40]
            if not um:
                um = re.search(r"UID (\d+)", tail)
            if um:
                out[int(um.group(1))] = lit
            pos = head_end + 2 + n
        else:
            if um:
                out[int(um.group(1))] = None
            pos = m.end()
    return out


def judge_crash(chk, script, rec, tokens_by_msgshape):
    """Observation-only audit of one crash point.  Returns a list of
    (kind, user, text); kind in {'opens','complete','fetch','uid','login','inbox','deliver'}."""
    bad = []
    if "audit_crashed" in rec:
        return [("opens", "*", rec["audit_crashed"])]
    d7 = rec["d7"]
    if d7.get("shared_error"):
        bad.append(("opens", "*", "shared.db cannot be read after restart: %s" % d7["shared_error"]))
    by_user = stores_by_user(d7)
    for name, st in sorted((d7.get("stores") or {}).items()):
        if st.get("unreadable"):
            bad.append(("opens", name, "store %s cannot be read after restart: %s" % (name, st["unreadable"])))
    for u, st in sorted(by_user.items()):
        msgs = {m[0]: m for m in (st.get("messages") or [])}
        mbs = {m[0]: m for m in (st.get("mailboxes") or [])}
        seen = set()
        for l in (st.get("links") or []):
            m = msgs.get(l[1])
            if m is None or m[1] == 0 or m[2] == 0:
                bad.append(("complete", u, "link row %d (mailbox row %d, UID %d) lists message %d which has %s" % (
                    l[0], l[2], l[3], l[1], "no row in messages" if m is None else "%d header rows and %d part rows" % (m[1], m[2]))))
            if (l[2], l[3]) in seen:
                bad.append(("uid", u, "two links with UID %d in mailbox row %d" % (l[3], l[2])))
            seen.add((l[2], l[3]))
            mb = mbs.get(l[2])
            if mb is None:
                bad.append(("uid", u, "link row %d refers to missing mailbox row %d" % (l[0], l[2])))
    r2, idx, wl_users = rec["audit2"]
    if r2.get("crashed"):
        bad.append(("opens", "*", "the restarted process died during the audit: %s" % r2.get("stderr", "")[-200:]))
        return bad
    obs = r2["obs"]
    # the first GetUserDB after the restart must not change a store whose mailbox table is not
    # empty (c07_reopen_changes_nothing): complete mailbox rows incl. uid_validity / uid_next,
    # links, messages, subscriptions, schema
    d7b = obs[idx["dump_after_open"]] if idx["dump_after_open"] < len(obs) else {}
    by_user2 = stores_by_user(d7b) if "stores" in d7b else {}
    rec["by_user2"] = by_user2
    for u, b in sorted(by_user.items()):
        if not (b.get("mailboxes") or []) or u not in wl_users:
            continue
        a = by_user2.get(u) or {}
        for key in ("mailboxes", "links", "messages", "subs", "schema"):
            if a.get(key) != b.get(key):
                bad.append(("reopen", u, "the first open of the store of %s after the restart changed its %s: before %r, after %r" % (u, key, b.get(key), a.get(key))))
                break
    if any(o.get("how") == "timeout" for o in obs):
        # a reply that did not arrive within the harness timeout (loaded machine) is not evidence
        chk.cov["audit_timeouts"] = chk.cov.get("audit_timeouts", 0) + 1
        chk.notes.append("audit of crash point K=%d: a reply timed out (harness); protocol part of the audit skipped" % rec["K"])
        return bad
    for u in wl_users:
        st = by_user.get(u) or {}
        lg = obs[idx[(u, "login")]].get("recv", "")
        if reply_code(lg, "g") != 0:
            bad.append(("login", u, "LOGIN of %s after restart: %r" % (u, lg[-80:])))
            continue
        i0 = obs[idx[(u, "inbox0")]].get("recv", "")
        if reply_code(i0, "i") != 0:
            bad.append(("inbox", u, "SELECT INBOX of %s right after the first LOGIN after restart: %r" % (u, i0[-80:])))
        links = st.get("links") or []
        msgs = {m[0]: m for m in (st.get("messages") or [])}
        for mid, name, a in idx[(u, "walk")]:
            if reply_code(obs[a].get("recv", ""), "w") != 0:
                bad.append(("fetch", u, "SELECT %s after restart: %r" % (name, obs[a].get("recv", "")[-80:])))
                continue
            lits = fetch_literals(obs[a + 1].get("recv", ""))
            for l in links:
                if l[2] != mid:
                    continue
                lit = lits.get(l[3])
                if not lit:
                    bad.append(("fetch", u, "UID %d of %s is listed but BODY[] is %s" % (l[3], name, "missing from the FETCH response" if lit is None else "empty")))
                elif not re.search(r"TOK\d+X", lit) or lit.count(re.search(r"TOK\d+X", lit).group(0)) < 2:
                    bad.append(("fetch", u, "UID %d of %s: the fetched message lacks its body (token count) : %r" % (l[3], name, lit[:120])))
        dl = obs[idx[(u, "deliver")]].get("recv", "")
        if dl[:1] != "2":
            bad.append(("deliver", u, "new delivery to %s after restart: %r" % (u, dl[:100])))
        sl = obs[idx[(u, "select")]].get("recv", "")
        if reply_code(sl, "s") != 0:
            bad.append(("inbox", u, "SELECT INBOX of %s after restart and a new accepted delivery: %r" % (u, sl[-80:])))
        elif dl[:1] == "2":
            pos, ntok = idx[(u, "fetchnew")]
            if ntok not in obs[pos].get("recv", ""):
                bad.append(("deliver", u, "the message delivered after restart (250) is not fetchable from INBOX of %s" % u))
    return bad


def crash_suite(chk, script, Ks, base, label):
    """Crash replay of `script` at the I/O calls Ks; model comparison in Coq."""
    from concurrent.futures import ThreadPoolExecutor
    C.build_driver()
    with ThreadPoolExecutor(max_workers=12) as ex:
        recs = list(ex.map(lambda K: run_crash_point(script, K, base), Ks))
    # the model ops per user need selected ids: take them from a complete, traced run
    plan0 = Plan(script)
    res0 = C.run_ops(plan0.ops)
    per_user, step_index, trouble = digest_trace(script, plan0, res0)
    if trouble:
        chk.notes.append("%s: reference run failed (harness): %s" % (label, trouble[:200]))
        return
    ref_mailbox_names = {}
    ref_msg = {}            # user -> message row id -> "step i (kind, token)"
    for i, st in enumerate(script):
        o = res0["obs"][plan0.marks[i][1]]
        if "stores" in o and "users" in o:
            for uu, stt in stores_by_user(o).items():
                for mrow in (stt.get("mailboxes") or []):
                    ref_mailbox_names.setdefault(uu, {})[mrow[0]] = mrow[2]
                for mr in (stt.get("messages") or []):
                    if mr[0] not in ref_msg.setdefault(uu, {}):
                        tok = plan0.msgs.get(i, (None, "?"))[1]
                        ref_msg[uu][mr[0]] = "the %s of step %d, acknowledged, body token %s" % (st["k"].upper(), i, tok)
    # extract the cop text: first component of each ostep tuple
    hist = {}
    for u, steps in per_user.items():
        hs = []
        for s in steps:
            depth = 0
            for j, ch in enumerate(s[1:], 1):
                if ch == "(":
                    depth += 1
                elif ch == ")":
                    depth -= 1
                    if depth == 0:
                        hs.append(s[1:j + 1])
                        break
        hist[u] = hs
    defs, names, meta = "", [], []
    verdicts = {}
    for ri, rec in enumerate(recs):
        verdicts[ri] = judge_crash(chk, script, rec, None)      # also fills rec["by_user2"]
        if "d7" not in rec:
            continue
        by_user = stores_by_user(rec["d7"])
        by_user2 = rec.get("by_user2")
        for u in hist:
            nm = "c_%d_%s" % (ri, u)
            ov2 = coq_oview(by_user2.get(u)) if by_user2 else "(mkOV (-3) [] [] [] [])"
            defs += "Definition %s := Eval vm_compute in eval_crash %s %s %s.\n" % (nm, C.coq_list(hist[u]), coq_oview(by_user.get(u)), ov2)
            names.append(nm)
            meta.append((ri, u))
    # the property's own spec on every recovered store (Spec/Crash.v crash_spec_b via eval_spec):
    # a = model operations of the store whose client command completed before the kill,
    # j = model operations of the one client command in flight
    spec_in = {}
    for ri, rec in enumerate(recs):
        if "d7" not in rec:
            continue
        done = [int(a["id"]) for a in rec["acks"]]
        maxdone = max(done) if done else -1
        inflight = None
        for sid in range(maxdone + 1, len(script)):
            if script[sid]["k"] != "restart":
                inflight = sid
                break
        if not rec["killed"]:
            maxdone, inflight = len(script), None
        by_user = stores_by_user(rec["d7"])
        for u in hist:
            a = sum(1 for sid in step_index[u] if sid <= maxdone)
            j = sum(1 for sid in step_index[u] if inflight is not None and sid == inflight)
            spec_in[(ri, u)] = (a, j, inflight)
            nm = "s_%d_%s" % (ri, u)
            defs += "Definition %s := Eval vm_compute in eval_spec %s %d %d %s.\n" % (nm, C.coq_list(hist[u]), a, j, coq_oview(by_user.get(u)))
            names.append(nm)
            meta.append((ri, u))
    matches = {}
    spec_out = {}
    if names:
        rc, log = coq_eval("C07_" + label, defs, names)
        if rc != 0:
            chk.broken_obligation("in-Coq evaluation of the C07 crash cases failed:\n%s" % log[-1500:], {})
            return
        for nm, (ri, u) in zip(names, meta):
            txt = C.parse_coq_list_out(log, nm) or ""
            if nm.startswith("s_"):
                groups = top_level_lists(txt)
                if len(groups) != 5:
                    chk.broken_obligation("could not read %s from Coq output: %r" % (nm, txt[:200]), {})
                    continue
                g = [parse_nums(x) for x in groups]
                spec_out[(ri, u)] = {"lost_links": list(zip(g[0][0::3], g[0][1::3], g[0][2::3])), "lost_msgs": sorted(set(g[1])),
                                     "lost_mailboxes": g[2], "phantom": list(zip(g[3][0::3], g[3][1::3], g[3][2::3])),
                                     "incomplete": sorted(set(g[4]))}
                continue
            m = re.match(r"\(\s*(\[.*?\])\s*,\s*(\[.*\])\s*\)\s*$", txt, re.S)
            if not m:
                chk.broken_obligation("could not read %s from Coq output: %r" % (nm, txt[:200]), {})
                continue
            tr = parse_nums(m.group(1))
            matches[(ri, u)] = (list(zip(tr[0::3], tr[1::3], tr[2::3])), parse_nums(m.group(2)))
    spec_reported = {}
    for ri, rec in enumerate(recs):
        chk.cov["crash_points"] = chk.cov.get("crash_points", 0) + 1
        if rec["killed"]:
            chk.cov["crash_points_killed"] = chk.cov.get("crash_points_killed", 0) + 1
        bad = verdicts[ri]
        payload = {"suite": "crash", "script": script, "K": rec["K"], "acks": [a.get("id") for a in rec["acks"]]}
        # acknowledged steps per user (script index -> position among the user's model ops)
        acked_ids = set()
        for a in rec["acks"]:
            r = a.get("recv") or ""
            sid = int(a["id"])
            st = script[sid]
            if st["k"] == "deliver":
                if r[:1] == "2":
                    acked_ids.add(sid)
            elif reply_code(r, "t%d" % sid) == 0:
                acked_ids.add(sid)
        cls_seen = set()
        spec_failed = set()
        for u in hist:
            so = spec_out.get((ri, u))
            if so and any(so.values()):
                spec_failed.add(u)
                a, j, inflight = spec_in[(ri, u)]
                spec_reported[(u, inflight)] = spec_reported.get((u, inflight), 0) + 1
                if spec_reported[(u, inflight)] > 2:
                    chk.cov["spec_violations_not_listed"] = chk.cov.get("spec_violations_not_listed", 0) + 1
                    continue
                obs_names = {m[0]: m[2] for m in ((by_user_safe(rec, u) or {}).get("mailboxes") or [])}
                ref_names = ref_mailbox_names.get(u, {})
                what = []
                for (mb, uid, msg) in so["lost_links"]:
                    what.append("mailbox %r (row %d) is still listed but lost UID %d = message row %d (%s)" % (obs_names.get(mb, ref_names.get(mb, "?")), mb, uid, msg, ref_msg.get(u, {}).get(msg, "an acknowledged operation put it there")))
                for msg in so["lost_msgs"]:
                    what.append("message row %d (%s), listed after the last acknowledged operation, is listed nowhere" % (msg, ref_msg.get(u, {}).get(msg, "?")))
                for mb in so["lost_mailboxes"]:
                    what.append("mailbox %r (row %d) is gone" % (ref_names.get(mb, "?"), mb))
                for (mb, uid, msg) in so["phantom"]:
                    what.append("mailbox %r lists UID %d (message row %d) which neither the acknowledged state nor the command in flight put there" % (obs_names.get(mb, "?"), uid, msg))
                for msg in so["incomplete"]:
                    what.append("listed message row %d does not have all its header / part rows" % msg)
                fl = ("the command in flight was %r (never acknowledged)" % (script[inflight],)) if inflight is not None else "no command was in flight (clean stop)"
                chk.violation("acknowledged work lost: after a kill before storage I/O call %d the store of %s violates the property although %s: %s" % (
                                  rec["K"], u, fl, "; ".join(what[:6])),
                              dict(payload, user=u, acknowledged_model_ops=a, in_flight_step=inflight, verdict=so, store=by_user_safe(rec, u)))
        for u in hist:
            mm = matches.get((ri, u))
            if mm is None or u in spec_failed:
                continue
            ks, cum = mm
            need = 0
            for pos, sid in enumerate(step_index[u]):
                if sid in acked_ids:
                    if script[sid]["k"] == "deliver" and not all(l[:1] == "2" for l in [x for a in rec["acks"] if int(a["id"]) == sid for x in (a.get("recv") or "").split("\r\n") if x]):
                        continue
                    need = max(need, cum[pos] if pos < len(cum) else 0)
            ubad = [b for b in bad if b[1] in (u, "*")]
            if not ks:
                if ubad:
                    continue
                chk.cov["disagreements_checked"] += 1
                chk.broken_obligation("correspondence crash no longer checks: the store of %s recovered after a kill before I/O call %d equals none of the crash states of Model/Micro.v (the audit found no property violation)" % (u, rec["K"]),
                                      dict(payload, user=u, store=by_user_safe(rec, u)))
                continue
            good = [k for (k, c, a2) in ks if k >= need]
            if not good:
                chk.violation("acknowledged work lost: the store of %s recovered after a kill before I/O call %d matches only model crash points %r, all before micro-step %d where the last acknowledged operation completed" % (u, rec["K"], [k for k, _, _ in ks], need),
                              dict(payload, user=u))
            elif not any(a2 for (k, c, a2) in ks if k >= need) and not ubad:
                chk.cov["disagreements_checked"] += 1
                chk.broken_obligation("correspondence crash no longer checks: after the first GetUserDB of the restarted server the store of %s (kill before I/O call %d) differs from the model's state after COpen (the audit found no property violation)" % (u, rec["K"]),
                                      dict(payload, user=u, store_after_open=(rec.get("by_user2") or {}).get(u)))
        # no listed finding class: whatever the audit saw is a violation
        for kind, u, text in bad:
            chk.violation("after a kill before storage I/O call %d of the workload: %s" % (rec["K"], text), dict(payload, user=u, kind=kind))
        chk.cov["traces_validated_against_impl"] += 1
    return recs


def top_level_lists(txt):
    """the top-level [...] groups of a printed Coq tuple of lists"""
    out, depth, start = [], 0, None
    for i, ch in enumerate(txt):
        if ch == "[":
            if depth == 0:
                start = i
            depth += 1
        elif ch == "]":
            depth -= 1
            if depth == 0 and start is not None:
                out.append(txt[start:i + 1])
    return out


def by_user_safe(rec, u):
    try:
        return stores_by_user(rec["d7"]).get(u)
    except Exception:
        return None


def run(chk):
    rng = chk.rng
    quick = chk.tier == "quick"
    base = tempfile.mkdtemp(prefix="c07-", dir="/var/tmp")
    try:
        # ---- 1. corpus: crash scenarios are replayed here, trace scenarios join the trace suite
        corpus_traces = []
        for path in sorted(glob.glob(os.path.join(C.VERIF, "corpus", PID, "*.json"))):
            w = json.load(open(path))
            sc_w = [dict(st, set=[tuple(x) for x in st["set"]]) if "set" in st else st for st in w.get("script", [])]
            if w.get("suite") == "trace":
                corpus_traces.append(sc_w)
            elif w.get("suite") == "crash":
                crash_suite(chk, sc_w, w["Ks"], base, "corpus")
        # ---- 2. statement-trace suite
        n_tr = 24 if quick else 200
        scripts = corpus_traces + [gen_script(rng, rng.randint(8, 16)) for _ in range(n_tr)] + FIXED_CRASH_SCRIPTS
        nops = trace_suite(chk, scripts, base=base)
        # ---- 3. crash replay
        crash_scripts = list(FIXED_CRASH_SCRIPTS)
        if not quick:
            crash_scripts += [gen_script(rng, rng.randint(8, 12), users=("u", "v")) for _ in range(3)]
        total_points = 0
        for ci, sc in enumerate(crash_scripts):
            n, acks = count_io(sc, base)
            if n <= 0:
                chk.notes.append("crash workload %d: counting run failed (harness)" % ci)
                continue
            total_points += n
            if quick:
                Ks = set([1, 2, n, n + 1] + [rng.randint(1, n) for _ in range(8)]
                         + [rng.randint(max(1, n // 2), n) for _ in range(6)])
                if ci == TARGETED_SCRIPT:
                    # every I/O call inside DELETE / RENAME; every second one inside the other targeted
                    # operations (each autocommit statement or transaction commits with >= 5 I/O calls and
                    # every crash point between two commit points recovers to the same state, so every
                    # statement boundary is still hit)
                    tk = step_windows(sc, acks, ("rename", "delete"))
                    tk |= set(k for k in step_windows(sc, acks, TARGETED_KINDS) if k % 2 == 0)
                    chk.cov["targeted_crash_points"] = len(tk)
                    Ks |= tk
                Ks = sorted(Ks)
            else:
                Ks = list(range(1, n + 2))
            crash_suite(chk, sc, Ks, base, "crash%d" % ci)
        chk.cov["crash_io_calls_total"] = total_points
        chk.cov["evaluations"] = chk.cov.get("trace_ops", 0) + chk.cov.get("crash_points", 0)
        chk.cov["distinct_nontrivial"] = chk.cov.get("trace_micro_steps", 0)
        chk.cov["rule"] = ("trace: operations whose observed write-statement sequence, reply class and resulting store were compared with Model/Micro.v inside Coq "
                           "(distinct_nontrivial = number of model micro-steps covered by them); crash: crash points (kill before the K-th xWrite/xSync/xTruncate/xDelete) "
                           "whose recovered data directory was audited by a fresh process and matched against the model's crash states; "
                           "quick = seeded sample of K incl. first/last, thorough = every K of every crash workload")
        chk.cov["input_distribution"] = {"trace_workloads": len(scripts), "ops_per_workload": "8-16", "users": 2,
                                         "message_shapes": "single part, single part > 1 KiB (blob), multipart with base64 attachment (blob), 0-2 extra headers",
                                         "crash_workloads": len(crash_scripts)}
        chk.sample({"workload": scripts[0][:6]})
    finally:
        shutil.rmtree(base, ignore_errors=True)


def replay(path):
    d = json.load(open(path))
    if d.get("suite") == "crash" and "K" in d:
        chk = C.Check(PID, "quick", 1)
        base = tempfile.mkdtemp(prefix="c07r-", dir="/var/tmp")
        try:
            recs = crash_suite(chk, d["script"], [d["K"]], base, "replay")
            for r in recs or []:
                print("K=%d killed=%s acks=%r" % (r["K"], r["killed"], [a.get("id") for a in r["acks"]]))
                print(json.dumps(r.get("d7"), indent=1)[:3000])
                for b in judge_crash(chk, d["script"], r, None):
                    print("AUDIT:", b)
            for v in chk.violations:
                print("VIOLATION:", v[1][:300])
            for c, w in chk.known_seen.items():
                print("KNOWN-FINDING:", c, w[:300])
        finally:
            shutil.rmtree(base, ignore_errors=True)
        return 0
    if d.get("suite") in ("trace",) and "script" in d:
        sc = [dict(st, set=[tuple(x) for x in st["set"]]) if "set" in st else st for st in d["script"]]
        chk = C.Check(PID, "quick", 1)
        C.pregen_all()
        C.coq_make()
        n = trace_suite(chk, [sc], label="replay")
        print("trace suite on the replayed script: %d operations compared, %d disagreement(s)" % (n, len(chk.violations)))
        for v in chk.violations:
            print("  ", v[1][:400])
        plan = Plan(sc)
        res = C.run_ops(plan.ops)
        for i, st in enumerate(d["script"]):
            first, last = plan.marks[i]
            print(i, st)
            for f, s in res["obs"][last - 1]["stmts"] or []:
                n = norm_stmt(f, s)
                if n:
                    print("     ", n)
        return 0
    print(json.dumps(d, indent=1)[:4000])
    return 0
