"""Shared machinery of the /verif checks: building the implementation driver
from /repo's working tree (overlay), building and querying the Coq
development, running scenarios, writing evidence, known-findings protocol."""
import glob
import hashlib
import json
import os
import random
import re
import shutil
import subprocess
import sys
import time

VERIF = os.path.dirname(os.path.dirname(os.path.abspath(__file__)))
REPO = os.environ.get("VERIF_REPO", "/repo")
BUILD = os.path.join(VERIF, "build")
COQ = os.path.join(VERIF, "coq")
# evidence/ holds what runs against /repo itself wrote; a run against a scratch
# copy (VERIF_REPO, used for mutants and seeded changes) writes elsewhere
EVID = os.environ.get("VERIF_EVID") or (os.path.join(BUILD, "evidence-scratch") if os.environ.get("VERIF_REPO") else os.path.join(VERIF, "evidence"))
REPLAY = os.path.join(EVID, "replay")
GO = "/root/go/pkg/mod/golang.org/toolchain@v0.0.1-go1.25.0.linux-amd64/bin/go"

TRUSTED_BASE = [
    "Coq 8.16.1 kernel (coqc, full .vo build; vm_compute used for finite tables, witnesses and in-Coq evaluation of correspondence cases; no native_compute)",
    "hand-written Gallina models under coq/Model (modelled, not verified, code: see DESIGN.md section 6)",
    "correspondence harness: Go driver harness/drv compiled into module raven via go build -overlay, export shims harness/shims, Python generators under checks/ and lib/",
    "translator harness/extract (Go AST -> coq/Gen/Facts.v) for the structural facts used by C05/C06/C12",
    "SQLite statement/transaction atomicity and UNIQUE enforcement, Go runtime, net/mail, mime, multipart, crypto/tls, AWS SDK: outside the model",
]


def go_env():
    env = dict(os.environ)
    env.update({"GOTOOLCHAIN": "local", "GOPROXY": "off", "GOSUMDB": "off",
                "GOFLAGS": "-mod=mod", "CGO_ENABLED": "1"})
    env.setdefault("GOCACHE", "/root/.cache/go-build")
    return env


def sh(cmd, cwd=None, env=None, timeout=1800, check=False, input=None):
    p = subprocess.run(cmd, cwd=cwd, env=env, timeout=timeout, input=input,
                       stdout=subprocess.PIPE, stderr=subprocess.STDOUT, text=True, shell=isinstance(cmd, str))
    if check and p.returncode != 0:
        raise RuntimeError("command failed (%s): %s\n%s" % (p.returncode, cmd, p.stdout[-4000:]))
    return p.returncode, p.stdout


# --------------------------------------------------------------------------
# implementation driver

def overlay_json():
    os.makedirs(BUILD, exist_ok=True)
    rep = {}
    for f in sorted(glob.glob(os.path.join(VERIF, "harness/drv/*.go"))):
        rep[os.path.join(REPO, "cmd/verifdrv", os.path.basename(f))] = f
    shim_dirs = {
        "message": "internal/server/message", "response": "internal/server/response",
        "parser": "internal/delivery/parser", "lmtp": "internal/delivery/lmtp",
        "sasl": "internal/sasl", "utils": "internal/server/utils", "server": "internal/server",
        "db": "internal/db", "storage": "internal/delivery/storage", "auth": "internal/server/auth",
        "selection": "internal/server/selection", "mailbox": "internal/server/mailbox",
        "uid": "internal/server/uid", "extension": "internal/server/extension",
    }
    for d, tgt in shim_dirs.items():
        for f in sorted(glob.glob(os.path.join(VERIF, "harness/shims", d, "*.go"))):
            rep[os.path.join(REPO, tgt, os.path.basename(f))] = f
    path = os.path.join(BUILD, "overlay.json")
    with open(path, "w") as fh:
        json.dump({"Replace": rep}, fh, indent=1)
    return path


_drv_built = False


def build_driver(force=False):
    """Build the driver from REPO's current working tree. The go build cache
    makes this a few seconds when nothing changed; it is run on every check."""
    global _drv_built
    out = os.path.join(BUILD, "ravendrv")
    if _drv_built and not force:
        return out
    with Lock("drv"):
        ov = overlay_json()
        rc, log = sh([GO, "build", "-tags", "verif", "-overlay", ov, "-o", out + ".new", "./cmd/verifdrv"],
                     cwd=REPO, env=go_env(), timeout=1200)
        if rc == 0:
            os.replace(out + ".new", out)
    if rc != 0:
        raise BuildError("go build of the driver failed:\n" + log[-6000:])
    _drv_built = True
    return out


class BuildError(Exception):
    pass


def latin(s):
    """bytes|str -> JSON-safe str under the Latin-1 mapping"""
    if isinstance(s, bytes):
        return s.decode("latin-1")
    return s


def unlatin(s):
    return s.encode("latin-1", "replace")


def run_ops(ops, timeout=600, env_extra=None):
    """Run one scenario (list of op dicts) in a fresh driver process."""
    drv = build_driver()
    env = dict(os.environ)
    if env_extra:
        env.update(env_extra)
    p = subprocess.run([drv], input=json.dumps({"ops": ops}), stdout=subprocess.PIPE,
                       stderr=subprocess.PIPE, text=True, timeout=timeout, env=env)
    if p.returncode != 0 or not p.stdout.strip():
        return {"crashed": True, "rc": p.returncode, "stderr": p.stderr[-3000:], "obs": []}
    try:
        return json.loads(p.stdout)
    except Exception as e:
        return {"crashed": True, "rc": p.returncode, "stderr": "bad json: %s" % e, "obs": []}


def run_many(scenarios, workers=12, timeout=600):
    """Run scenarios (each a list of ops) in parallel driver processes."""
    from concurrent.futures import ThreadPoolExecutor
    build_driver()
    with ThreadPoolExecutor(max_workers=workers) as ex:
        return list(ex.map(lambda s: run_ops(s, timeout=timeout), scenarios))


# --------------------------------------------------------------------------
# Coq

def coq_str(b):
    """Coq term of type str (list ascii) for a byte string."""
    if isinstance(b, str):
        b = b.encode("latin-1")
    if all(32 <= c < 127 for c in b):
        return '(S_ "%s")' % b.decode("ascii").replace('"', '""')
    return "(bs [%s]%%nat)" % ";".join(str(c) for c in b)


def coq_list(items):
    return "[" + "; ".join(items) + "]"


def coq_bool(b):
    return "true" if b else "false"


def coq_z(n):
    return "(%d)%%Z" % n


def coq_opt(x):
    return "None" if x is None else "(Some %s)" % x


_coq_made = False


class Lock:
    """flock on build/<name>.lock so that checks running side by side do not
    race on make / go build."""
    def __init__(self, name):
        os.makedirs(BUILD, exist_ok=True)
        self.path = os.path.join(BUILD, name + ".lock")

    def __enter__(self):
        import fcntl
        self.fh = open(self.path, "w")
        fcntl.flock(self.fh, fcntl.LOCK_EX)
        return self

    def __exit__(self, *a):
        import fcntl
        fcntl.flock(self.fh, fcntl.LOCK_UN)
        self.fh.close()


def write_coqproject():
    """_CoqProject lists every .v under coq/ (coqdep orders them); rewritten
    only when the set of files changed."""
    files = sorted(os.path.relpath(f, COQ) for f in glob.glob(os.path.join(COQ, "*", "*.v")))
    txt = "-R . Raven\n-arg -w -arg -notation-overridden,-deprecated-hint-without-locality,-deprecated-instance-without-locality\n" + "\n".join(files) + "\n"
    path = os.path.join(COQ, "_CoqProject")
    old = open(path).read() if os.path.exists(path) else ""
    if old != txt:
        with open(path, "w") as fh:
            fh.write(txt)
        return True
    return False


def pregen_all():
    """Regenerate every translator-produced file (coq/Gen/*.v) from REPO's
    current working tree: each checks/c*.py may define pregen() which writes
    its own coq/Gen/<Name>.v. Runs before every make (all of them, because
    the development is built as one project)."""
    import importlib
    sys.path.insert(0, os.path.join(VERIF, "checks"))
    os.makedirs(os.path.join(COQ, "Gen"), exist_ok=True)
    with Lock("gen"):
        for f in sorted(glob.glob(os.path.join(VERIF, "checks", "c*.py"))):
            mod = importlib.import_module(os.path.basename(f)[:-3])
            if hasattr(mod, "pregen"):
                mod.pregen()


def write_if_changed(path, txt):
    old = open(path).read() if os.path.exists(path) else None
    if old != txt:
        with open(path, "w") as fh:
            fh.write(txt)
        return True
    return False


def coq_make():
    """Full (incremental) .vo build of the development; never -vos."""
    global _coq_made
    if _coq_made:
        return 0, ""
    with Lock("coq"):
        changed = write_coqproject()
        if changed or not os.path.exists(os.path.join(COQ, "Makefile")):
            sh("coq_makefile -f _CoqProject -o Makefile", cwd=COQ, check=True)
        # -k: a property file that no longer compiles (e.g. a facts obligation
        # broken by a change to /repo) must not stop the files of the other
        # properties from being built
        rc, log = sh("timeout 3000 make -k -j16 2>&1", cwd=COQ, timeout=3100)
    _coq_made = rc == 0
    return rc, log


def coq_check_property(pid):
    """Recompile Properties/<pid>.v unconditionally, capture Print Assumptions.
    Returns dict(obligations, discharged, assumptions(list), log)."""
    src = os.path.join(COQ, "Properties", pid + ".v")
    text = open(src).read()
    thms = re.findall(r"^(?:Theorem|Lemma|Corollary)\s+([A-Za-z0-9_']+)", text, re.M)
    rc, log = sh("timeout 900 coqc -q -R . Raven Properties/%s.v 2>&1" % pid, cwd=COQ, timeout=1000)
    res = {"obligations": len(thms), "discharged": 0, "theorems": thms, "assumptions": [], "ok": rc == 0, "log": log}
    if rc != 0:
        return res
    closed = log.count("Closed under the global context")
    axioms = []
    for m in re.finditer(r"Axioms:\n((?:.+\n?)+?)(?:\n|$)", log):
        for line in m.group(1).splitlines():
            mm = re.match(r"^([A-Za-z0-9_.']+)\s*:", line)
            if mm:
                axioms.append(mm.group(1))
    res["assumptions"] = sorted(set(axioms))
    res["discharged"] = len(thms)
    res["closed"] = closed
    return res


ALLOWED_AXIOMS = {
    # stdlib axioms that may appear through libraries; each is named in DESIGN.md section 6
    "Coq.Logic.FunctionalExtensionality.functional_extensionality_dep",
    "functional_extensionality_dep",
    "Coq.Logic.ProofIrrelevance.proof_irrelevance", "proof_irrelevance",
    "Coq.Logic.Classical_Prop.classic", "classic",
    "Coq.Logic.JMeq.JMeq_eq", "JMeq_eq",
    "Coq.Logic.Eqdep.Eq_rect_eq.eq_rect_eq", "Eq_rect_eq.eq_rect_eq", "eq_rect_eq",
}


def forbidden_scan():
    """No Admitted/admit/Axiom/Parameter/... anywhere in the development."""
    bad = []
    pat = re.compile(r"\b(Admitted|admit|Axiom|Axioms|Parameter|Parameters|Conjecture|Admit Obligations|Unset Guard Checking|bypass_check|Unset Positivity|Unset Universe Checking)\b|type-in-type|impredicative-set")
    for f in glob.glob(os.path.join(COQ, "**/*.v"), recursive=True):
        txt = open(f).read()
        txt = re.sub(r"\(\*.*?\*\)", "", txt, flags=re.S)
        stack = []
        for i, line in enumerate(txt.splitlines(), 1):
            if pat.search(line):
                bad.append("%s:%d: %s" % (os.path.relpath(f, VERIF), i, line.strip()))
            # a Variable/Hypothesis/Context outside a Section declares an axiom
            m = re.match(r"\s*(Section|Module Type|Module)\s+(?:Import\s+|Export\s+)?([A-Za-z_][\w']*)\s*([^.]*)\.", line)
            if m and ":=" not in m.group(3):
                stack.append(("S" if m.group(1) == "Section" else "M", m.group(2)))
            m = re.match(r"\s*End\s+([A-Za-z_][\w']*)\s*\.", line)
            if m and stack:
                stack.pop()
            if re.match(r"\s*(Local\s+|Global\s+)?(Variable|Variables|Hypothesis|Hypotheses|Context)\b", line) and not any(k == "S" for k, _ in stack):
                bad.append("%s:%d: section-less %s" % (os.path.relpath(f, VERIF), i, line.strip()))
    return bad


def coq_eval_cases(pid, body, timeout=900):
    """Write build/cases/<pid>_cases.v with the given body, compile it against
    the development and return (rc, output)."""
    d = os.path.join(BUILD, "cases")
    os.makedirs(d, exist_ok=True)
    name = "%s_cases" % pid
    path = os.path.join(d, name + ".v")
    with open(path, "w") as fh:
        fh.write(body)
    rc, log = sh("timeout %d coqc -q -R %s Raven -R . Cases %s.v 2>&1" % (timeout, COQ, name), cwd=d, timeout=timeout + 60)
    return rc, log


def parse_coq_list_out(log, ident):
    """Extract the text printed for `Print ident.` / `ident = ...` (flattened)."""
    m = re.search(r"^%s\s*=\s*(.*?)\n\s*:\s" % re.escape(ident), log, re.S | re.M)
    if not m:
        return None
    return re.sub(r"\s+", " ", m.group(1)).strip()


# --------------------------------------------------------------------------
# known findings

def load_findings(pid):
    path = os.path.join(VERIF, "known_findings", pid + ".txt")
    out = {}
    if not os.path.exists(path):
        return out
    for line in open(path):
        line = line.strip()
        if not line.startswith("finding:"):
            continue
        m = re.match(r"finding:\s+property=(\S+)\s+class=(\S+)\s+(.*)$", line)
        if m and m.group(1) == pid:
            out[m.group(2)] = m.group(3)
    return out


# --------------------------------------------------------------------------
# check frame

class Check:
    def __init__(self, pid, tier, seed):
        self.pid = pid
        self.tier = tier
        self.seed = seed
        self.rng = random.Random(seed * 1000003 + int(pid[1:]))
        self.t0 = time.time()
        self.violations = []      # (replay_path, note)
        self.known_seen = {}      # class -> description
        self.findings = load_findings(pid)
        self.cov = {"obligations": 0, "discharged": 0, "checker_cmd": "", "trusted_base": list(TRUSTED_BASE),
                    "evaluations": 0, "distinct_nontrivial": 0, "rule": "", "samples": [],
                    "traces_validated_against_impl": 0, "disagreements_checked": 0}
        self.assumptions = []
        self.notes = []

    # -- proof step -------------------------------------------------------
    def proof_step(self):
        bad = forbidden_scan()
        if bad:
            self.broken_obligation("forbidden construct in the Coq development: " + "; ".join(bad[:5]))
            return False
        rc, log = coq_make()
        self.make_rc = rc
        r = coq_check_property(self.pid)
        if rc != 0 and r["ok"]:
            self.notes.append("make -k reported errors in files this property does not depend on (other properties' obligations); Properties/%s.v and its dependencies compiled" % self.pid)
        self.cov["obligations"] = r["obligations"]
        self.cov["discharged"] = r["discharged"]
        self.cov["theorems"] = r["theorems"]
        self.cov["checker_cmd"] = "cd coq && make (coq_makefile, full .vo) && coqc -q -R . Raven Properties/%s.v  [Print Assumptions under every theorem]" % self.pid
        self.cov["print_assumptions"] = ("all %d closed under the global context" % r.get("closed", 0)) if not r["assumptions"] else r["assumptions"]
        if not r["ok"]:
            self.broken_obligation("Properties/%s.v does not compile:\n%s" % (self.pid, r["log"][-3000:]))
            return False
        extra = [a for a in r["assumptions"] if a not in ALLOWED_AXIOMS and a.split(".")[-1] not in ALLOWED_AXIOMS]
        if extra:
            self.broken_obligation("theorems of %s depend on unexpected axioms: %s" % (self.pid, extra))
            return False
        self.assumptions += ["Print Assumptions: " + (", ".join(r["assumptions"]) if r["assumptions"] else "closed under the global context")]
        if self.tier == "thorough" and os.environ.get("VERIF_NO_COQCHK") != "1":
            # independent re-check of the compiled property file and everything it depends on
            with Lock("coqchk"):
                rc2, out = sh("timeout 2400 coqchk -silent -o -R . Raven Raven.Properties.%s 2>&1" % self.pid, cwd=COQ, timeout=2500)
            m = re.search(r"\* Axioms:\s*(.*?)\n\s*\n", out, re.S)
            axs = re.sub(r"\s+", " ", m.group(1)).strip() if m else "?"
            self.cov["coqchk"] = {"rc": rc2, "axioms": axs}
            self.assumptions.append("coqchk -o: axioms = %s" % axs)
            if rc2 != 0:
                self.broken_obligation("coqchk rejects Properties/%s.vo or a dependency:\n%s" % (self.pid, out[-2000:]))
                return False
            bad = [a for a in re.split(r"[\s,]+", axs) if a and a != "<none>" and a.split(".")[-1] not in ALLOWED_AXIOMS and a not in ALLOWED_AXIOMS]
            if bad:
                self.broken_obligation("coqchk reports axioms outside the named standard-library set: %s" % bad)
                return False
        return True

    # -- reporting ----------------------------------------------------------
    def replay_file(self, payload, tag="v"):
        os.makedirs(REPLAY, exist_ok=True)
        h = hashlib.sha1(json.dumps(payload, sort_keys=True, default=str).encode()).hexdigest()[:10]
        path = os.path.join(REPLAY, "%s-%s-%s.json" % (self.pid, tag, h))
        with open(path, "w") as fh:
            json.dump(payload, fh, indent=1, default=str)
        return path

    def violation(self, what, payload, cls=None):
        """A property violation observed on the implementation. If its class is
        a listed known finding it is reported as such, else as VIOLATION."""
        if cls is not None and cls in self.findings:
            if cls not in self.known_seen:
                self.known_seen[cls] = what
            return
        payload = dict(payload)
        payload["property"] = self.pid
        payload["what"] = what
        payload["class"] = cls
        path = self.replay_file(payload)
        self.violations.append((path, what, False))

    def broken_obligation(self, what, payload=None):
        """A proof obligation or the correspondence no longer checks and no
        failing input was found (callers search first)."""
        p = dict(payload or {})
        p.update({"property": self.pid, "broken": what, "no_failing_input_found": True})
        path = self.replay_file(p, "broken")
        self.violations.append((path, what, True))

    def sample(self, x):
        if len(self.cov["samples"]) < 6:
            self.cov["samples"].append(x)

    def finish(self):
        def clean(t):
            # one printable line: control and non-ASCII bytes escaped
            return "".join(ch if 32 <= ord(ch) < 127 else "\\x%02x" % (ord(ch) & 0xff) for ch in str(t).replace("\n", " ").replace("\r", " "))
        def say(line):
            try:
                print(line)
                sys.stdout.flush()
            except BrokenPipeError:
                pass
        for cls, what in sorted(self.known_seen.items()):
            say("KNOWN-FINDING: property=%s class=%s %s" % (self.pid, cls, clean(what)[:400]))
        for cls in sorted(self.findings):
            if cls not in self.known_seen:
                self.notes.append("listed finding %s was not reproduced in this run" % cls)
        seen = set()
        # concrete failing inputs first, broken obligations / correspondences (no failing input found) after them
        for path, what, nofail in sorted(self.violations, key=lambda v: 1 if v[2] else 0):
            if path in seen:
                continue
            seen.add(path)
            say("VIOLATION property=%s replay=%s%s" % (self.pid, path, " no-failing-input-found" if nofail else ""))
            say("  " + clean(what.splitlines()[0] if what else "")[:300])
        ev = {
            "property_id": self.pid, "tier": self.tier, "seed": self.seed, "level": "proof",
            "coverage": self.cov, "assumptions": self.assumptions + self.notes,
            "wall_s": round(time.time() - self.t0, 2), "violations": len(seen),
            "known_findings_reproduced": sorted(self.known_seen),
        }
        os.makedirs(EVID, exist_ok=True)
        with open(os.path.join(EVID, self.pid + ".json"), "w") as fh:
            json.dump(ev, fh, indent=1, default=str)
        return 1 if seen else 0


COQ_CASE_HEADER = """From Coq Require Import String Ascii List ZArith NArith Bool.
From Raven Require Import Base.GoStr.
Import ListNotations.
Local Open Scope string_scope.
"""
